#!/usr/bin/env python3
"""c2que: translate the queue functions of src/que.c / include/a/que.h (clang JSON AST) into Gallina over a CONCRETE queue
state (property C05).  The output is the module `Gen.QueGen`, regenerated from the CURRENT sources on every run; the files
harness/C05/TieQue*.v prove that every generated function SIMULATES the hand-written model coq/C05/QueDefs.v (which abstracts
the recycle pool `ptr_/cur_/mem_` into a list) under the abstraction relation R stated there.

The concrete state (PRELUDE below)
----------------------------------
`cworld` = the list heap (dheap of DListDefs.v: next/prev of both sentinels and of every node), the payload map, the fresh
address counter, the allocator fault schedule and request trace - all as in the model's `qworld` - and two CONCRETE queue
records `cque` = { c_ptr : the pool array (ANull | AArr cells | AGone = released by a successful realloc and not stored again);
c_siz, c_num, c_cur, c_mem }.  A cell is `option id` (None = never written).  The queue object `ctx` is one of the two objects
of the model: a parameter of type `a_que *` becomes the selector `ctx : bool`, `&ctx->head_` is `qaddr ctx`.

What a C function becomes
-------------------------
Values.  `a_list *` is an address `id` (N, 0 = NULL); `void *` (element pointer) is the address of the node whose payload it
points to: `node + 1` IS `node` (and `(a_list *)p - 1` is `p`); a node pointer converted to `void *` without `+ 1` is accepted
only where it is known to be null (inside `if (!node)`).  `a_list **` is a `pptr` (PNull | POwn off: into the queue's own array |
PBlk cells: a block a_alloc has just returned | PGone).  `a_size` is N and `a_diff`/`int` are Z WITHOUT WRAP, as QueDefs.v has
them (its header: the counters cannot wrap, every element occupies >= 17 bytes); `x & ~m` is N.ldiff, `x >> k` N.shiftr.
Enumeration constants and sizeof are evaluated from the AST (sizeof of a record whose members are all 8-byte scalars).
The k-th value of the C variable `v` is `v'k` (`v'0` = the parameter), the k-th world is `w'k`, temporaries are `t'k`.

Effects, in the C's order, each where the C evaluates it:
    p->next / p->prev / ctx->head_.next         bind (lift (rd_next (k_h w) p)) (fun t => ...)      (Fault: null / not allocated)
    p->next = e                                 bind (lift (wr_next (k_h w) p e)) (fun h => let w' := kseth w h in ...)
    ctx->siz_ ...                               c_siz (kgetq w ctx);   stores: let w' := set_siz w ctx e in ...
    ctx->ptr_ (value)                           own_ptr w ctx;         ctx->ptr_ = e:  bind (store_ptr w ctx e)
    p[i] with p : a_list **                     bind (pool_ld w ctx p i) / bind (pool_st w ctx p i v)   (Fault outside the array,
                                                through NULL / a released block, read of a cell never written)
    a_list_X(a, b)                              bind (lift (l_X (k_h w) a b)) - the MODEL primitive that harness/C05/TieList.v
                                                proves equal to the body of a_list_X regenerated from list.h on the same run
                                                (the map C name -> model name is read from the statements of TieList.v)
    (a_list *)a_alloc(NULL, n)                  node_alloc w n       (the model's request `ask` with RNode n; a fresh node)
    (a_list **)a_alloc(ctx->ptr_, n)            pool_realloc w ctx p n  (`ask` with RPool n; the old block is released on success)
    a_alloc(node, 0)                            node_free w node
    f(ctx, ...)                                 bind (f w ctx ...) for functions translated earlier
    swap = *lhs;  *lhs = *rhs;  (a_que by value)  bind (struct_ld w lhs) / let w' := struct_st w lhs v: the sentinel's two links and
                                                the other members (the pool array goes with ptr_);  lhs == rhs  is Bool.eqb
Control: continuation style (`if/else`, early `return`, `?:`, `&&`/`||`/`!`, `__builtin_expect`); the statements after an `if`
appear in both arms, except `if (c) v = e;` on locals with pure operands, which is `let v' := if c then e else v`.
Loops (`for`, `while`, `do`, with `break`, `continue`, `return`) each become
    Fixpoint <f>_loop<k> (fuel : nat) (w'0 : cworld) <variables the loop uses> {struct fuel} : outcome <R> :=
      match fuel with O => NoFuel | S fuel' => <one iteration> end.
R = the (world and) variables assigned in the loop that are used after it; `RET + R` when the loop contains a `return`.
One unit of fuel is consumed at the head of every iteration (before the condition of for/while, before the body of do).
FUEL CONVENTION (the model's): every loop is started with `kfuel w` = S (fresh address counter) of the world at its entry.
A callback `dtor` is specialised to NULL (the model's convention); a comparison callback becomes `cmp : Z -> Z -> Z` applied
to the payloads of the two elements (a `void const *key` parameter is the payload value itself).

Anything else raises Unsupported(function:line) - nothing is approximated silently."""
import json
import re
import subprocess
import sys
from pathlib import Path

PRELUDE = r"""(* GENERATED by tools/c2que.py from the current sources - do not edit. *)
From Coq Require Import NArith ZArith List Bool FMapPositive.
From LibaV Require Import C05.DListDefs C05.QueDefs.
Import ListNotations.
Local Open Scope N_scope.

(* ---------------------------------------------------------------- vocabulary of the generated code *)
Definition bind {A B : Type} (r : outcome A) (k : A -> outcome B) : outcome B :=
  match r with Ok a => k a | Fault => Fault | NoFuel => NoFuel end.

(* the concrete queue object: the pool is an array of cells with a fill count and a capacity *)
Definition cell := option id.                                  (* None = never written *)
Inductive parr : Type := ANull | AArr (l : list cell) | AGone.  (* ptr_: NULL / a live block / a block realloc has released *)
Record cque := mkC { c_ptr : parr; c_siz : N; c_num : N; c_cur : N; c_mem : N }.
Record cworld := mkK { k_h : dheap; k_val : PositiveMap.t Z; k_fresh : N; k_qa : cque; k_qb : cque;
                       k_sched : list bool; k_trace : list areq }.

Definition kgetq (w : cworld) (s : bool) : cque := if s then k_qb w else k_qa w.
Definition ksetq (w : cworld) (s : bool) (q : cque) : cworld :=
  if s then mkK (k_h w) (k_val w) (k_fresh w) (k_qa w) q (k_sched w) (k_trace w)
  else mkK (k_h w) (k_val w) (k_fresh w) q (k_qb w) (k_sched w) (k_trace w).
Definition kseth (w : cworld) (h : dheap) : cworld :=
  mkK h (k_val w) (k_fresh w) (k_qa w) (k_qb w) (k_sched w) (k_trace w).
Definition set_ptr (w : cworld) (s : bool) (v : parr) : cworld :=
  let q := kgetq w s in ksetq w s (mkC v (c_siz q) (c_num q) (c_cur q) (c_mem q)).
Definition set_siz (w : cworld) (s : bool) (v : N) : cworld :=
  let q := kgetq w s in ksetq w s (mkC (c_ptr q) v (c_num q) (c_cur q) (c_mem q)).
Definition set_num (w : cworld) (s : bool) (v : N) : cworld :=
  let q := kgetq w s in ksetq w s (mkC (c_ptr q) (c_siz q) v (c_cur q) (c_mem q)).
Definition set_cur (w : cworld) (s : bool) (v : N) : cworld :=
  let q := kgetq w s in ksetq w s (mkC (c_ptr q) (c_siz q) (c_num q) v (c_mem q)).
Definition set_mem (w : cworld) (s : bool) (v : N) : cworld :=
  let q := kgetq w s in ksetq w s (mkC (c_ptr q) (c_siz q) (c_num q) (c_cur q) v).

(* the whole object by value (`swap = *lhs; *lhs = *rhs;`): the embedded sentinel's two links and the other members; the pool
   array goes with the member ptr_ that points to it *)
Definition struct_ld (w : cworld) (s : bool) : outcome (dnode * cque) :=
  match dget (k_h w) (qaddr s) with Some d => Ok (d, kgetq w s) | None => Fault end.
Definition struct_st (w : cworld) (s : bool) (v : dnode * cque) : cworld :=
  ksetq (kseth w (dset (k_h w) (qaddr s) (fst v))) s (snd v).

(* fuel of a loop: the model's fuel_of *)
Definition kfuel (w : cworld) : nat := S (N.to_nat (k_fresh w)).

(* one a_alloc request: the MODEL's `ask` on the allocator part of the world (schedule, trace) *)
Definition kask (w : cworld) (mk : bool -> areq) : cworld * bool :=
  let '(m, ok) := ask (mkW (k_h w) (k_val w) (k_fresh w) (mkQ [] 0 0 0) (mkQ [] 0 0 0) (k_sched w) (k_trace w)) mk in
  (mkK (k_h w) (k_val w) (k_fresh w) (k_qa w) (k_qb w) (w_sched m) (w_trace m), ok).

(* (a_list * )a_alloc(NULL, bytes): a fresh node (links and payload zero, as the model's q_new_ has it) or NULL *)
Definition node_alloc (w : cworld) (bytes : N) : cworld * id :=
  if N.eqb bytes 0 then (w, 0)
  else
    let '(w1, ok) := kask w (RNode bytes) in
    if ok then
      let n := k_fresh w1 in
      (mkK (dset (k_h w1) n (mkD 0 0)) (vset (k_val w1) n 0%Z) (n + 1) (k_qa w1) (k_qb w1) (k_sched w1) (k_trace w1), n)
    else (w1, 0).
(* a_alloc(node, 0): the node leaves the heap *)
Definition node_free (w : cworld) (n : id) : outcome cworld :=
  if N.eqb n 0 then Ok w
  else match dget (k_h w) n with
       | None => Fault
       | Some _ => Ok (mkK (ddel (k_h w) n) (vdel (k_val w) n) (k_fresh w) (k_qa w) (k_qb w) (k_sched w) (k_trace w))
       end.

(* pointers into the pool array *)
Inductive pptr : Type := PNull | POwn (off : N) | PBlk (l : list cell) | PGone.
Definition own_ptr (w : cworld) (s : bool) : pptr :=
  match c_ptr (kgetq w s) with ANull => PNull | AArr _ => POwn 0 | AGone => PGone end.
Definition p_null (p : pptr) : bool := match p with PNull => true | _ => false end.
Definition padd (p : pptr) (k : N) : pptr := match p with POwn o => POwn (o + k) | PNull => PNull | _ => PGone end.
Fixpoint upd {A : Type} (l : list A) (i : nat) (v : A) : option (list A) :=
  match l, i with
  | [], _ => None
  | _ :: r, O => Some (v :: r)
  | x :: r, S j => match upd r j v with Some r' => Some (x :: r') | None => None end
  end.
Definition resize (l : list cell) (n : nat) : list cell := firstn n (l ++ repeat None n).

(* (a_list ** )a_alloc(p, bytes) with p = ctx->ptr_ (NULL or the start of the queue's own live array): realloc / free.  A
   successful realloc releases the old block (the field holds AGone until the result is stored); the new block keeps the
   old cells and its other cells are unwritten *)
Definition pool_realloc (w : cworld) (s : bool) (p : pptr) (bytes : N) : outcome (cworld * pptr) :=
  match p, c_ptr (kgetq w s) with
  | PNull, ANull =>
      if N.eqb bytes 0 then Ok (w, PNull)
      else let '(w1, ok) := kask w (RPool bytes) in
           if ok then Ok (w1, PBlk (resize [] (N.to_nat (bytes / 8)))) else Ok (w1, PNull)
  | POwn 0, AArr l =>
      if N.eqb bytes 0 then Ok (set_ptr w s AGone, PNull)
      else let '(w1, ok) := kask w (RPool bytes) in
           if ok then Ok (set_ptr w1 s AGone, PBlk (resize l (N.to_nat (bytes / 8)))) else Ok (w1, PNull)
  | _, _ => Fault
  end.
Definition store_ptr (w : cworld) (s : bool) (p : pptr) : outcome cworld :=
  match p with PNull => Ok (set_ptr w s ANull) | PBlk l => Ok (set_ptr w s (AArr l)) | _ => Fault end.
Definition pool_ld (w : cworld) (s : bool) (p : pptr) (i : N) : outcome id :=
  match p, c_ptr (kgetq w s) with
  | POwn off, AArr l => match nth_error l (N.to_nat (off + i)) with Some (Some v) => Ok v | _ => Fault end
  | _, _ => Fault
  end.
Definition pool_st (w : cworld) (s : bool) (p : pptr) (i : N) (v : id) : outcome cworld :=
  match p, c_ptr (kgetq w s) with
  | POwn off, AArr l => match upd l (N.to_nat (off + i)) (Some v) with
                        | Some l' => Ok (set_ptr w s (AArr l'))
                        | None => Fault
                        end
  | _, _ => Fault
  end.

"""

STAGE1 = ["a_que_siz", "a_que_num", "a_que_ctor", "a_que_new_", "a_que_die_", "a_que_fore_", "a_que_back_", "a_que_fore", "a_que_back", "a_que_at",
          "a_que_push_fore", "a_que_push_back", "a_que_pull_fore", "a_que_pull_back", "a_que_insert", "a_que_remove"]
STAGE3 = ["a_que_swap_", "a_que_sort_fore", "a_que_sort_back", "a_que_push_sort", "a_que_drop", "a_que_move_", "a_que_swap", "a_que_setz"]


def functions():
    """the functions of src/que.c / include/a/que.h this translator is run on, in translation order (callees first)"""
    return STAGE1 + STAGE3


GTYPE = {"node": "id", "elem": "id", "size": "N", "diff": "Z", "int": "Z", "bool": "bool", "pool": "pptr", "que": "bool", "key": "Z", "cmp": "(Z -> Z -> Z)", "qval": "(dnode * cque)"}
FIELDS = {"siz_": "siz", "num_": "num", "cur_": "cur", "mem_": "mem"}


class Unsupported(Exception):
    pass


def load_ast(path, include, cfg):
    cmd = ["clang", "-std=c11", "-I", str(include), '-DA_HAVE_H="%s"' % cfg, "-fsyntax-only", "-Xclang", "-ast-dump=json", str(path)]
    p = subprocess.run(cmd, stdout=subprocess.PIPE, stderr=subprocess.PIPE, text=True)
    if p.returncode != 0 or not p.stdout:
        raise Unsupported("clang failed on %s: %s" % (path, " ".join(p.stderr.split())[-400:]))
    return json.loads(p.stdout)


class Lines:
    """clang's JSON dump omits `line` in a location when it equals the line of the location printed before it: resolve the
    line of every node by a pass in document order"""

    def __init__(self):
        self.map = {}
        self.last = None

    def one(self, l):
        if not l:
            return None
        if "spellingLoc" in l or "expansionLoc" in l:
            self.one(l.get("spellingLoc"))
            return self.one(l.get("expansionLoc"))
        if l.get("line"):
            self.last = l["line"]
        return self.last

    def fill(self, n):
        if not isinstance(n, dict):
            return
        a = self.one(n.get("loc"))
        rng = n.get("range") or {}
        b = self.one(rng.get("begin"))
        self.one(rng.get("end"))
        if "id" in n:
            self.map.setdefault(n["id"], b or a)
        for c in n.get("inner", []) or []:
            self.fill(c)


def skip(n):
    """drop parentheses and value-preserving implicit casts (never a pointer or integer conversion)"""
    while isinstance(n, dict):
        k = n.get("kind")
        if k in ("ParenExpr", "ConstantExpr"):
            n = n["inner"][0]
        elif k == "ImplicitCastExpr" and n.get("castKind") in ("LValueToRValue", "NoOp", "FunctionToPointerDecay", "BuiltinFnToFnPtr"):
            n = n["inner"][0]
        elif k == "CStyleCastExpr" and n.get("castKind") == "NoOp":
            n = n["inner"][0]
        else:
            break
    return n


def qual(n):
    t = n.get("type") or {}
    return t.get("desugaredQualType") or t.get("qualType") or ""


def norm_type(q):
    toks = q.replace("*", " * ").split()
    return "".join(t for t in toks if t not in ("const", "struct", "volatile", "restrict", "__restrict"))


def ctype(q):
    """class of a C type"""
    t = norm_type(q)
    return {"a_list*": "node", "a_list**": "pool", "a_que*": "que", "void*": "elem", "unsignedlong": "size", "a_size": "size",
            "long": "diff", "a_diff": "diff", "int": "int", "void": "void", "a_que": "qval",
            "void(*)(void*)": "dtor", "int(*)(voidconst*,voidconst*)": "cmp", "int(*)(void*,void*)": "cmp"}.get(t, "?" + t)


def ctype_of(n):
    t = n.get("type") or {}
    for q in (t.get("qualType"), t.get("desugaredQualType")):
        if q:
            c = ctype(q)
            if not c.startswith("?"):
                return c
    q = t.get("desugaredQualType") or t.get("qualType") or ""
    tn = "".join(x for x in q.replace("*", " * ").split() if x not in ("struct", "volatile", "restrict", "__restrict"))
    if tn in ("int(*)(constvoid*,constvoid*)",):
        return "cmp"
    if tn in ("constvoid*",):
        return "elem"
    return ctype(q)


def ind(txt, by=2):
    pad = " " * by
    return "\n".join(pad + l if l else l for l in txt.split("\n"))


def zlit(v):
    return "%d%%Z" % v if v >= 0 else "(%d)%%Z" % v


class Val:
    __slots__ = ("t", "ty", "null", "neg", "lit", "q")

    def __init__(self, t, ty, null=False, neg=False, lit=None, q=None):
        self.t, self.ty, self.null, self.neg, self.lit, self.q = t, ty, null, neg, lit, q


class Tr:
    """translation of the functions of one translation unit"""

    def __init__(self, ast, prims):
        self.funcs, self.enums, self.records = {}, {}, {}
        self.prims = prims        # C name of a list primitive -> name of the model function TieList.v ties it to
        self.lines = Lines()
        self.done = {}            # name -> signature of a translated function
        for n in ast.get("inner", []):
            k = n.get("kind")
            if k == "FunctionDecl" and any(c.get("kind") == "CompoundStmt" for c in n.get("inner", [])):
                self.funcs[n["name"]] = n
            if k == "RecordDecl" and n.get("completeDefinition") and n.get("name"):
                self.records[n["name"]] = n
            if k == "EnumDecl":
                v = -1
                for c in n.get("inner", []) or []:
                    if c.get("kind") != "EnumConstantDecl":
                        continue
                    init = [i for i in c.get("inner", []) or [] if i.get("kind") not in ("FullComment",)]
                    if init:
                        x = init[0]
                        while isinstance(x, dict) and "value" not in x and x.get("inner"):
                            x = x["inner"][0]
                        try:
                            v = int(x.get("value"))
                        except (TypeError, ValueError):
                            v = None
                    else:
                        v = None if v is None else v + 1
                    self.enums[c["name"]] = v

    def sizeof_record(self, name):
        """sizeof of a structure whose members are all 8-byte scalars (pointers, a_size) or such structures; checked, not assumed"""
        r = self.records.get(name)
        if r is None:
            raise Unsupported("sizeof(%s): no complete definition found" % name)
        total = 0
        for f in r.get("inner", []) or []:
            if f.get("kind") != "FieldDecl":
                continue
            q = qual(f)
            t = norm_type(q)
            if t.endswith("*") or t in ("unsignedlong", "long"):
                total += 8
            elif t in self.records:
                total += self.sizeof_record(t)
            else:
                raise Unsupported("sizeof(%s): member %s of type `%s`" % (name, f.get("name"), q))
        return total

    def refs(self, n, out=None):
        out = set() if out is None else out
        if isinstance(n, dict):
            if n.get("kind") == "DeclRefExpr" and n.get("referencedDecl", {}).get("kind") in ("VarDecl", "ParmVarDecl"):
                out.add(n["referencedDecl"]["name"])
            for c in n.get("inner", []) or []:
                self.refs(c, out)
        elif isinstance(n, list):
            for c in n:
                self.refs(c, out)
        return out

    def assigned(self, n, out=None):
        out = set() if out is None else out
        if isinstance(n, dict):
            k = n.get("kind")
            if k == "CompoundAssignOperator" or (k == "BinaryOperator" and n.get("opcode") == "=") or \
                    (k == "UnaryOperator" and n.get("opcode") in ("++", "--")):
                l = skip(n["inner"][0])
                if l.get("kind") == "DeclRefExpr":
                    out.add(l["referencedDecl"]["name"])
            if k == "VarDecl":
                out.add(n["name"])
            for c in n.get("inner", []) or []:
                self.assigned(c, out)
        elif isinstance(n, list):
            for c in n:
                self.assigned(c, out)
        return out

    def writes_state(self, n):
        """does the subtree store through a pointer / into the queue object, allocate, or call a function that does?"""
        if isinstance(n, dict):
            k = n.get("kind")
            if k == "CompoundAssignOperator" or (k == "BinaryOperator" and n.get("opcode") == "=") or \
                    (k == "UnaryOperator" and n.get("opcode") in ("++", "--")):
                if skip(n["inner"][0]).get("kind") != "DeclRefExpr":
                    return True
            if k == "CallExpr":
                nm = skip(n["inner"][0]).get("referencedDecl", {}).get("name")
                if nm == "a_alloc" or nm in self.prims:
                    return True
                if nm in self.done and self.done[nm]["state"]:
                    return True
            return any(self.writes_state(c) for c in n.get("inner", []) or [])
        if isinstance(n, list):
            return any(self.writes_state(c) for c in n)
        return False

    def has_return(self, n):
        if isinstance(n, dict):
            if n.get("kind") == "ReturnStmt":
                return True
            return any(self.has_return(c) for c in n.get("inner", []) or [])
        return False

    def translate(self, name):
        if name not in self.funcs:
            raise Unsupported("function %s not found with a body" % name)
        F = Fn(self, self.funcs[name])
        text = F.run()
        self.done[name] = F.sig
        return text


def with_var(E, nm, val):
    E2 = dict(E)
    E2["env"] = dict(E["env"])
    E2["env"][nm] = val
    return E2


def with_w(E, w):
    E2 = dict(E)
    E2["w"] = w
    return E2


SIMPLE = re.compile(r"[\w']+\Z")


class Fn:
    def __init__(self, tr, node):
        self.tr, self.node, self.name = tr, node, node["name"]
        tr.lines.fill(node)
        self.defs = []            # loop Fixpoints, in order
        self.loops = {}
        self.nloops = 0
        self.counter = {}
        self.order = []           # C variables in declaration order
        self.vtypes = {}          # C variable -> class of its declared type
        self.sig = None
        self.state = False
        self.rt = None

    def where(self, n):
        return "%s:%s" % (self.name, self.tr.lines.map.get(n.get("id")))

    def bad(self, what, n):
        raise Unsupported("%s at %s" % (what, self.where(n)))

    def fresh(self, base):
        k = self.counter.get(base, 0) + 1
        self.counter[base] = k
        return "%s'%d" % (base, k)

    # ---------------------------------------------------------------- emission helpers
    def bind_val(self, term, base, ty, E, k, q=None):
        x = self.fresh(base)
        return "bind (%s) (fun %s =>\n%s)" % (term, x, k(Val(x, ty, q=q), E))

    def let_world(self, term, E, k):
        w = self.fresh("w")
        return "let %s := %s in\n%s" % (w, term, k(with_w(E, w)))

    def bind_world(self, term, E, k):
        w = self.fresh("w")
        return "bind (%s) (fun %s =>\n%s)" % (term, w, k(with_w(E, w)))

    def retpack(self, v, E, n):
        """the packed result of the function: (world, value) / world / value"""
        if (v is None) != (self.rt == "void"):
            self.bad("return with/without a value", n)
        if v is not None and v.ty != self.rt:
            self.bad("return of a `%s` value from a function returning `%s`" % (v.ty, self.rt), n)
        if self.state:
            return E["w"] if v is None else "(%s, %s)" % (E["w"], v.t)
        return v.t

    def rettype(self):
        if self.state:
            return "cworld" if self.rt == "void" else "(cworld * %s)" % GTYPE[self.rt]
        return GTYPE[self.rt]

    # ---------------------------------------------------------------- values
    def truth(self, v, n):
        """(term, neg): the value is true iff term xor neg"""
        if v.ty == "bool":
            return v.t, v.neg
        if v.ty in ("node", "elem", "size"):
            return "N.eqb %s 0" % v.t, True
        if v.ty == "pool":
            return "p_null %s" % v.t, True
        if v.ty in ("int", "diff"):
            return "Z.eqb %s 0" % v.t, True
        if v.ty == "dtor":
            return "true", True           # specialised to NULL
        self.bad("truth value of a `%s`" % v.ty, n)

    def boolterm(self, v, n):
        t, neg = self.truth(v, n)
        return "(negb (%s))" % t if neg else "(%s)" % t

    def convert(self, v, want, n):
        if v.ty == want:
            return v
        if v.ty == "bool" and want in ("int", "diff"):
            return v                      # a truth value passed through an integer type (`!!x`, __builtin_expect)
        if v.lit is not None and v.lit >= 0 and want in ("size", "diff", "int"):
            return Val(str(v.lit) if want == "size" else zlit(v.lit), want, lit=v.lit)
        if v.ty == "int" and want == "diff":
            return Val(v.t, "diff")
        self.bad("conversion from `%s` to `%s`" % (v.ty, want), n)

    def qterm(self, n, E):
        """the selector of the queue object a `a_que *` expression designates: a parameter"""
        m = skip(n)
        if m.get("kind") == "DeclRefExpr":
            v = E["env"].get(m["referencedDecl"]["name"])
            if v is not None and v.ty == "que":
                return v.t
        self.bad("queue object that is not a parameter of the function", n)

    def sizeof(self, m):
        at = m.get("argType") or (m["inner"][0].get("type") if m.get("inner") else {}) or {}
        q = at.get("desugaredQualType") or at.get("qualType") or ""
        t = norm_type(q)
        if t.endswith("*"):
            return 8
        if t in ("unsignedlong", "long"):
            return 8
        t2 = norm_type(at.get("qualType") or "")
        for cand in (t, t2):
            if cand in self.tr.records:
                return self.tr.sizeof_record(cand)
        self.bad("sizeof(%s)" % q, m)

    # ---------------------------------------------------------------- expressions.  k : (Val, E) -> text
    def expr(self, n, E, k, hint=None):
        m = skip(n)
        kind = m.get("kind")
        if kind in ("ImplicitCastExpr", "CStyleCastExpr"):
            ck = m.get("castKind")
            sub = m["inner"][0]
            want = ctype_of(m)
            if ck == "NullToPointer":
                z = sub
                while isinstance(z, dict) and z.get("kind") in ("ImplicitCastExpr", "CStyleCastExpr", "ParenExpr"):
                    z = z["inner"][0]
                if not (z.get("kind") == "IntegerLiteral" and z.get("value") == "0") and z.get("kind") != "GNUNullExpr":
                    self.bad("null pointer constant of an unknown form", m)
                if want == "pool":
                    return k(Val("PNull", "pool", null=True), E)
                if want in ("node", "elem"):
                    return k(Val("0", want, null=True), E)
                if want == "dtor":
                    return k(Val("0", "dtor", null=True), E)
                self.bad("null pointer of type `%s`" % qual(m), m)
            if ck == "IntegralCast":
                return self.expr(sub, E, lambda v, E1: k(self.convert(v, want, m), E1))
            if ck == "BitCast":
                return self.bitcast(m, sub, want, E, k)
            if ck in ("PointerToBoolean", "IntegralToBoolean"):
                def tb(v, E1):
                    t, neg = self.truth(v, m)
                    return k(Val(t, "bool", neg=neg), E1)
                return self.expr(sub, E, tb)
            if ck == "ToVoid":
                return self.expr(sub, E, lambda v, E1: k(Val("tt", "void"), E1))
            self.bad("cast %s" % ck, m)
        if kind == "IntegerLiteral":
            v = int(m.get("value"))
            t = ctype_of(m)
            if t in ("int", "diff"):
                return k(Val(zlit(v), t, lit=v), E)
            if t == "size":
                return k(Val(str(v), "size", lit=v), E)
            self.bad("literal of type `%s`" % qual(m), m)
        if kind == "UnaryExprOrTypeTraitExpr":
            if m.get("name") != "sizeof":
                self.bad("%s" % m.get("name"), m)
            v = self.sizeof(m)
            return k(Val(str(v), "size", lit=v), E)
        if kind == "DeclRefExpr":
            rd = m.get("referencedDecl", {})
            if rd.get("kind") == "EnumConstantDecl":
                v = self.tr.enums.get(rd.get("name"))
                if v is None:
                    self.bad("enumeration constant %s, whose value could not be determined" % rd.get("name"), m)
                return k(Val(zlit(v), "int", lit=v), E)
            return self.place(m, E, lambda pl, E1: self.load(pl, E1, k, m, hint))
        if kind in ("MemberExpr", "ArraySubscriptExpr"):
            return self.place(m, E, lambda pl, E1: self.load(pl, E1, k, m, hint))
        if kind == "UnaryOperator":
            return self.unary(m, E, k, hint)
        if kind == "BinaryOperator":
            return self.binary(m, E, k)
        if kind == "CompoundAssignOperator":
            op = m["opcode"][:-1]
            return self.place(m["inner"][0], E, lambda pl, E1: self.load(pl, E1, lambda a, E2: self.expr(m["inner"][1], E2, lambda b, E3:
                              self.store(pl, self.arith(op, a, b, ctype_of(m), m), E3, lambda v, E4: k(v, E4), m)), m))
        if kind == "ConditionalOperator":
            c, a, b = m["inner"]
            return self.cond(c, E, lambda E1: self.expr(a, E1, k), lambda E1: self.expr(b, E1, k))
        if kind == "CallExpr":
            return self.call(m, E, k)
        self.bad("expression %s" % kind, m)

    def bitcast(self, m, sub, want, E, k):
        s = skip(sub)
        while s.get("kind") in ("ImplicitCastExpr", "CStyleCastExpr") and s.get("castKind") == "BitCast" and ctype_of(s) == ctype_of(s["inner"][0]):
            s = skip(s["inner"][0])
        if s.get("kind") == "CallExpr" and skip(s["inner"][0]).get("referencedDecl", {}).get("name") == "a_alloc":
            return self.alloc(s, want, E, k)
        have = ctype_of(s)
        if want == have:
            return self.expr(s, E, k)          # const a_list * -> a_list *
        if want == "elem" and have == "node":
            if s.get("kind") == "BinaryOperator" and s.get("opcode") == "+":
                lit = skip(s["inner"][1])
                if lit.get("kind") == "IntegerLiteral" and lit.get("value") == "1" and ctype_of(skip(s["inner"][0])) == "node":
                    # node + 1: the element of the node, named by the node's address
                    return self.expr(s["inner"][0], E, lambda v, E1: k(Val(v.t, "elem", null=False), E1))
            def known_null(v, E1):
                if not v.null:
                    self.bad("a node pointer used as element pointer (only `node + 1`, or a node known to be null, is an element pointer)", m)
                return k(Val("0", "elem", null=True), E1)
            return self.expr(s, E, known_null)
        self.bad("pointer conversion from `%s` to `%s`" % (qual(s), qual(m)), m)

    def arith(self, op, a, b, rt, n):
        if rt == "size":
            if a.ty != "size" or b.ty not in ("size", "int"):
                self.bad("operator %s on `%s` and `%s`" % (op, a.ty, b.ty), n)
            if b.ty == "int":
                if b.lit is None or b.lit < 0:
                    self.bad("operator %s with a signed right operand" % op, n)
                b = Val(str(b.lit), "size", lit=b.lit)
            if op == "+":
                return Val("(%s + %s)" % (a.t, b.t), "size")
            if op == "-":
                return Val("(%s - %s)" % (a.t, b.t), "size")
            if op == "*":
                return Val("(%s * %s)" % (a.t, b.t), "size")
            if op == ">>":
                return Val("(N.shiftr %s %s)" % (a.t, b.t), "size")
            if op == "&":
                return Val("(N.land %s %s)" % (a.t, b.t), "size")
            if op == "&~":
                return Val("(N.ldiff %s %s)" % (a.t, b.t), "size")
        if rt in ("diff", "int"):
            if a.ty == rt and b.ty in (rt, "int") and op in ("+", "-"):
                return Val("(%s %s %s)%%Z" % (a.t, op, b.t), rt)
        if rt == "pool" and a.ty == "pool" and op == "+" and b.lit is not None and b.lit >= 0:
            return Val("(padd %s %d)" % (a.t, b.lit), "pool", q=a.q)
        self.bad("operator %s at type `%s`" % (op, rt), n)

    def binary(self, m, E, k):
        op = m.get("opcode")
        a, b = m["inner"]
        if op == ",":
            return self.expr(a, E, lambda v, E1: self.expr(b, E1, k))
        if op == "=":
            return self.expr(b, E, lambda v, E1: self.place(a, E1, lambda pl, E2: self.store(pl, v, E2, k, m)),
                             hint=self.hint_of(a))
        if op in ("&&", "||"):
            return self.cond(m, E, lambda E1: k(Val("true", "bool"), E1), lambda E1: k(Val("false", "bool"), E1))
        if op in ("==", "!=", "<", "<=", ">", ">="):
            def cmp2(x, y, E2):
                cls = {"node": "N", "elem": "N", "size": "N", "int": "Z", "diff": "Z", "que": "Bool"}
                if y.ty == "int" and x.ty == "diff":
                    y = Val(y.t, "diff", lit=y.lit)
                if x.ty == "int" and y.ty == "diff":
                    x = Val(x.t, "diff", lit=x.lit)
                if x.ty != y.ty or x.ty not in cls:
                    self.bad("comparison %s of `%s` and `%s`" % (op, x.ty, y.ty), m)
                M = cls[x.ty]
                if op == "==":
                    return k(Val("%s.eqb %s %s" % (M, x.t, y.t), "bool"), E2)
                if op == "!=":
                    return k(Val("%s.eqb %s %s" % (M, x.t, y.t), "bool", neg=True), E2)
                if x.ty in ("node", "elem", "que"):
                    self.bad("ordering of pointers", m)
                if op == "<":
                    return k(Val("%s.ltb %s %s" % (M, x.t, y.t), "bool"), E2)
                if op == "<=":
                    return k(Val("%s.leb %s %s" % (M, x.t, y.t), "bool"), E2)
                if op == ">":
                    return k(Val("%s.ltb %s %s" % (M, y.t, x.t), "bool"), E2)
                return k(Val("%s.leb %s %s" % (M, y.t, x.t), "bool"), E2)
            return self.expr(a, E, lambda x, E1: self.expr(b, E1, lambda y, E2: cmp2(x, y, E2)))
        rt = ctype_of(m)
        if op == "-" and rt == "node":
            # (a_list *)p - 1: the node of the element p
            lit = skip(b)
            s = skip(a)
            if lit.get("kind") == "IntegerLiteral" and lit.get("value") == "1" and s.get("kind") in ("CStyleCastExpr", "ImplicitCastExpr") \
                    and s.get("castKind") == "BitCast" and ctype_of(skip(s["inner"][0])) == "elem":
                return self.expr(s["inner"][0], E, lambda v, E1: k(Val(v.t, "node"), E1))
        if op == "&" and rt == "size":
            r = skip(b)
            if r.get("kind") == "UnaryOperator" and r.get("opcode") == "~":
                return self.expr(a, E, lambda x, E1: self.expr(r["inner"][0], E1, lambda y, E2: k(self.arith("&~", x, y, rt, m), E2)))
        if op in ("+", "-", "*", ">>", "&"):
            return self.expr(a, E, lambda x, E1: self.expr(b, E1, lambda y, E2: k(self.arith(op, x, y, rt, m), E2)))
        self.bad("operator %s" % op, m)

    def hint_of(self, lhs):
        l = skip(lhs)
        return l["referencedDecl"]["name"] if l.get("kind") == "DeclRefExpr" else None

    def unary(self, m, E, k, hint=None):
        op = m.get("opcode")
        sub = m["inner"][0]
        if op == "!":
            def neg(v, E1):
                t, ng = self.truth(v, m)
                return k(Val(t, "bool", neg=not ng), E1)
            return self.expr(sub, E, neg)
        if op in ("++", "--"):
            post = m.get("isPostfix")
            rt = ctype_of(m)

            def go(pl, E1):
                def with_old(a, E2):
                    one = Val("1", "size", lit=1) if rt == "size" else Val(zlit(1), "int", lit=1)
                    if rt == "pool" and op == "--":
                        self.bad("pointer decrement", m)
                    newv = self.arith("+" if op == "++" else "-", a, one, rt, m)
                    return self.store(pl, newv, E2, lambda nv, E3: k(a if post else nv, E3), m, force_let=True)
                return self.load(pl, E1, with_old, m)
            return self.place(sub, E, go)
        if op == "&":
            s = skip(sub)
            if s.get("kind") == "MemberExpr" and s.get("name") == "head_" and ctype_of(s) in ("?a_list",) or \
                    (s.get("kind") == "MemberExpr" and s.get("name") == "head_"):
                if not s.get("isArrow"):
                    self.bad("address of the sentinel of a structure that is not reached through a pointer", m)
                return k(Val("(qaddr %s)" % self.qterm(s["inner"][0], E), "node"), E)
            self.bad("address-of", m)
        if op == "*":
            return self.place(m, E, lambda pl, E1: self.load(pl, E1, k, m, hint))
        if op == "-" and ctype_of(m) in ("int", "diff"):
            return self.expr(sub, E, lambda v, E1: k(Val("(- %s)%%Z" % v.t, v.ty, lit=(-v.lit if v.lit is not None else None)), E1))
        self.bad("unary operator %s" % op, m)

    # ---------------------------------------------------------------- lvalues
    def place(self, n, E, k):
        m = skip(n)
        kind = m.get("kind")
        if kind == "DeclRefExpr":
            nm = m["referencedDecl"]["name"]
            if nm not in E["env"]:
                self.bad("variable %s is not known here" % nm, m)
            return k(("var", nm), E)
        if kind == "MemberExpr":
            name = m.get("name")
            b = m["inner"][0]
            if name in ("next", "prev"):
                if m.get("isArrow"):
                    def got(v, E1):
                        if v.ty != "node":
                            self.bad("field `%s` of a `%s`" % (name, v.ty), m)
                        return k(("link", v.t, name), E1)
                    return self.expr(b, E, got)
                s = skip(b)
                if s.get("kind") == "MemberExpr" and s.get("name") == "head_" and s.get("isArrow"):
                    return k(("link", "(qaddr %s)" % self.qterm(s["inner"][0], E), name), E)
                self.bad("field `%s` of a structure value" % name, m)
            if name in FIELDS or name == "ptr_":
                if not m.get("isArrow"):
                    self.bad("member `%s` of a structure value" % name, m)
                return k(("field", self.qterm(b, E), name), E)
            self.bad("member `%s`" % name, m)
        if kind == "ArraySubscriptExpr":
            a, i = m["inner"]

            def gotp(p, E1):
                if p.ty != "pool":
                    self.bad("subscript of a `%s`" % p.ty, m)
                def goti(iv, E2):
                    if iv.ty != "size":
                        iv = self.convert(iv, "size", m)
                    return k(("cell", p, iv.t), E2)
                return self.expr(i, E1, goti)
            return self.expr(a, E, gotp)
        if kind == "UnaryOperator" and m.get("opcode") == "*" and ctype_of(skip(m["inner"][0])) == "que":
            return k(("qobj", self.qterm(m["inner"][0], E)), E)
        if kind == "UnaryOperator" and m.get("opcode") == "*":
            def gotd(p, E1):
                if p.ty != "pool":
                    self.bad("dereference of a `%s`" % p.ty, m)
                return k(("cell", p, "0"), E1)
            return self.expr(m["inner"][0], E, gotd)
        self.bad("lvalue %s" % kind, m)

    def load(self, pl, E, k, n, hint=None):
        if pl[0] == "var":
            v = E["env"].get(pl[1])
            if v is None:
                self.bad("read of the uninitialised (or no longer valid) variable %s" % pl[1], n)
            return k(v, E)
        if pl[0] == "link":
            return self.bind_val("lift (rd_%s (k_h %s) %s)" % (pl[2], E["w"], pl[1]), hint or "t", "node", E, k)
        if pl[0] == "field":
            if pl[2] == "ptr_":
                return k(Val("(own_ptr %s %s)" % (E["w"], pl[1]), "pool", q=pl[1]), E)
            return k(Val("(c_%s (kgetq %s %s))" % (FIELDS[pl[2]], E["w"], pl[1]), "size"), E)
        if pl[0] == "cell":
            p = pl[1]
            if p.q is None:
                self.bad("access through a pool pointer of unknown origin", n)
            return self.bind_val("pool_ld %s %s %s %s" % (E["w"], p.q, p.t, pl[2]), hint or "t", "node", E, k)
        if pl[0] == "qobj":
            return self.bind_val("struct_ld %s %s" % (E["w"], pl[1]), hint or "t", "qval", E, k)
        self.bad("load (internal)", n)

    def store(self, pl, v, E, k, n, force_let=False):
        """k : (value stored, E') -> text"""
        if pl[0] == "var":
            nm = pl[1]
            want = self.vtypes.get(nm)
            if v.ty != want:
                v = self.convert(v, want, n)
            if SIMPLE.match(v.t) and not force_let:
                return k(v, with_var(E, nm, v))
            x = self.fresh(nm)
            nv = Val(x, v.ty, null=v.null, q=v.q)
            return "let %s := %s in\n%s" % (x, v.t, k(nv, with_var(E, nm, nv)))
        if pl[0] == "link":
            if v.ty != "node":
                self.bad("store of a `%s` into a link field" % v.ty, n)
            h = self.fresh("h")
            w = self.fresh("w")
            return "bind (lift (wr_%s (k_h %s) %s %s)) (fun %s =>\nlet %s := kseth %s %s in\n%s)" % (
                pl[2], E["w"], pl[1], v.t, h, w, E["w"], h, k(v, with_w(E, w)))
        if pl[0] == "field":
            if pl[2] == "ptr_":
                if v.ty != "pool":
                    self.bad("store of a `%s` into ptr_" % v.ty, n)
                return self.bind_world("store_ptr %s %s %s" % (E["w"], pl[1], v.t), E, lambda E1: k(v, E1))
            if v.ty != "size":
                v = self.convert(v, "size", n)
            return self.let_world("set_%s %s %s %s" % (FIELDS[pl[2]], E["w"], pl[1], v.t), E, lambda E1: k(v, E1))
        if pl[0] == "cell":
            p = pl[1]
            if v.ty != "node":
                self.bad("store of a `%s` into a pool cell" % v.ty, n)
            if p.q is None:
                self.bad("access through a pool pointer of unknown origin", n)
            return self.bind_world("pool_st %s %s %s %s %s" % (E["w"], p.q, p.t, pl[2], v.t), E, lambda E1: k(v, E1))
        if pl[0] == "qobj":
            if v.ty != "qval":
                self.bad("store of a `%s` into a queue object" % v.ty, n)
            return self.let_world("struct_st %s %s %s" % (E["w"], pl[1], v.t), E, lambda E1: k(v, E1))
        self.bad("store (internal)", n)

    # ---------------------------------------------------------------- calls
    def call(self, m, E, k):
        cal = skip(m["inner"][0])
        rd = cal.get("referencedDecl", {})
        nm = rd.get("name")
        args = m["inner"][1:]
        if nm == "__builtin_expect" and len(args) == 2:
            return self.expr(args[0], E, k)
        if nm == "a_alloc":
            return self.alloc(m, "void", E, k)
        if nm in E["env"] and E["env"][nm] is not None and E["env"][nm].ty == "cmp":
            return self.compare(m, E["env"][nm], args, E, k)
        if nm in E["env"] and E["env"][nm] is not None and E["env"][nm].ty == "dtor":
            self.bad("call of the element destructor (the translation is for dtor = NULL)", m)
        if nm in self.tr.prims:
            vals = []

            def go(i, E1):
                if i == len(args):
                    h = self.fresh("h")
                    w = self.fresh("w")
                    return "bind (lift (%s (k_h %s)%s)) (fun %s =>\nlet %s := kseth %s %s in\n%s)" % (
                        self.tr.prims[nm], E1["w"], "".join(" " + v for v in vals), h, w, E1["w"], h, k(Val("tt", "void"), with_w(E1, w)))

                def got(v, E2):
                    if v.ty != "node":
                        self.bad("argument %d of %s is a `%s`" % (i + 1, nm, v.ty), m)
                    vals.append(v.t)
                    return go(i + 1, E2)
                return self.expr(args[i], E1, got)
            return go(0, E)
        sig = self.tr.done.get(nm)
        if sig is None:
            self.bad("call to %s, which is not translated" % nm, m)
        if len(args) != len(sig["params"]):
            self.bad("call to %s with %d arguments" % (nm, len(args)), m)
        vals = []

        def go2(i, E1):
            if i == len(args):
                a = "".join(" " + v for v in vals)
                callt = "%s %s%s" % (nm, E1["w"], a)
                if sig["state"] and sig["ret"] == "void":
                    return self.bind_world(callt, E1, lambda E2: k(Val("tt", "void"), E2))
                if sig["state"]:
                    w = self.fresh("w")
                    x = self.fresh("t")
                    return "bind (%s) (fun '(%s, %s) =>\n%s)" % (callt, w, x, k(Val(x, sig["ret"]), with_w(E1, w)))
                return self.bind_val(callt, "t", sig["ret"], E1, k)
            pty = sig["params"][i][1]
            if pty == "que":
                vals.append(self.qterm(args[i], E1))
                return go2(i + 1, E1)
            if pty == "dtor":
                def gotd(v, E2):
                    if v.ty != "dtor" or not v.null:
                        self.bad("call to %s with a destructor that is not NULL" % nm, m)
                    return go2(i + 1, E2)
                return self.expr(args[i], E1, gotd)
            if pty == "cmp":
                v = E1["env"].get(skip(args[i]).get("referencedDecl", {}).get("name"))
                if v is None or v.ty != "cmp":
                    self.bad("call to %s with a comparison function that is not the caller's own" % nm, m)
                vals.append(v.t)
                return go2(i + 1, E1)

            def got(v, E2):
                if v.ty != pty:
                    v = self.convert(v, pty, m)
                vals.append(v.t)
                return go2(i + 1, E2)
            return self.expr(args[i], E1, got)
        return go2(0, E)

    def compare(self, m, cmpv, args, E, k):
        """cmp(a, b): the comparison callback applied to the payloads of two elements (a key parameter is the payload itself)"""
        if len(args) != 2:
            self.bad("comparison callback with %d arguments" % len(args), m)
        vals = []

        def go(i, E1):
            if i == 2:
                return k(Val("(%s %s %s)" % (cmpv.t, vals[0], vals[1]), "int"), E1)

            def got(v, E2):
                if v.ty == "key":
                    vals.append(v.t)
                    return go(i + 1, E2)
                if v.ty != "elem":
                    self.bad("argument %d of the comparison callback is a `%s`" % (i + 1, v.ty), m)
                x = self.fresh("v")
                vals.append(x)
                return "bind (lift (vget (k_val %s) %s)) (fun %s =>\n%s)" % (E2["w"], v.t, x, go(i + 1, E2))
            return self.expr(args[i], E1, got)
        return go(0, E)

    def alloc(self, m, want, E, k):
        args = m["inner"][1:]
        if len(args) != 2:
            self.bad("a_alloc with %d arguments" % len(args), m)
        a = args[0]
        isnull = False
        while isinstance(a, dict):
            kd = a.get("kind")
            if kd == "ParenExpr":
                a = a["inner"][0]
            elif kd in ("ImplicitCastExpr", "CStyleCastExpr") and a.get("castKind") == "NullToPointer":
                isnull = True
                break
            elif kd in ("ImplicitCastExpr", "CStyleCastExpr") and a.get("castKind") in ("BitCast", "NoOp") and ctype_of(a) == "elem":
                a = a["inner"][0]
            else:
                break

        def with_size(sz, E1):
            if sz.ty != "size":
                sz = self.convert(sz, "size", m)
            if isnull:
                if want != "node":
                    self.bad("a_alloc(NULL, n) whose result is not converted to `a_list *`", m)
                w = self.fresh("w")
                x = self.fresh("t")
                return "let '(%s, %s) := node_alloc %s %s in\n%s" % (w, x, E1["w"], sz.t, k(Val(x, "node"), with_w(E1, w)))
            have = ctype_of(skip(a))
            if have == "pool":
                if want not in ("pool", "void"):
                    self.bad("a_alloc on the pool array whose result is converted to `%s`" % want, m)

                def gotp(p, E2):
                    if p.q is None:
                        self.bad("a_alloc on a pool pointer of unknown origin", m)
                    w = self.fresh("w")
                    x = self.fresh("t")
                    # every pool pointer computed before the request may point into the released block
                    env2 = {v: (None if (val is not None and val.ty == "pool") else val) for v, val in E2["env"].items()}
                    E3 = dict(E2)
                    E3["env"] = env2
                    E3["w"] = w
                    return "bind (pool_realloc %s %s %s %s) (fun '(%s, %s) =>\n%s)" % (
                        E2["w"], p.q, p.t, sz.t, w, x, k(Val(x, "pool", q=p.q) if want == "pool" else Val("tt", "void"), E3))
                return self.expr(a, E1, gotp)
            if have == "node":
                if sz.lit != 0:
                    self.bad("a_alloc on a node with a size that is not the constant 0", m)
                if want != "void":
                    self.bad("result of a_alloc(node, 0) used", m)
                return self.expr(a, E1, lambda nv, E2: self.bind_world("node_free %s %s" % (E2["w"], nv.t), E2,
                                                                       lambda E3: k(Val("tt", "void"), E3)))
            self.bad("a_alloc on a `%s`" % qual(skip(a)), m)
        return self.expr(args[1], E, with_size)

    # ---------------------------------------------------------------- conditions.  kt, kf : E -> text
    def cond(self, n, E, kt, kf):
        m = skip(n)
        kind = m.get("kind")
        if kind == "ImplicitCastExpr" and m.get("castKind") in ("IntegralCast", "IntegralToBoolean", "PointerToBoolean"):
            return self.cond(m["inner"][0], E, kt, kf)
        if kind == "UnaryOperator" and m.get("opcode") == "!":
            return self.cond(m["inner"][0], E, kf, kt)
        if kind == "BinaryOperator" and m.get("opcode") == "&&":
            return self.cond(m["inner"][0], E, lambda E1: self.cond(m["inner"][1], E1, kt, kf), kf)
        if kind == "BinaryOperator" and m.get("opcode") == "||":
            return self.cond(m["inner"][0], E, kt, lambda E1: self.cond(m["inner"][1], E1, kt, kf))
        if kind == "CallExpr" and skip(m["inner"][0]).get("referencedDecl", {}).get("name") == "__builtin_expect":
            return self.cond(m["inner"][1], E, kt, kf)
        if kind == "IntegerLiteral":
            return kt(E) if int(m.get("value", "0")) != 0 else kf(E)

        def leaf(v, E1):
            if v.ty == "dtor" and v.null:
                return kf(E1)
            t, neg = self.truth(v, m)
            kf2 = kf
            if kind == "DeclRefExpr" and v.ty in ("node", "elem") and m["referencedDecl"]["name"] in E1["env"]:
                nm = m["referencedDecl"]["name"]
                kf2 = lambda E2: kf(with_var(E2, nm, Val(v.t, v.ty, null=True)))
            a, b = (kf2, kt) if neg else (kt, kf2)
            return "if %s\nthen\n%s\nelse\n%s" % (t, ind(a(E1)), ind(b(E1)))
        return self.expr(m, E, leaf)

    def pure(self, n, E):
        """the value of an expression that has no effect and needs no checked access, else None"""
        box = []
        saved = dict(self.counter)

        def k(v, E1):
            box.append((v, E1))
            return "\0"
        try:
            txt = self.expr(n, E, k)
        except Unsupported:
            self.counter = saved
            return None
        if txt != "\0" or len(box) != 1 or box[0][1] is not E:
            self.counter = saved
            return None
        return box[0][0]

    # ---------------------------------------------------------------- statements
    # C = {"brk": E -> text | None, "cont": E -> text | None, "ret": (Val|None, E, node) -> text}
    def flat_assigns(self, arm):
        """[(variable, rhs)] when the arm consists of assignments to local variables only, else None"""
        if arm is None:
            return []
        if arm.get("kind") == "CompoundStmt":
            out = []
            for s in arm.get("inner", []) or []:
                r = self.flat_assigns(s)
                if r is None:
                    return None
                out += r
            return out
        if arm.get("kind") == "NullStmt":
            return []
        if arm.get("kind") == "BinaryOperator" and arm.get("opcode") == "=":
            l = skip(arm["inner"][0])
            if l.get("kind") == "DeclRefExpr" and l["referencedDecl"].get("kind") in ("VarDecl", "ParmVarDecl"):
                return [(l["referencedDecl"]["name"], arm["inner"][1])]
        return None

    def try_merge_if(self, s, E, knext):
        """`if (c) v = e; [else v = e';]` on locals with pure operands:  let v' := if c then e else v in ..."""
        parts = s["inner"]
        arms = [self.flat_assigns(parts[1]), self.flat_assigns(parts[2] if len(parts) > 2 else None)]
        if arms[0] is None or arms[1] is None or not (arms[0] or arms[1]):
            return None
        saved = dict(self.counter)
        c = self.pure(parts[0], E)
        if c is None:
            return None
        envs = []
        for arm in arms:
            Ea = E
            for nm, rhs in arm:
                if nm not in E["env"] or self.vtypes.get(nm) not in ("size", "diff", "int", "node"):
                    self.counter = saved
                    return None
                v = self.pure(rhs, Ea)
                if v is None:
                    self.counter = saved
                    return None
                if v.ty != self.vtypes[nm]:
                    v = self.convert(v, self.vtypes[nm], s)
                Ea = with_var(Ea, nm, Val(v.t, v.ty))
            envs.append(Ea)
        names = [nm for nm in self.order if any(nm == a for arm in arms for a, _ in arm)]
        t, neg = self.truth(c, s)
        text, E2 = "", E
        for nm in names:
            va, vb = envs[0]["env"].get(nm), envs[1]["env"].get(nm)
            if va is None or vb is None:
                self.counter = saved
                return None
            if neg:
                va, vb = vb, va
            x = self.fresh(nm)
            text += "let %s := if %s then %s else %s in\n" % (x, t, va.t, vb.t)
            E2 = with_var(E2, nm, Val(x, self.vtypes[nm]))
        return text + knext(E2)

    def stmts(self, lst, E, k, C, live):
        if not lst:
            return k(E)
        s, rest = lst[0], lst[1:]
        live_here = self.tr.refs(rest) | live
        knext = lambda E1: self.stmts(rest, E1, k, C, live)
        kind = s.get("kind")
        if kind == "CompoundStmt":
            inner = s.get("inner", []) or []
            declared = [d["name"] for x in inner if x.get("kind") == "DeclStmt" for d in x.get("inner", []) if d.get("kind") == "VarDecl"]
            outer = E

            def leave(E1):
                if not declared:
                    return knext(E1)
                E2 = dict(E1)
                E2["env"] = dict(E1["env"])
                for d in declared:
                    if d in outer["env"]:
                        E2["env"][d] = outer["env"][d]
                    else:
                        E2["env"].pop(d, None)
                return knext(E2)
            for d in declared:
                if d in E["env"]:
                    self.bad("declaration of %s shadows an outer variable" % d, s)
            return self.stmts(inner, E, leave, C, live_here)
        if kind == "NullStmt":
            return knext(E)
        if kind == "DeclStmt":
            decls = [d for d in s.get("inner", [])]

            def go(i, E1):
                if i == len(decls):
                    return knext(E1)
                d = decls[i]
                if d.get("kind") != "VarDecl":
                    self.bad("declaration %s" % d.get("kind"), s)
                ty = ctype_of(d)
                if ty not in ("node", "elem", "pool", "size", "diff", "int", "qval"):
                    self.bad("local variable %s of type `%s`" % (d.get("name"), qual(d)), s)
                if d.get("storageClass"):
                    self.bad("%s local variable" % d["storageClass"], s)
                if d["name"] not in self.order:
                    self.order.append(d["name"])
                if self.vtypes.get(d["name"], ty) != ty:
                    self.bad("two variables %s of different types" % d["name"], s)
                self.vtypes[d["name"]] = ty
                init = [c for c in d.get("inner", []) if c.get("kind", "").endswith(("Expr", "Operator", "Literal"))]
                E0 = with_var(E1, d["name"], None)
                if not init:
                    return go(i + 1, E0)
                return self.expr(init[0], E0, lambda v, E2: self.store(("var", d["name"]), v, E2, lambda nv, E3: go(i + 1, E3), s),
                                 hint=d["name"])
            return go(0, E)
        if kind == "IfStmt":
            parts = s["inner"]
            if s.get("hasInit") or s.get("hasVar"):
                self.bad("if with a declaration", s)
            merged = self.try_merge_if(s, E, knext)
            if merged is not None:
                return merged
            thn = [parts[1]]
            els = [parts[2]] if len(parts) > 2 else []
            return self.cond(parts[0], E, lambda E1: self.stmts(thn, E1, knext, C, live_here),
                             lambda E1: self.stmts(els, E1, knext, C, live_here))
        if kind == "ReturnStmt":
            if s.get("inner"):
                return self.expr(s["inner"][0], E, lambda v, E1: C["ret"](v, E1, s))
            return C["ret"](None, E, s)
        if kind == "BreakStmt":
            if C["brk"] is None:
                self.bad("break outside a loop", s)
            return C["brk"](E)
        if kind == "ContinueStmt":
            if C["cont"] is None:
                self.bad("continue outside a loop", s)
            return C["cont"](E)
        if kind in ("WhileStmt", "DoStmt", "ForStmt"):
            return self.loop(s, E, knext, C, live_here)
        if kind.endswith(("Expr", "Operator", "Literal")):
            return self.expr(s, E, lambda v, E1: knext(E1))
        self.bad("statement %s" % kind, s)

    def loop(self, s, E, kafter, C, live_after):
        kind = s["kind"]
        if kind == "WhileStmt":
            parts = s["inner"]
            if len(parts) != 2:
                self.bad("while with a declaration", s)
            init, cnd, step, body = None, parts[0], None, parts[1]
        elif kind == "DoStmt":
            init, cnd, step, body = None, s["inner"][1], None, s["inner"][0]
        else:
            init, var, cnd, step, body = s["inner"]
            if var:
                self.bad("for with a condition variable", s)
            init, cnd, step = init or None, cnd or None, step or None
            if init is not None and init.get("kind") == "DeclStmt":
                self.bad("for with a declaration", s)
        if init is not None:
            return self.expr(init, E, lambda v, E1: self.loop_core(s, kind, cnd, step, body, E1, kafter, C, live_after))
        return self.loop_core(s, kind, cnd, step, body, E, kafter, C, live_after)

    def loop_core(self, s, kind, cnd, step, body, E, kafter, C, live_after):
        tr = self.tr
        if E["inloop"]:
            self.bad("nested loop", s)
        pieces = [x for x in (cnd, step, body) if x is not None]
        writes = tr.writes_state(pieces)
        hasret = tr.has_return(body)
        inside = set()

        def decls(n):
            if isinstance(n, dict):
                if n.get("kind") == "VarDecl":
                    inside.add(n["name"])
                for c in n.get("inner", []) or []:
                    decls(c)
        for x in pieces:
            decls(x)
        used = tr.refs(pieces) - inside
        for v in used:
            if v not in E["env"] and v != "a_alloc":
                self.bad("the loop uses %s, which is not a variable known here" % v, s)
        static = lambda val: val is not None and val.ty == "dtor"
        carried = [v for v in self.order if v in used and E["env"].get(v) is not None and not static(E["env"][v])]
        assigned = tr.assigned(pieces)
        outs = [v for v in self.order if v in assigned and v in live_after and v in E["env"] and v not in inside]
        key = (s.get("id"), tuple((v, E["env"][v].ty) for v in carried), tuple(outs))
        if key not in self.loops:
            self.nloops += 1
            name = "%s_loop%d" % (self.name, self.nloops)
            self.loops[key] = name
            saved = self.counter
            self.counter = {}
            pname = {}
            for v in carried:
                val = E["env"][v]
                pname[v] = val.t if val.ty in ("que", "cmp") else v + "'0"
            EL = dict(E)
            EL["env"] = {}
            for v, val in E["env"].items():
                if v in carried:
                    EL["env"][v] = Val(pname[v], val.ty, q=val.q)
                elif static(val):
                    EL["env"][v] = val
                else:
                    EL["env"][v] = None
            EL["inloop"] = True
            EL["w"] = "w'0"

            def pack(E1):
                vals = [E1["w"]] if writes else []
                for v in outs:
                    if E1["env"].get(v) is None:
                        self.bad("%s may be uninitialised after the loop" % v, s)
                    vals.append(E1["env"][v].t)
                return vals[0] if len(vals) == 1 else "tt" if not vals else "(" + ", ".join(vals) + ")"

            def exit_(E1):
                return "Ok (inr %s)" % pack(E1) if hasret else "Ok %s" % pack(E1)

            def again(E1):
                vals = []
                for v in carried:
                    if E1["env"].get(v) is None:
                        self.bad("%s may be uninitialised at the next iteration" % v, s)
                    vals.append(E1["env"][v].t)
                return "%s fuel' %s%s" % (name, E1["w"], "".join(" " + x for x in vals))

            retk = lambda v, E1, n: "Ok (inl %s)" % self.retpack(v, E1, n)
            live_in = tr.refs(pieces) | live_after
            if kind == "DoStmt":
                test = lambda E1: self.cond(cnd, E1, again, exit_)
                CL = {"brk": exit_, "cont": test, "ret": retk}
                it = self.stmts([body], EL, test, CL, live_in)
            else:
                nxt = (lambda E1: self.expr(step, E1, lambda v, E2: again(E2))) if step is not None else again
                CL = {"brk": exit_, "cont": nxt, "ret": retk}
                run = lambda E1: self.stmts([body], E1, nxt, CL, live_in)
                it = self.cond(cnd, EL, run, exit_) if cnd is not None else run(EL)
            tys = (["cworld"] if writes else []) + [GTYPE[self.vtypes[v]] for v in outs]
            ty = tys[0] if len(tys) == 1 else "unit" if not tys else "(" + " * ".join(tys) + ")"
            if hasret:
                ty = "(%s + %s)" % (self.rettype(), ty)
            params = "".join(" (%s : %s)" % (pname[v], GTYPE[E["env"][v].ty]) for v in carried)
            self.defs.append("Fixpoint %s (fuel : nat) (w'0 : cworld)%s {struct fuel} : outcome %s :=\n  match fuel with\n  | O => NoFuel\n"
                             "  | S fuel' =>\n%s\n  end." % (name, params, ty, ind(it, 6)))
            self.counter = saved
        name = self.loops[key]
        call = "%s (kfuel %s) %s%s" % (name, E["w"], E["w"], "".join(" " + E["env"][v].t for v in carried))
        E2 = dict(E)
        E2["env"] = dict(E["env"])
        news = []
        if writes:
            w = self.fresh("w")
            news.append(w)
            E2["w"] = w
        for v in outs:
            x = self.fresh(v)
            news.append(x)
            old = E["env"][v]
            E2["env"][v] = Val(x, self.vtypes[v], q=old.q if old is not None else None)
        for v in assigned:
            if v not in outs and v in E2["env"] and v not in inside:
                E2["env"][v] = None
        if writes:
            # a pool pointer computed before a loop that stores may be stale
            for v, val in list(E2["env"].items()):
                if val is not None and val.ty == "pool" and v not in outs:
                    E2["env"][v] = None
        if hasret:
            r = self.fresh("r")
            v = self.fresh("v")
            pat = news[0] if len(news) == 1 else "_" if not news else "(" + ", ".join(news) + ")"
            return "bind (%s) (fun %s =>\nmatch %s with\n| inl %s => Ok %s\n| inr %s =>\n%s\nend)" % (call, r, r, v, v, pat, ind(kafter(E2)))
        pat = news[0] if len(news) == 1 else "_" if not news else "'(" + ", ".join(news) + ")"
        return "bind (%s) (fun %s =>\n%s)" % (call, pat, kafter(E2))

    # ---------------------------------------------------------------- the function
    def run(self):
        tr = self.tr
        params = [c for c in self.node.get("inner", []) if c["kind"] == "ParmVarDecl"]
        body = [c for c in self.node["inner"] if c["kind"] == "CompoundStmt"][0]
        rq = self.node["type"]["qualType"].split("(")[0]
        self.rt = ctype(rq)
        if self.rt not in ("node", "elem", "int", "size", "void"):
            self.bad("return type `%s`" % rq, self.node)
        env, sig_params, gparams = {}, [], []
        for p in params:
            t = ctype_of(p)
            nm = p.get("name")
            q = (p.get("type") or {}).get("qualType", "")
            if t == "elem" and "const" in q.split("*")[0]:
                t = "key"                   # `void const *key`: the caller's key, compared through the callback only
            if t == "que":
                env[nm] = Val(nm, "que")
                gparams.append("(%s : bool)" % nm)
            elif t == "dtor":
                env[nm] = Val("0", "dtor", null=True)
            elif t == "cmp":
                env[nm] = Val(nm, "cmp")
                gparams.append("(%s : Z -> Z -> Z)" % nm)
            elif t in ("node", "elem", "size", "diff", "int", "key"):
                env[nm] = Val(nm + "'0", t)
                gparams.append("(%s'0 : %s)" % (nm, GTYPE[t]))
            else:
                self.bad("parameter %s of type `%s`" % (nm, qual(p)), p)
            self.order.append(nm)
            self.vtypes[nm] = t
            sig_params.append((nm, t))
        self.state = tr.writes_state(body)
        if self.rt == "void" and not self.state:
            self.bad("void function without effect on the modelled state", self.node)
        E = {"env": env, "w": "w'0", "inloop": False}
        kret = lambda v, E1, n: "Ok %s" % self.retpack(v, E1, n)
        if self.rt == "void":
            kend = lambda E1: "Ok %s" % self.retpack(None, E1, self.node)
        else:
            kend = lambda E1: self.bad("control reaches the end of a non-void function", self.node)
        C = {"brk": None, "cont": None, "ret": kret}
        term = self.stmts(body.get("inner", []) or [], E, kend, C, set())
        head = "Definition %s (w'0 : cworld)%s : outcome %s :=" % (self.name, "".join(" " + g for g in gparams), self.rettype())
        self.sig = {"state": self.state, "params": sig_params, "ret": self.rt, "loops": self.nloops}
        return "\n\n".join(self.defs + [head + "\n" + ind(term) + "."])


def translate(repo, cfg, prims, names=None):
    """-> (text of the module Gen.QueGen, {function: error})"""
    repo = Path(repo).resolve()
    names = names or functions()
    text, errs = PRELUDE, {}
    try:
        ast = load_ast(repo / "src" / "que.c", repo / "include", Path(cfg).resolve())
    except Unsupported as e:
        return text, {"src/que.c (all %d functions)" % len(names): str(e)}
    tr = Tr(ast, prims)
    out = []
    for nm in names:
        try:
            out.append("(* %s *)\n%s" % (nm, tr.translate(nm)))
        except Unsupported as e:
            errs[nm] = str(e)
        except (KeyError, IndexError, TypeError, ValueError, AttributeError) as e:
            errs[nm] = "unexpected AST shape in %s (%s: %s)" % (nm, type(e).__name__, e)
    text += "(* ---------------------------------------------------------------- src/que.c, include/a/que.h *)\n\n" + "\n\n".join(out) + "\n"
    return text, errs


DEFAULT_PRIMS = {"a_list_ctor": "l_init", "a_list_init": "l_init", "a_list_dtor": "l_init", "a_list_link": "l_link",
                 "a_list_add_next": "l_add_next", "a_list_add_prev": "l_add_prev", "a_list_del_node": "l_del_node",
                 "a_list_swap_node": "l_swap_node"}

if __name__ == "__main__":
    # c2que.py <repo> <configuration header> [function ...]   (stand-alone use; the check reads the primitive map from TieList.v)
    t, e = translate(sys.argv[1], sys.argv[2], DEFAULT_PRIMS, sys.argv[3:] or None)
    print(t)
    for k, v in e.items():
        print("(* ERROR %s: %s *)" % (k, v))
