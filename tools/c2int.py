#!/usr/bin/env python3
"""c2int: translate integer-only C functions (clang JSON AST) into Gallina over N with the machine arithmetic written out.

What the generated text means.  For every translated function `f` the module contains `Definition f <params> : option <R>`
(and one `Fixpoint f_loop<k>` per loop).  The contract the translation aims at is one-sided:

      f args = Some r   ->   the C function, called with in-range arguments, has no undefined behaviour (of the kinds listed
                             below) and returns r / leaves r in its output buffers.

`None` means "an error of the generated program": a division or remainder by zero, a shift by the width or more, a signed
operation whose mathematical result is not a value of its type, an access outside a modelled array, an access through a null
pointer, a loop that ran out of the fuel its call site passes.

Signed values.  Unsigned objects are N.  A signed value is carried in N as long as it is known not to be negative (a literal,
a promoted unsigned char/short, a comparison result ...): + * << & | ^ / % >> on such operands stay in N, with the check
`result < 2^(w-1)` where the result can grow.  A signed
value that can be negative is carried in Z: a cell read through a signed type (plain `char` is signed here: `sext 8 c`), every
signed subtraction and pointer difference, unary minus and `~` on a signed operand, and every operation one of whose operands already is in Z (Z.add/sub/mul with the check
`-2^(w-1) <= r < 2^(w-1)`, Z.quot/Z.rem, Z.land/lor/lxor, Z.shiftr = arithmetic shift as gcc/clang do it, `<<` of a negative
value an error, Z.ltb/leb/eqb).  Conversions as clang's casts show them: Z -> unsigned w is `Z.to_N (z mod 2^w)`, Z -> wider
signed is the identity, Z -> narrower signed checks the range.  Where the translation needs a natural number (array index,
shift count under an unsigned operand, argument or result of a translated function) a Z value is checked >= 0 and converted.
A signed local keeps one representation: carried in Z on one path and in N on another (join, loop) is Unsupported.  The tie
theorems prove `f args = Some (model args)` for all in-range arguments, so every one of these checks has to be discharged by
the proof for every input.

Types.  Every C integer type has a width and a signedness (unsigned char 8, unsigned short 16, unsigned int 32, unsigned long
/ long long 64, int 32 signed, char 8 signed, long 64 signed ...; typedefs through clang's desugared type).  A term of an
unsigned type of width w is kept in [0, 2^w), a term of a signed type in [0, 2^(w-1)) - by `wrap w` (x mod 2^w) after every
unsigned + - * << unary-minus and at every narrowing conversion (ImplicitCastExpr/CStyleCastExpr IntegralCast, exactly where
clang's AST shows them: integer promotions and the usual arithmetic conversions are not re-derived here), by a check for the
signed ones.  Parameters are assumed in range (that is the hypothesis of the tie theorems).

Statements.  Locals are SSA-renamed `let`s.  `if`/`else` without a jump inside become a `let` of the tuple of variables
assigned in either arm; with a `return`/`break`/`continue` inside, the rest of the block is translated under both arms.
`switch` on an integer: one arm per label holding the statements from that label on (fall-through), `break` leaves.
`while`/`do`/`for`: `Fixpoint f_loop<k> (fuel : nat) <read-only variables> <variables assigned in the loop> : option <tuple
of the assigned variables>` (`(tuple + result)` when the loop contains a `return`), `O => None`; the call site passes the
fuel given in the `fuel` option ({function: [term for loop 1, term for loop 2 ...]}, default DEFAULT_FUEL); the term may
mention the Gallina parameters in scope at the call site.

Memory.  A pointer parameter `T *p` is a Gallina `list N` (the cells from p on; cells < 2^width(T) for in-range arguments);
a pointer variable is (array, offset).  `p[i]`, `*p`, `*p++` read with `nth_error` (outside the list = None); a store is the
functional update `upd` (outside = None).  A parameter whose pointee is not const is an output: the function returns its final
list next to the return value.  A pointer parameter that the function tests (`if (p)`, `!p`, `p == NULL`) gets a second
Gallina parameter `p_null : bool`; an access through it outside a region where the test has shown it non-null is checked.
Pointer subtraction and comparison need the same array.  Forming a pointer beyond the end of a list is NOT checked (only
accesses are).  A `void *` takes the element type of the cast it is first read through.

Calls: functions translated earlier in the same run (`do r <- g a b`); `__builtin_clz/clzl/clzll` (w - 1 - N.log2 x, x = 0
an error).  File-scope `const` integer arrays with initialisers become list literals.

Everything else raises Unsupported(function:line) - goto, function pointers, structs, floating point, casts between pointer
and integer, locals whose address is taken, side effects under `&&`/`||`/`?:` arms, two side effects in one full expression
that clang does not sequence, negative literals ... - never an approximation."""
import json
import subprocess
import sys

DEFAULT_FUEL = "130%nat"          # 2 * 64 + 2: enough for Euclid on 64-bit words and for the Newton loops (which need 40)

PRELUDE = """(* generated by tools/c2int.py from the current sources - do not edit *)
From Coq Require Import NArith ZArith List Bool.
Import ListNotations.
Local Open Scope N_scope.

Definition wrap (w x : N) : N := x mod 2 ^ w.
(* the value of a cell of a signed type of width w (two's complement) *)
Definition sext (w c : N) : Z := if c <? 2 ^ (w - 1) then Z.of_N c else (Z.of_N c - Z.of_N (2 ^ w))%Z.

(* checked store l[i] := v ; None = outside the list *)
Fixpoint upd (l : list N) (i : nat) (v : N) : option (list N) :=
  match l, i with
  | [], _ => None
  | _ :: t, O => Some (v :: t)
  | h :: t, S i' => match upd t i' v with Some t' => Some (h :: t') | None => None end
  end.
Definition load (l : list N) (i : N) : option N := nth_error l (N.to_nat i).
Definition store (l : list N) (i v : N) : option (list N) := upd l (N.to_nat i) v.

"""

INT_TYPES = {
    "unsigned char": (8, False), "unsigned short": (16, False), "unsigned int": (32, False),
    "unsigned long": (64, False), "unsigned long long": (64, False),
    "char": (8, True), "signed char": (8, True), "short": (16, True), "int": (32, True),
    "long": (64, True), "long long": (64, True),
}
CLZ = {"__builtin_clz": 32, "__builtin_clzl": 64, "__builtin_clzll": 64}
RESERVED = {"at", "as", "in", "fun", "let", "if", "then", "else", "end", "match", "with", "return", "using", "for", "where",
            "fix", "cofix", "forall", "exists", "Type", "Prop", "Set", "fuel", "wrap", "upd", "load", "store", "tt", "true",
            "false", "Some", "None", "inl", "inr", "nat", "N", "Z", "sext", "list", "option", "length", "skipn", "nth_error", "mod"}


class Unsupported(Exception):
    pass


def load_ast(path, include, cfg, extra=()):
    if not str(path).startswith("/") or not str(include).startswith("/") or not str(cfg).startswith("/"):
        raise Unsupported("c2int needs absolute paths (clang silently falls back on relative ones): %s %s %s" % (path, include, cfg))
    cmd = ["clang", "-std=c11", "-I", str(include), '-DA_HAVE_H="%s"' % cfg, "-fsyntax-only", "-Xclang", "-ast-dump=json"] + list(extra) + [str(path)]
    p = subprocess.run(cmd, stdout=subprocess.PIPE, stderr=subprocess.PIPE, text=True)
    if p.returncode != 0 or not p.stdout:
        raise Unsupported("clang failed on %s: %s" % (path, p.stderr[-600:]))
    return json.loads(p.stdout)


def annotate_lines(node, last=None):
    """clang's JSON omits `line` when it repeats the previous one: carry it along in dump order"""
    last = last if last is not None else [0]

    def see(loc):
        if not isinstance(loc, dict):
            return
        for k in ("spellingLoc", "expansionLoc"):
            if k in loc:
                see(loc[k])
        if "line" in loc:
            last[0] = loc["line"]
    see(node.get("loc"))
    rng = node.get("range", {})
    see(rng.get("begin"))
    node["_line"] = last[0]
    see(rng.get("end"))
    for c in node.get("inner", []) or []:
        if isinstance(c, dict):
            annotate_lines(c, last)


def base_type(base, tu):
    """unqualified base type name -> canonical name, through the typedefs of the translation unit"""
    seen = 0
    while tu is not None and base in tu.typedefs and seen < 20:
        t = tu.typedefs[base]
        base = t.get("desugaredQualType") or t.get("qualType")
        base = " ".join(w for w in base.split() if w not in ("const", "volatile"))
        seen += 1
    return base


def parse_type(t, tu=None):
    """clang type node -> ('int', w, signed) | ('ptr', elem, const) with elem = (w, signed) or None (void) | ('void',)"""
    q = t.get("desugaredQualType") or t.get("qualType")
    q = q.strip()
    if q.endswith("*") or q.endswith("*const") or q.endswith("* const") or q.endswith("*restrict") or q.endswith("*__restrict") \
            or q.endswith("*const restrict") or q.endswith("*const __restrict"):
        base = q[:q.rindex("*")].strip()
        if "*" in base or "(" in base:
            raise Unsupported("pointer type %s" % q)
        const = "const" in base.split()
        base = base_type(" ".join(w for w in base.split() if w not in ("const", "volatile")), tu)
        if base == "void":
            return ("ptr", None, const)
        if base in INT_TYPES:
            return ("ptr", INT_TYPES[base], const)
        raise Unsupported("pointer type %s" % q)
    base = base_type(" ".join(w for w in q.split() if w not in ("const", "volatile")), tu)
    if base == "void":
        return ("void",)
    if base in INT_TYPES:
        return ("int",) + INT_TYPES[base]
    raise Unsupported("type %s" % q)


def lit(v):
    return str(v) if v < 256 else "0x%X" % v


def tmax(ty):
    w, s = ty
    return (1 << (w - 1)) - 1 if s else (1 << w) - 1


# ---------------------------------------------------------------------------------------------- code trees
# ('let', pat, term, body)  ('guard', bool, body)  ('bind', pat, code, body)  ('if', bool, neg, c1, c2)
# ('ret', term)  ('fail',)  ('raw', option-term)  ('case', term, [(pattern text, code)])
def pure(c):
    k = c[0]
    if k == "ret":
        return True
    if k == "let":
        return pure(c[3])
    if k == "if":
        return pure(c[3]) and pure(c[4])
    if k == "bind":
        return pure(c[2]) and pure(c[3])
    if k == "case":
        return all(pure(x) for _, x in c[2])
    return False


def pat(names, in_match=False):
    if len(names) == 0:
        return "_"
    if len(names) == 1:
        return names[0]
    return ("(%s)" if in_match else "'(%s)") % ", ".join(names)


def render(c, ind, as_pure=False):
    """Gallina text of a code tree; as_pure: the tree is pure and is rendered without the `Some`s"""
    sp = "  " * ind
    k = c[0]
    if k == "ret":
        return sp + (c[1] if as_pure else "Some %s" % par(c[1]))
    if k == "fail":
        return sp + "None"
    if k == "raw":
        return sp + c[1]
    if k == "let":
        return sp + "let %s := %s in\n" % (pat(c[1]), c[2]) + render(c[3], ind, as_pure)
    if k == "guard":
        return sp + "if %s then None else\n" % c[1] + render(c[2], ind, as_pure)
    if k == "if":
        a, b = (c[4], c[3]) if c[2] else (c[3], c[4])
        return sp + "if %s then\n%s\n%selse\n%s" % (c[1], render(a, ind + 1, as_pure), sp, render(b, ind + 1, as_pure))
    if k == "case":
        return sp + "match %s with\n" % c[1] + "\n".join("%s| %s =>\n%s" % (sp, p, render(x, ind + 1, as_pure)) for p, x in c[2]) + "\n%send" % sp
    if k == "bind":
        if pure(c[2]):
            inner = render(c[2], ind + 1, True)
            one = " ".join(inner.split())
            if len(one) < 100 and "\n" not in inner.strip():
                return sp + "let %s := %s in\n" % (pat(c[1]), one) + render(c[3], ind, as_pure)
            return sp + "let %s :=\n%s in\n" % (pat(c[1]), inner) + render(c[3], ind, as_pure)
        if as_pure:
            raise Unsupported("internal: impure bind in a pure context")
        inner = render(c[2], ind + 1)
        one = " ".join(inner.split())
        if len(one) < 100:
            return sp + "match %s with\n%s| None => None\n%s| Some %s =>\n%s\n%send" % (one, sp, sp, pat(c[1], True), render(c[3], ind, False), sp)
        return sp + "match (\n%s) with\n%s| None => None\n%s| Some %s =>\n%s\n%send" % (inner, sp, sp, pat(c[1], True), render(c[3], ind, False), sp)
    raise Unsupported("internal: code kind %s" % k)


def par(t):
    t = t.strip()
    if t.startswith("(") and matching(t) or all(ch.isalnum() or ch in "_'" for ch in t):
        return t
    return "(%s)" % t


def matching(t):
    d = 0
    for i, ch in enumerate(t):
        if ch == "(":
            d += 1
        elif ch == ")":
            d -= 1
            if d == 0 and i != len(t) - 1:
                return False
    return d == 0


def with_pre(pre, code):
    for b in reversed(pre):
        if b[0] == "let":
            code = ("let", [b[1]], b[2], code)
        elif b[0] == "guard":
            code = ("guard", b[1], code)
        elif b[0] == "bind":
            code = ("bind", b[1], b[2], code)
        else:
            raise Unsupported("internal: binder %s" % b[0])
    return code


# ---------------------------------------------------------------------------------------------- AST helpers
ASSIGN_OPS = ("=", "+=", "-=", "*=", "/=", "%=", "<<=", ">>=", "&=", "|=", "^=")


def walk(n):
    yield n
    for c in n.get("inner", []) or []:
        if isinstance(c, dict):
            yield from walk(c)


def strip_paren(n):
    while n.get("kind") == "ParenExpr" or (n.get("kind") == "ImplicitCastExpr" and n.get("castKind") in ("LValueToRValue", "NoOp")):
        n = n["inner"][0]
    return n


def root_var(n):
    """decl id of the variable an lvalue / pointer expression is rooted in (None if there is none)"""
    while True:
        k = n.get("kind")
        if k == "DeclRefExpr":
            return n["referencedDecl"]["id"]
        if k in ("ParenExpr", "ImplicitCastExpr", "CStyleCastExpr", "UnaryOperator", "ArraySubscriptExpr", "BinaryOperator"):
            n = n["inner"][0]
            continue
        return None


def assigned_vars(nodes):
    """(decl ids assigned directly, True if something is stored through a pointer)"""
    ids, mem = [], False
    for top in nodes:
        if top is None:
            continue
        for n in walk(top):
            k = n.get("kind")
            tgt = None
            if (k == "BinaryOperator" and n.get("opcode") == "=") or k == "CompoundAssignOperator":
                tgt = strip_paren(n["inner"][0])
            elif k == "UnaryOperator" and n.get("opcode") in ("++", "--"):
                tgt = strip_paren(n["inner"][0])
            if tgt is None:
                continue
            if tgt.get("kind") == "DeclRefExpr":
                if tgt["referencedDecl"]["id"] not in ids:
                    ids.append(tgt["referencedDecl"]["id"])
            else:
                mem = True
    return ids, mem


def referenced_vars(nodes):
    ids = []
    for top in nodes:
        if top is None:
            continue
        for n in walk(top):
            if n.get("kind") == "DeclRefExpr" and n["referencedDecl"].get("kind") in ("VarDecl", "ParmVarDecl"):
                if n["referencedDecl"]["id"] not in ids:
                    ids.append(n["referencedDecl"]["id"])
            if n.get("kind") == "MemberExpr" and n.get("isArrow"):
                r = root_var(n["inner"][0])
                if r is not None and "fld:%s:%s" % (r, n.get("name")) not in ids:
                    ids.append("fld:%s:%s" % (r, n.get("name")))
    return ids


def has_kind(n, kinds, stop=()):
    if n is None:
        return False
    if n.get("kind") in kinds:
        return True
    if n.get("kind") in stop:
        return False
    return any(has_kind(c, kinds, stop) for c in n.get("inner", []) or [] if isinstance(c, dict))


def has_jump(n):
    """a return anywhere, or a break/continue that leaves n"""
    if n is None:
        return False
    if has_kind(n, ("ReturnStmt", "GotoStmt")):
        return True
    if has_kind(n, ("BreakStmt",), stop=("WhileStmt", "DoStmt", "ForStmt", "SwitchStmt")):
        return True
    return has_kind(n, ("ContinueStmt",), stop=("WhileStmt", "DoStmt", "ForStmt"))


def has_side_effect(n):
    for m in walk(n):
        k = m.get("kind")
        if k == "CompoundAssignOperator" or k == "CallExpr" or (k == "BinaryOperator" and m.get("opcode") == "=") or \
                (k == "UnaryOperator" and m.get("opcode") in ("++", "--")):
            return True
    return False


class K:
    """continuations of a statement: next(env), ret_raw(result term), brk(env), cont(env) -> code"""
    def __init__(self, nxt, ret_raw, brk=None, cont=None):
        self.next, self.ret_raw, self.brk, self.cont = nxt, ret_raw, brk, cont

    def with_next(self, nxt):
        return K(nxt, self.ret_raw, self.brk, self.cont)


class Retry(Exception):
    pass


# ---------------------------------------------------------------------------------------------- one function
class Fn:
    def __init__(self, node, tu, fuel):
        self.node, self.tu = node, tu
        self.name = node["name"]
        self.fuel = list(fuel or [])
        self.used = set(RESERVED)
        self.aux = []
        self.nloop = 0
        self.cname = {}        # decl id -> C name
        self.glob_used = []

    # ---- bookkeeping
    def where(self, n):
        return "%s:%s" % (self.name, n.get("_line", "?"))

    def bad(self, what, n):
        raise Unsupported("%s at %s" % (what, self.where(n)))

    def fresh(self, base):
        if base in RESERVED:
            base += "_"
        if base not in self.used:
            self.used.add(base)
            return base
        k = 1
        while "%s_%d" % (base, k) in self.used:
            k += 1
        nm = "%s_%d" % (base, k)
        self.used.add(nm)
        return nm

    # env: decl id -> ('int', ty, name|None) | ('ptr', elem, arrid, off, nullflag|None) ; 'arr:<id>' -> ('arr', name, cellw)
    #      '@nn' -> frozenset of null flags known false
    def arr_cell(self, env, arrid, elem, n):
        a = env[arrid]
        if elem is None:
            self.bad("access through void pointer", n)
        if a[2] is None:
            self.cellw[arrid] = elem[0]
            env[arrid] = ("arr", a[1], elem[0])
        elif a[2] != elem[0]:
            self.bad("array accessed with element widths %d and %d" % (a[2], elem[0]), n)

    # ---- expressions
    def ety(self, n):
        return parse_type_at(self, n)

    def tnode(self, t, n):
        """a bare clang type node (computeLHSType ...): it may name a typedef without the desugared form"""
        try:
            return parse_type(t, self.tu)
        except Unsupported as e:
            raise Unsupported("%s at %s" % (e, self.where(n)))

    def expr(self, n, env, pre):
        """integer rvalue -> (term, (w, signed))"""
        v = self.as_n(self.value(n, env, pre), pre, n)
        return v[1], v[2]

    # ---- signed values that may be negative are carried in Z: ('z', Z term, (w, True))
    def as_n(self, v, pre, n):
        """a value where the translation needs a natural number (index, shift count, result ...): a Z-carried one must be >= 0"""
        if v[0] == "z":
            pre.append(("guard", "Z.ltb %s 0" % par(v[1])))              # negative: not representable here
            return ("i", "Z.to_N %s" % par(v[1]), v[2])
        if v[0] != "i":
            self.bad("integer expected, got a pointer or void", n)
        return v

    def zt(self, v):
        return v[1] if v[0] == "z" else "Z.of_N %s" % par(v[1])

    def zlit(self, k):
        return "(%d)%%Z" % k

    def zrange(self, term, ty, pre):
        w = ty[0]
        pre.append(("guard", "orb (Z.ltb %s %s) (Z.ltb %s %s)" % (par(term), self.zlit(-(1 << (w - 1))), self.zlit((1 << (w - 1)) - 1), par(term))))

    def convert_value(self, v, dst, pre, n):
        """integer conversion of a value (either representation) to the type dst"""
        if v[0] == "i":
            return ("i", self.convert(v[1], v[2], dst, pre, n), dst)
        (ws, _), (wd, sd) = v[2], dst
        if not sd:
            return ("i", "Z.to_N (Z.modulo %s %s)" % (par(v[1]), self.zlit(1 << wd)), dst)       # reduction modulo 2^wd
        if wd < ws:
            self.zrange(v[1], dst, pre)                                  # implementation-defined when out of range: an error here
        return ("z", v[1], dst)

    def zarith(self, op, a, b, t, pre, n, const_b=None):
        """signed a op b at type t with at least one operand carried in Z; overflow is an error, a negative result is not"""
        w = t[0]
        x, y = self.zt(a), self.zt(b)
        if op in ("+", "-", "*"):
            term = "Z.%s %s %s" % ({"+": "add", "-": "sub", "*": "mul"}[op], par(x), par(y))
            self.zrange(term, t, pre)
            return ("z", term, t)
        if op in ("/", "%"):
            pre.append(("guard", "Z.eqb %s 0" % par(y)))
            term = "Z.%s %s %s" % ("quot" if op == "/" else "rem", par(x), par(y))       # C truncates towards zero
            if op == "/":
                self.zrange(term, t, pre)
            return ("z", term, t)
        if op in ("<<", ">>"):
            if const_b is None or const_b >= w:
                pre.append(("guard", "orb (Z.ltb %s 0) (Z.leb %s %s)" % (par(y), self.zlit(w), par(y))))
            if op == ">>":
                return ("z", "Z.shiftr %s %s" % (par(x), par(y)), t)     # arithmetic shift (gcc, clang)
            pre.append(("guard", "Z.ltb %s 0" % par(x)))                 # left shift of a negative value
            term = "Z.shiftl %s %s" % (par(x), par(y))
            self.zrange(term, t, pre)
            return ("z", term, t)
        if op in ("&", "|", "^"):
            return ("z", "Z.%s %s %s" % ({"&": "land", "|": "lor", "^": "lxor"}[op], par(x), par(y)), t)
        self.bad("operator %s" % op, n)

    def value(self, n, env, pre):
        """-> ('i', N term, ty) | ('z', Z term, signed ty) | ('p', arrid, off, elem, nullflag) | ('null',)"""
        k = n.get("kind")
        if k in ("ParenExpr", "ConstantExpr"):
            return self.value(n["inner"][0], env, pre)
        if k == "IntegerLiteral":
            t = self.ety(n)
            v = int(n["value"])
            if t[0] != "int" or v < 0 or v > tmax(t[1:]):
                self.bad("literal %s out of range of its type" % n["value"], n)
            return ("i", lit(v), t[1:])
        if k == "CharacterLiteral":
            t = self.ety(n)
            v = int(n["value"])
            if v < 0 or v > tmax(t[1:]):
                self.bad("character literal %s" % v, n)
            return ("i", lit(v), t[1:])
        if k == "DeclRefExpr":
            return self.read_var(n, env)
        if k == "MemberExpr":
            return self.member(n, env)
        if k in ("ImplicitCastExpr", "CStyleCastExpr"):
            return self.cast(n, env, pre)
        if k == "UnaryOperator":
            return self.unary(n, env, pre)
        if k == "BinaryOperator":
            return self.binary(n, env, pre)
        if k == "CompoundAssignOperator":
            return self.compound(n, env, pre)
        if k == "ConditionalOperator":
            return self.conditional(n, env, pre)
        if k == "ArraySubscriptExpr":
            return self.load(n, env, pre)
        if k == "CallExpr":
            return self.call(n, env, pre)
        if k == "UnaryExprOrTypeTraitExpr" and n.get("name") == "sizeof":
            self.bad("sizeof", n)
        self.bad("expression %s" % k, n)

    def read_var(self, n, env):
        rd = n["referencedDecl"]
        if rd.get("kind") == "EnumConstantDecl":
            self.bad("enumeration constant", n)
        i = rd["id"]
        if i not in env:
            g = self.tu.globals.get(i)
            if g is not None:
                return self.global_array(g, env, n)
            self.bad("variable %s is not a local, a parameter or a const table" % rd.get("name"), n)
        v = env[i]
        if v[0] == "int":
            if v[2] is None:
                self.bad("read of %s before it is assigned" % rd["name"], n)
            return ("z" if len(v) > 3 else "i", v[2], v[1])
        if v[0] == "ptr":
            if v[3] is None:
                self.bad("read of pointer %s before it is assigned" % rd["name"], n)
            return ("p", v[2], v[3], v[1], v[4])
        self.bad("use of %s" % rd["name"], n)

    def member(self, n, env):
        """ctx->f for a structure parameter ctx: the member is a Gallina parameter of its own (read only)"""
        b = strip_paren(n["inner"][0])
        if not n.get("isArrow") or b.get("kind") != "DeclRefExpr":
            self.bad("member access other than <structure parameter>->member", n)
        key = "fld:%s:%s" % (b["referencedDecl"]["id"], n.get("name"))
        v = env.get(key)
        if v is None:
            self.bad("member %s of something that is not a structure parameter" % n.get("name"), n)
        if v[0] == "int":
            return ("i", v[2], v[1])
        return ("p", v[2], v[3], v[1], v[4])

    def global_array(self, g, env, n):
        key = "arr:" + g["id"]
        if key not in env:
            env[key] = ("arr", g["name"], g["elem"][0])
            if g not in self.glob_used:
                self.glob_used.append(g)
        return ("p", key, "0", g["elem"], None)

    def convert(self, term, src, dst, pre, n):
        """value conversion between integer types"""
        (ws, ss), (wd, sd) = src, dst
        if tmax(src) <= tmax(dst):
            return term
        if not sd:
            return "wrap %d %s" % (wd, par(term))
        pre.append(("guard", "%s <=? %s" % (lit(1 << (wd - 1)), term)))      # implementation-defined / negative: not represented
        return term

    def cast(self, n, env, pre):
        ck = n.get("castKind")
        sub = n["inner"][-1]
        if ck in ("LValueToRValue", "NoOp", "FunctionToPointerDecay", "BuiltinFnToFnPtr"):
            v = self.value(sub, env, pre)
            if ck == "NoOp" and v[0] == "p":
                t = self.ety(n)
                if t[0] == "ptr" and t[1] != v[3]:
                    if t[1] is not None and v[3] is not None and t[1][0] != v[3][0]:
                        self.bad("pointer cast between element widths", n)
                    return ("p", v[1], v[2], t[1] if t[1] is not None else v[3], v[4])
            return v
        if ck == "ArrayToPointerDecay":
            return self.value(sub, env, pre)
        if ck == "IntegralCast":
            v = self.value(sub, env, pre)
            if v[0] not in ("i", "z"):
                self.bad("integral cast of a pointer or void", n)
            t = self.ety(n)
            if t[0] != "int":
                self.bad("cast to %s" % (t,), n)
            return self.convert_value(v, t[1:], pre, n)
        if ck == "BitCast":
            v = self.value(sub, env, pre)
            t = self.ety(n)
            if v[0] == "null":
                return v
            if v[0] != "p" or t[0] != "ptr":
                self.bad("bit cast", n)
            elem = t[1]
            if elem is None:
                elem = v[3]
            elif v[3] is not None and v[3][0] != elem[0]:
                self.bad("pointer cast between element widths %d and %d" % (v[3][0], elem[0]), n)
            return ("p", v[1], v[2], elem, v[4])
        if ck == "NullToPointer":
            return ("null",)
        if ck == "IntegralToBoolean":
            self.bad("_Bool", n)
        self.bad("cast %s" % ck, n)

    def unary(self, n, env, pre):
        op = n["opcode"]
        sub = n["inner"][0]
        if op in ("++", "--"):
            return self.incdec(n, env, pre)
        if op == "*":
            p = self.value(sub, env, pre)
            return self.deref(p, "0", env, pre, n)
        if op == "!":
            c, neg = self.cond(sub, env, pre)
            return ("i", "(if %s then %s else %s)" % ((c, "1", "0") if neg else (c, "0", "1")), (32, True))
        if op == "+":
            return self.value(sub, env, pre)
        v = self.value(sub, env, pre)
        if v[0] not in ("i", "z"):
            self.bad("operand of unary %s" % op, n)
        term, ty = v[1], v[2]
        t = self.ety(n)[1:]
        if ty != t:
            self.bad("operand type of unary %s" % op, n)
        w, s = t
        if op == "~":
            if s:
                return ("z", "Z.lnot %s" % par(self.zt(v)), t)
            return ("i", "N.lxor %s %s" % (par(term), lit((1 << w) - 1)), t)
        if op == "-":
            if s:
                pre.append(("guard", "Z.eqb %s %s" % (par(self.zt(v)), self.zlit(-(1 << (w - 1))))))
                return ("z", "Z.opp %s" % par(self.zt(v)), t)
            return ("i", "wrap %d (%s - %s)" % (w, lit(1 << w), term), t)
        self.bad("unary %s" % op, n)

    def lvalue(self, n, env, pre):
        """-> ('var', id) | ('mem', arrid, offterm, elem, nullflag)"""
        n = strip_paren(n)
        k = n.get("kind")
        if k == "DeclRefExpr":
            i = n["referencedDecl"]["id"]
            if i not in env:
                self.bad("assignment to %s" % n["referencedDecl"].get("name"), n)
            return ("var", i)
        if k == "UnaryOperator" and n.get("opcode") == "*":
            p = self.value(n["inner"][0], env, pre)
            if p[0] != "p":
                self.bad("dereference of a non-pointer", n)
            return ("mem", p[1], p[2], p[3], p[4])
        if k == "ArraySubscriptExpr":
            p = self.value(n["inner"][0], env, pre)
            it, ity = self.expr(n["inner"][1], env, pre)
            if p[0] != "p":
                self.bad("subscript of a non-pointer", n)
            return ("mem", p[1], self.addoff(p[2], it), p[3], p[4])
        self.bad("lvalue %s" % k, n)

    def addoff(self, off, t):
        if off == "0":
            return t
        if t == "0":
            return off
        return "%s + %s" % (par(off), par(t))

    def check_null(self, flag, env, pre):
        if flag is not None and flag not in env["@nn"]:
            pre.append(("guard", flag))

    def deref(self, p, idx, env, pre, n):
        if p[0] != "p":
            self.bad("dereference of a non-pointer (or of NULL)", n)
        _, arrid, off, elem, flag = p
        self.arr_cell(env, arrid, elem, n)
        self.check_null(flag, env, pre)
        x = self.fresh("c" if elem[0] == 8 else "e")
        pre.append(("bind", [x], ("raw", "load %s %s" % (env[arrid][1], par(self.addoff(off, idx))))))
        if elem[1]:
            return ("z", "sext %d %s" % (elem[0], x), elem)              # a cell read through a signed type may be negative
        return ("i", x, elem)

    def load(self, n, env, pre):
        p = self.value(n["inner"][0], env, pre)
        it, _ = self.expr(n["inner"][1], env, pre)
        return self.deref(p, it, env, pre, n)

    def assign_to(self, lv, val, env, pre, n, base=None):
        """store a value (already converted to the lvalue's type); returns the value read back"""
        if lv[0] == "var":
            v = env[lv[1]]
            if v[0] == "int":
                if val[0] not in ("i", "z"):
                    self.bad("pointer assigned to an integer", n)
                nm = self.fresh(self.cname[lv[1]])
                pre.append(("let", nm, val[1]))
                env[lv[1]] = ("int", v[1], nm) + (("z",) if val[0] == "z" else ())
                return (val[0], nm, v[1])
            if v[0] == "ptr":
                if val[0] != "p":
                    self.bad("assignment of a non-pointer (or NULL) to pointer %s" % self.cname[lv[1]], n)
                if v[2] is not None and v[2] != val[1]:
                    self.bad("pointer %s moves to another array" % self.cname[lv[1]], n)
                nm = self.fresh(self.cname[lv[1]])
                pre.append(("let", nm, val[2]))
                elem = v[1] if v[1] is not None else val[3]
                env[lv[1]] = ("ptr", elem, val[1], nm, val[4])
                return ("p", val[1], nm, elem, val[4])
        else:
            _, arrid, off, elem, flag = lv
            if val[0] == "z":                                            # the cell holds the two's complement pattern
                val = ("i", "Z.to_N (Z.modulo %s %s)" % (par(val[1]), self.zlit(1 << elem[0])), elem)
            if val[0] != "i":
                self.bad("store of a pointer", n)
            self.arr_cell(env, arrid, elem, n)
            if arrid not in self.outs and arrid not in self.local_arrs:
                self.bad("store through a pointer to const / to a table", n)
            self.check_null(flag, env, pre)
            a = env[arrid]
            nm = self.fresh(self.arrbase[arrid])
            pre.append(("bind", [nm], ("raw", "store %s %s %s" % (a[1], par(off), par(val[1])))))
            env[arrid] = ("arr", nm, a[2])
            return val
        self.bad("assignment", n)

    def lv_type(self, lv, env):
        if lv[0] == "var":
            v = env[lv[1]]
            return v[1] if v[0] == "int" else None
        return lv[3]

    def lv_read(self, lv, env, pre, n):
        if lv[0] == "var":
            v = env[lv[1]]
            if v[0] == "int":
                if v[2] is None:
                    self.bad("read of %s before it is assigned" % self.cname[lv[1]], n)
                return ("z" if len(v) > 3 else "i", v[2], v[1])
            if v[3] is None:
                self.bad("read of %s before it is assigned" % self.cname[lv[1]], n)
            return ("p", v[2], v[3], v[1], v[4])
        return self.deref(("p", lv[1], lv[2], lv[3], lv[4]), "0", env, pre, n)

    def incdec(self, n, env, pre):
        op, post = n["opcode"], n.get("isPostfix", False)
        lv = self.lvalue(n["inner"][0], env, pre)
        old = self.lv_read(lv, env, pre, n)
        if old[0] == "p":
            if op == "--":
                new = ("p", old[1], "%s - 1" % par(old[2]), old[3], old[4])
                pre.append(("guard", "%s =? 0" % old[2]))
            else:
                new = ("p", old[1], "%s + 1" % par(old[2]), old[3], old[4])
            res = self.assign_to(lv, new, env, pre, n)
            return old if post else res
        t = old[2]
        w, s = t
        if w < 32:
            self.bad("++/-- on a type narrower than int", n)
        if old[0] == "z":
            res = self.assign_to(lv, self.zarith("+" if op == "++" else "-", old, ("i", "1", t), t, pre, n), env, pre, n)
            return old if post else res
        if op == "++":
            if s:
                pre.append(("guard", "%s <=? %s + 1" % (lit(1 << (w - 1)), old[1])))
                term = "%s + 1" % old[1]
            else:
                term = "wrap %d (%s + 1)" % (w, old[1])
        else:
            if s:
                pre.append(("guard", "%s =? 0" % old[1]))
                term = "%s - 1" % old[1]
            else:
                term = "wrap %d (%s + %s - 1)" % (w, old[1], lit(1 << w))
        res = self.assign_to(lv, ("i", term, t), env, pre, n)
        return old if post else res

    def arith(self, op, a, b, t, pre, n, const_b=None):
        """a op b at type t (both operands already have that type, except shifts: b any integer type)"""
        w, s = t
        if op in ("+", "*"):
            term = "%s %s %s" % (par(a), op, par(b))
            if s:
                pre.append(("guard", "%s <=? %s" % (lit(1 << (w - 1)), term)))
                return term
            return "wrap %d (%s)" % (w, term)
        if op == "-":
            if s:
                pre.append(("guard", "%s <? %s" % (par(a), par(b))))             # negative: not represented
                return "%s - %s" % (par(a), par(b))
            return "wrap %d (%s + %s - %s)" % (w, par(a), lit(1 << w), par(b))
        if op in ("/", "%"):
            pre.append(("guard", "%s =? 0" % par(b)))
            return "%s %s %s" % (par(a), "/" if op == "/" else "mod", par(b))
        if op in ("<<", ">>"):
            if const_b is None or const_b >= w:
                pre.append(("guard", "%s <=? %s" % (lit(w), par(b))))
            if op == ">>":
                return "N.shiftr %s %s" % (par(a), par(b))
            term = "N.shiftl %s %s" % (par(a), par(b))
            if s:
                pre.append(("guard", "%s <=? %s" % (lit(1 << (w - 1)), term)))
                return term
            return "wrap %d (%s)" % (w, term)
        if op in ("&", "|", "^"):
            return "%s %s %s" % ({"&": "N.land", "|": "N.lor", "^": "N.lxor"}[op], par(a), par(b))
        self.bad("operator %s" % op, n)

    def const_of(self, n):
        m = n
        while m.get("kind") in ("ParenExpr", "ImplicitCastExpr", "ConstantExpr"):
            m = m["inner"][0]
        if m.get("kind") == "IntegerLiteral":
            return int(m["value"])
        return None

    def unsequenced(self, a, b, n):
        """two operands that clang does not sequence: refuse when one has a side effect on something the other mentions"""
        for x, y in ((a, b), (b, a)):
            if has_side_effect(x):
                ids, mem = assigned_vars([x])
                if any(i in ids for i in referenced_vars([y])) or (mem and has_side_effect(y)) or \
                        has_kind(x, ("CallExpr",)) and has_side_effect(y):
                    self.bad("unsequenced side effects", n)

    def binary(self, n, env, pre):
        op = n["opcode"]
        l, r = n["inner"]
        if op == "=":
            lv = self.lvalue(l, env, pre)
            val = self.value(r, env, pre)
            return self.assign_to(lv, val, env, pre, n)
        if op == ",":
            self.value(l, env, pre)
            return self.value(r, env, pre)
        if op in ("<", ">", "<=", ">=", "==", "!=", "&&", "||"):
            c, neg = self.cond(n, env, pre)
            return ("i", "(if %s then %s else %s)" % ((c, "0", "1") if neg else (c, "1", "0")), (32, True))
        self.unsequenced(l, r, n)
        a = self.value(l, env, pre)
        b = self.value(r, env, pre)
        if a[0] == "p" or b[0] == "p":
            return self.ptr_arith(op, a, b, pre, n)
        if a[0] not in ("i", "z") or b[0] not in ("i", "z"):
            self.bad("operands of %s" % op, n)
        t = self.ety(n)
        if t[0] != "int":
            self.bad("result type of %s" % op, n)
        t = t[1:]
        if a[2] != t or (op not in ("<<", ">>") and b[2] != t):
            self.bad("operand types of %s are not the result type (expected clang's implicit casts)" % op, n)
        if a[0] == "z" or (b[0] == "z" and t[1]) or (op == "-" and t[1]):
            return self.zarith(op, a, b, t, pre, n, self.const_of(r))        # a signed difference may be negative: in Z
        b = self.as_n(b, pre, n)                                         # a shift count carried in Z under an unsigned left operand
        return ("i", self.arith(op, a[1], b[1], t, pre, n, self.const_of(r)), t)

    def ptr_arith(self, op, a, b, pre, n):
        if a[0] == "z" or b[0] == "z":
            self.bad("pointer arithmetic with a possibly negative integer", n)
        if op == "+" and a[0] == "p" and b[0] == "i":
            return ("p", a[1], self.addoff(a[2], b[1]), a[3], a[4])
        if op == "+" and a[0] == "i" and b[0] == "p":
            return ("p", b[1], self.addoff(b[2], a[1]), b[3], b[4])
        if op == "-" and a[0] == "p" and b[0] == "i":
            pre.append(("guard", "%s <? %s" % (par(a[2]), par(b[1]))))
            return ("p", a[1], "%s - %s" % (par(a[2]), par(b[1])), a[3], a[4])
        if op == "-" and a[0] == "p" and b[0] == "p":
            if a[1] != b[1]:
                self.bad("difference of pointers into different arrays", n)
            if (a[3] or (8,))[0] != (b[3] or (8,))[0]:
                self.bad("difference of pointers with different element widths", n)
            if b[2] == "0":
                return ("i", a[2], (64, True))
            return ("z", "Z.sub (Z.of_N %s) (Z.of_N %s)" % (par(a[2]), par(b[2])), (64, True))   # ptrdiff_t, possibly negative
        self.bad("pointer arithmetic %s" % op, n)

    def compound(self, n, env, pre):
        op = n["opcode"][:-1]
        l, r = n["inner"]
        self.unsequenced(l, r, n)
        lv = self.lvalue(l, env, pre)
        old = self.lv_read(lv, env, pre, n)
        rv = self.value(r, env, pre)
        if old[0] == "p":
            if rv[0] != "i" or op not in ("+", "-"):
                self.bad("compound assignment on a pointer", n)
            new = self.ptr_arith(op, old, rv, pre, n)
            return self.assign_to(lv, new, env, pre, n)
        if rv[0] not in ("i", "z"):
            self.bad("compound assignment operand", n)
        ct = self.tnode(n["computeResultType"], n)
        lt = self.tnode(n["computeLHSType"], n)
        if ct[0] != "int" or lt[0] != "int":
            self.bad("compound assignment type", n)
        av = self.convert_value(old, lt[1:], pre, n)
        if op not in ("<<", ">>"):
            if rv[2] != ct[1:]:
                self.bad("operand type of %s= is not the computation type" % op, n)
        if av[0] == "z" or (rv[0] == "z" and ct[2]) or (op == "-" and ct[2]):
            resv = self.zarith(op, av, rv, ct[1:], pre, n, self.const_of(r))
        else:
            rv = self.as_n(rv, pre, n)
            resv = ("i", self.arith(op, av[1], rv[1], ct[1:], pre, n, self.const_of(r)), ct[1:])
        return self.assign_to(lv, self.convert_value(resv, old[2], pre, n), env, pre, n)

    def conditional(self, n, env, pre):
        c, a, b = n["inner"]
        ct, neg = self.cond(c, env, pre)
        if has_side_effect(a) or has_side_effect(b):
            self.bad("side effect in an arm of ?:", n)
        pa, pb = [], []
        ea, eb = dict(env), dict(env)
        va = self.value(a, ea, pa)
        vb = self.value(b, eb, pb)
        if va[0] not in ("i", "z") or vb[0] not in ("i", "z") or va[2] != vb[2]:
            self.bad("arms of ?: (integer arms of one type expected)", n)
        kind = "i"
        if va[0] != vb[0]:                                               # one arm may be negative: both in Z
            va, vb = ("z", self.zt(va), va[2]), ("z", self.zt(vb), vb[2])
        kind = va[0]
        for k_ in ea:                      # element widths learnt inside the arms
            if k_.startswith("arr:"):
                env[k_] = ea[k_]
        for k_ in eb:
            if k_.startswith("arr:") and k_ not in env:
                env[k_] = eb[k_]
        if not pa and not pb:
            t1, t2 = (vb[1], va[1]) if neg else (va[1], vb[1])
            return (kind, "(if %s then %s else %s)" % (ct, t1, t2), va[2])
        x = self.fresh("c")
        code = ("if", ct, neg, with_pre(pa, ("ret", va[1])), with_pre(pb, ("ret", vb[1])))
        pre.append(("bind", [x], code))
        return (kind, x, va[2])

    def cond(self, n, env, pre):
        """-> (bool term, negated?)"""
        m = n
        while m.get("kind") == "ParenExpr":
            m = m["inner"][0]
        k = m.get("kind")
        if k == "UnaryOperator" and m.get("opcode") == "!":
            c, neg = self.cond(m["inner"][0], env, pre)
            return c, not neg
        if k == "BinaryOperator" and m.get("opcode") in ("<", ">", "<=", ">=", "==", "!="):
            op = m["opcode"]
            self.unsequenced(m["inner"][0], m["inner"][1], m)
            a = self.value(m["inner"][0], env, pre)
            b = self.value(m["inner"][1], env, pre)
            if a[0] in ("i", "z") and b[0] in ("i", "z") and "z" in (a[0], b[0]):
                if a[2] != b[2]:
                    self.bad("comparison of different types (expected clang's implicit casts)", m)
                x, y = par(self.zt(a)), par(self.zt(b))
                return {"<": ("Z.ltb %s %s" % (x, y), False), ">": ("Z.ltb %s %s" % (y, x), False),
                        "<=": ("Z.leb %s %s" % (x, y), False), ">=": ("Z.leb %s %s" % (y, x), False),
                        "==": ("Z.eqb %s %s" % (x, y), False), "!=": ("Z.eqb %s %s" % (x, y), True)}[op]
            if a[0] == "i" and b[0] == "i":
                if a[2] != b[2]:
                    self.bad("comparison of different types (expected clang's implicit casts)", m)
                x, y = a[1], b[1]
            elif a[0] == "p" and b[0] == "p":
                if a[1] != b[1]:
                    self.bad("comparison of pointers into different arrays", m)
                x, y = a[2], b[2]
            elif "null" in (a[0], b[0]) and "p" in (a[0], b[0]) and op in ("==", "!="):
                p = a if a[0] == "p" else b
                if p[4] is None:
                    self.bad("comparison of a pointer that is not a nullable parameter with NULL", m)
                return p[4], op == "!="
            else:
                self.bad("comparison operands", m)
            x, y = par(x), par(y)
            return {"<": ("%s <? %s" % (x, y), False), ">": ("%s <? %s" % (y, x), False),
                    "<=": ("%s <=? %s" % (x, y), False), ">=": ("%s <=? %s" % (y, x), False),
                    "==": ("%s =? %s" % (x, y), False), "!=": ("%s =? %s" % (x, y), True)}[op]
        if k == "BinaryOperator" and m.get("opcode") in ("&&", "||"):
            a, na = self.cond(m["inner"][0], env, pre)
            if has_side_effect(m["inner"][1]):
                self.bad("side effect in the right operand of %s" % m["opcode"], m)
            p2 = []
            e2 = dict(env)
            b, nb = self.cond(m["inner"][1], e2, p2)
            ta = "negb (%s)" % a if na else a
            tb = "negb (%s)" % b if nb else b
            if any(bd[0] != "guard" for bd in p2):
                # the right operand reads memory: it is evaluated (and may fail) only when the left one does not decide
                for k_ in e2:
                    if k_.startswith("arr:"):
                        env[k_] = e2[k_]
                x = self.fresh("t")
                if m["opcode"] == "&&":
                    code = ("if", ta, False, with_pre(p2, ("ret", tb)), ("ret", "false"))
                else:
                    code = ("if", ta, False, ("ret", "true"), with_pre(p2, ("ret", tb)))
                pre.append(("bind", [x], code))
                return x, False
            for bd in p2:
                gate = ta if m["opcode"] == "&&" else ("negb (%s)" % ta)
                pre.append(("guard", "andb (%s) (%s)" % (gate, bd[1])))
            return "%s (%s) (%s)" % ("andb" if m["opcode"] == "&&" else "orb", ta, tb), False
        v = self.value(m, env, pre)
        if v[0] == "p":
            if v[4] is None:
                self.bad("truth value of a pointer that is not a nullable parameter", m)
            return v[4], True
        if v[0] == "z":
            return "Z.eqb %s 0" % par(v[1]), True
        if v[0] != "i":
            self.bad("condition", m)
        return "%s =? 0" % par(v[1]), True

    def nonnull_fact(self, n, env):
        """(flag, sense): the condition n is exactly `p` (sense True) or `!p` (False) for a nullable pointer"""
        m, sense = n, True
        while True:
            if m.get("kind") in ("ParenExpr",) or (m.get("kind") == "ImplicitCastExpr" and m.get("castKind") in ("LValueToRValue", "NoOp")):
                m = m["inner"][0]
            elif m.get("kind") == "UnaryOperator" and m.get("opcode") == "!":
                m, sense = m["inner"][0], not sense
            else:
                break
        if m.get("kind") == "DeclRefExpr":
            v = env.get(m["referencedDecl"]["id"])
            if v and v[0] == "ptr" and v[4] is not None:
                return v[4], sense
        return None, True

    def call(self, n, env, pre):
        callee = n["inner"][0]
        while callee.get("kind") in ("ImplicitCastExpr", "ParenExpr"):
            callee = callee["inner"][0]
        if callee.get("kind") != "DeclRefExpr":
            self.bad("indirect call", n)
        fname = callee["referencedDecl"]["name"]
        args = n["inner"][1:]
        if fname in CLZ:
            term, ty = self.expr(args[0], env, pre)
            w = CLZ[fname]
            if ty != (w, False):
                self.bad("%s on an operand of type %s" % (fname, ty), n)
            pre.append(("guard", "%s =? 0" % par(term)))
            return ("i", "%d - N.log2 %s" % (w - 1, par(term)), (32, True))
        sig = self.tu.sigs.get(fname)
        if sig is None:
            self.bad("call to %s (not translated)" % fname, n)
        for i, a in enumerate(args):
            for b in args[i + 1:]:
                self.unsequenced(a, b, n)
        terms, backs = [], []
        for a, p in zip(args, sig["params"]):
            if p["kind"] == "struct":
                self.bad("call to %s, which takes a structure" % fname, n)
            v = self.value(a, env, pre)
            if p["kind"] == "int":
                v = self.as_n(v, pre, n)
                if v[2] != p["ty"]:
                    self.bad("argument type in call to %s" % fname, n)
                terms.append(par(v[1]))
                continue
            if v[0] == "null":
                if not p["nullable"]:
                    self.bad("NULL passed to %s for a parameter it does not test" % fname, n)
                terms += ["true", "[]"]
                if p["out"]:
                    backs.append(None)           # the callee still returns the (empty) list
                continue
            if v[0] != "p":
                self.bad("pointer argument expected in call to %s" % fname, n)
            _, arrid, off, elem, flag = v
            a_ = env[arrid]
            cw = p["cellw"]
            if cw is not None:
                if a_[2] is None:
                    self.cellw[arrid] = cw
                    env[arrid] = ("arr", a_[1], cw)
                elif a_[2] != cw:
                    self.bad("array passed to %s with another element width" % fname, n)
            if p["nullable"]:
                terms.append(flag if flag is not None else "false")
            else:
                self.check_null(flag, env, pre)
            terms.append(env[arrid][1] if off == "0" else "(skipn (N.to_nat %s) %s)" % (par(off), env[arrid][1]))
            if p["out"]:
                if off != "0":
                    self.bad("output buffer passed to %s at an offset" % fname, n)
                if arrid not in self.outs:
                    self.bad("const array passed to %s as an output" % fname, n)
                backs.append(arrid)
        names = []
        rv = None
        if sig["ret"] is not None:
            rv = self.fresh("r")
            names.append(rv)
        outnames = []
        for arrid in backs:
            if arrid is None:
                names.append("_")
                continue
            nm = self.fresh(self.arrbase[arrid])
            names.append(nm)
            outnames.append((arrid, nm))
        pre.append(("bind", names if names else ["_"], ("raw", "%s %s" % (fname, " ".join(terms)) if terms else fname)))
        for arrid, nm in outnames:
            env[arrid] = ("arr", nm, env[arrid][2])
        if rv is None:
            return ("void",)
        return ("i", rv, sig["ret"])

    # ---- statements
    def tuple_of(self, env, ids):
        out = []
        for i in ids:
            v = env[i]
            out.append(v[2] if v[0] == "int" else v[3] if v[0] == "ptr" else v[1])
        return out

    def defined(self, v):
        return (v[0] == "int" and v[2] is not None) or (v[0] == "ptr" and v[3] is not None) or v[0] == "arr"

    def rebind(self, env, ids):
        """fresh names for the variables ids (after a join / a loop); returns the names"""
        names = []
        for i in ids:
            v = env[i]
            if v[0] == "int":
                nm = self.fresh(self.cname[i])
                env[i] = ("int", v[1], nm) + tuple(v[3:])
            elif v[0] == "ptr":
                nm = self.fresh(self.cname[i])
                env[i] = ("ptr", v[1], v[2], nm, v[4])
            else:
                nm = self.fresh(self.arrbase[i])
                env[i] = ("arr", nm, v[2])
            names.append(nm)
        return names

    def reps(self, env, ids):
        return tuple("z" if (env[i][0] == "int" and len(env[i]) > 3) else "n" for i in ids)

    def set_reps(self, env, ids, reps):
        for i, r in zip(ids, reps):
            v = env[i]
            if v[0] == "int":
                env[i] = v[:3] + (("z",) if r == "z" else ())

    def gtype(self, v):
        return "list N" if v[0] == "arr" else "Z" if (v[0] == "int" and len(v) > 3) else "N"

    def stmts(self, lst, env, k):
        if not lst:
            return k.next(env)
        return self.stmt(lst[0], env, k.with_next(lambda e: self.stmts(lst[1:], e, k)))

    def scoped(self, outer, k):
        keys = set(outer.keys())

        def nxt(e):
            return k.next({a: b for a, b in e.items() if a in keys or a.startswith("arr:") or a == "@nn"})
        return nxt

    def stmt(self, s, env, k):
        kind = s.get("kind")
        if kind == "CompoundStmt":
            return self.stmts(list(s.get("inner", [])), dict(env), k.with_next(self.scoped(env, k)))
        if kind == "NullStmt":
            return k.next(env)
        if kind == "AttributedStmt":
            subs = [c for c in s.get("inner", []) if "Stmt" in c.get("kind", "") or "Operator" in c.get("kind", "") or "Expr" in c.get("kind", "")]
            return self.stmts(subs, env, k)
        if kind == "DeclStmt":
            env = dict(env)
            pre = []
            for d in s["inner"]:
                if d.get("kind") != "VarDecl":
                    self.bad("declaration %s" % d.get("kind"), s)
                self.declare(d, env, pre)
            return with_pre(pre, k.next(env))
        if kind in ("BinaryOperator", "CompoundAssignOperator", "UnaryOperator", "CallExpr", "ParenExpr", "CStyleCastExpr", "ImplicitCastExpr"):
            env = dict(env)
            pre = []
            if kind == "CStyleCastExpr" and s.get("castKind") == "ToVoid":
                self.value(s["inner"][0], env, pre)
            else:
                self.value(s, env, pre)
            return with_pre(pre, k.next(env))
        if kind == "ReturnStmt":
            env = dict(env)
            pre = []
            val = None
            if s.get("inner"):
                t, ty = self.expr(s["inner"][0], env, pre)
                if ty != self.ret:
                    self.bad("type of the returned expression", s)
                val = t
            return with_pre(pre, k.ret_raw(self.result(env, val)))
        if kind == "BreakStmt":
            if k.brk is None:
                self.bad("break outside a loop or switch", s)
            return k.brk(env)
        if kind == "ContinueStmt":
            if k.cont is None:
                self.bad("continue outside a loop", s)
            return k.cont(env)
        if kind == "IfStmt":
            return self.if_stmt(s, env, k)
        if kind in ("WhileStmt", "DoStmt", "ForStmt"):
            return self.loop(s, env, k)
        if kind == "SwitchStmt":
            return self.switch(s, env, k)
        self.bad("statement %s" % kind, s)

    def declare(self, d, env, pre):
        t = parse_type_at(self, d)
        inits = [c for c in d.get("inner", []) if isinstance(c, dict) and c.get("kind", "").endswith(("Expr", "Operator", "Literal"))]
        self.cname[d["id"]] = d["name"]
        if d.get("storageClass") in ("static", "extern"):
            self.bad("static / extern local %s" % d["name"], d)
        if t[0] == "int":
            if not inits:
                env[d["id"]] = ("int", t[1:], None)
                return
            v = self.value(inits[0], env, pre)
            if v[0] not in ("i", "z") or v[2] != t[1:]:
                self.bad("initialiser type of %s" % d["name"], d)
            nm = self.fresh(d["name"])
            pre.append(("let", nm, v[1]))
            env[d["id"]] = ("int", t[1:], nm) + (("z",) if v[0] == "z" else ())
            return
        if t[0] == "ptr":
            if not inits:
                env[d["id"]] = ("ptr", t[1], None, None, None)
                return
            v = self.value(inits[0], env, pre)
            if v[0] != "p":
                self.bad("initialiser of pointer %s (NULL or not a pointer)" % d["name"], d)
            nm = self.fresh(d["name"])
            pre.append(("let", nm, v[2]))
            elem = t[1] if t[1] is not None else v[3]
            if t[1] is not None and v[3] is not None and t[1][0] != v[3][0]:
                self.bad("pointer %s initialised from another element width" % d["name"], d)
            env[d["id"]] = ("ptr", elem, v[1], nm, v[4])
            return
        self.bad("local %s of type %s" % (d["name"], t), d)

    def result(self, env, val):
        comps = ([val] if self.ret is not None else []) + [env[a][1] for a in self.outs]
        if not comps:
            return "tt"
        if len(comps) == 1:
            return comps[0]
        return "(%s)" % ", ".join(comps)

    def join(self, env, k, ids, build):
        """common part of if / switch without jumps: build(tupk) -> code whose leaves are tuples of the variables ids"""
        live = [i for i in ids if i in env]
        drop = set()
        while True:
            cur = [i for i in live if i not in drop]
            again = []
            seen = []

            def leaf(e, cur=cur, again=again, seen=seen):
                for i in cur:
                    if not self.defined(e[i]):
                        again.append(i)
                if again:
                    raise Retry()
                if seen and seen[0] != self.reps(e, cur):
                    raise Unsupported("a signed variable is carried in Z on one path and in N on another in %s" % self.name)
                seen.append(self.reps(e, cur))
                for i in cur:                       # pointer moved to another array in one arm only?
                    if e[i][0] == "ptr" and env[i][2] is not None and e[i][2] != env[i][2]:
                        raise Unsupported("pointer %s moves to another array in %s" % (self.cname[i], self.name))
                for a in e:
                    if a.startswith("arr:") and a not in env:
                        env[a] = e[a]
                    elif a.startswith("arr:") and env[a][2] is None and e[a][2] is not None:
                        env[a] = ("arr", env[a][1], e[a][2])
                t = self.tuple_of(e, cur)
                return ("ret", t[0] if len(t) == 1 else "(%s)" % ", ".join(t) if t else "tt")
            tupk = K(leaf, None, None, None)
            save_used, save_aux, save_nloop = set(self.used), list(self.aux), self.nloop
            try:
                code = build(tupk)
                break
            except Retry:
                drop.update(again)
                self.used, self.aux, self.nloop = save_used, save_aux, save_nloop
        env2 = dict(env)
        for i in live:
            if i in drop:
                v = env2[i]
                env2[i] = ("int", v[1], None) if v[0] == "int" else ("ptr", v[1], v[2], None, v[4])
        if seen:
            self.set_reps(env2, cur, seen[0])
        names = self.rebind(env2, cur)
        if not cur and pure(code):
            return k.next(env2)
        return ("bind", names, code, k.next(env2))

    def mod_ids(self, env, nodes):
        ids, mem = assigned_vars(nodes)
        res = [i for i in env if i in ids]
        if mem or has_kind({"inner": [x for x in nodes if x]}, ("CallExpr",)):
            refs = referenced_vars(nodes)
            arrs = []
            for i in refs:
                v = env.get(i)
                if v and v[0] == "ptr" and v[2] is not None and v[2] in self.outs and v[2] not in arrs:
                    arrs.append(v[2])
            # a pointer declared inside the region: its array is reached through the variables it is initialised from (in refs)
            res += [a for a in env if a in arrs]
        return res

    def if_stmt(self, s, env, k):
        parts = [c for c in s["inner"]]
        cnode, then = parts[0], parts[1]
        els = parts[2] if len(parts) > 2 else None
        env = dict(env)
        pre = []
        c, neg = self.cond(cnode, env, pre)
        flag, sense = self.nonnull_fact(cnode, env)
        e1, e2 = dict(env), dict(env)
        if flag is not None:
            (e1 if sense else e2)["@nn"] = env["@nn"] | {flag}
        if has_jump(then) or has_jump(els):
            a = self.stmt(then, e1, k)
            b = self.stmt(els, e2, k) if els is not None else k.next(e2)
            return with_pre(pre, ("if", c, neg, a, b))
        ids = self.mod_ids(env, [then, els])

        def build(tupk):
            a = self.stmt(then, dict(e1), tupk)
            b = self.stmt(els, dict(e2), tupk) if els is not None else tupk.next(dict(e2))
            return ("if", c, neg, a, b)
        return with_pre(pre, self.join(env, k, ids, build))

    def switch(self, s, env, k):
        cnode, body = s["inner"][0], s["inner"][-1]
        if body.get("kind") != "CompoundStmt":
            self.bad("switch body", s)
        env = dict(env)
        pre = []
        term, ty = self.expr(cnode, env, pre)
        sw = self.fresh("sw")
        pre.append(("let", sw, term))
        flat, labels, default = [], [], None
        for st in body.get("inner", []):
            while st.get("kind") in ("CaseStmt", "DefaultStmt"):
                if st["kind"] == "CaseStmt":
                    if len(st["inner"]) != 2:
                        self.bad("case range", st)
                    v = self.const_of(st["inner"][0])
                    if v is None:
                        self.bad("case label that is not an integer literal", st)
                    labels.append((v, len(flat)))
                    st = st["inner"][1]
                else:
                    default = len(flat)
                    st = st["inner"][0]
            if st.get("kind") == "DeclStmt":
                self.bad("declaration inside a switch body", st)
            flat.append(st)
        if has_kind(body, ("ReturnStmt", "GotoStmt")) or has_kind(body, ("ContinueStmt",), stop=("WhileStmt", "DoStmt", "ForStmt")):
            k2 = K(k.next, k.ret_raw, k.next, k.cont)
            code = k2.next(env) if default is None else self.stmts(flat[default:], dict(env), k2)
            for v, pos in reversed(labels):
                code = ("if", "%s =? %s" % (sw, lit(v)), False, self.stmts(flat[pos:], dict(env), k2), code)
            return with_pre(pre, code)
        ids = self.mod_ids(env, [body])

        def build(tupk):
            k2 = K(tupk.next, None, tupk.next, None)
            code = k2.next(dict(env)) if default is None else self.stmts(flat[default:], dict(env), k2)
            for v, pos in reversed(labels):
                code = ("if", "%s =? %s" % (sw, lit(v)), False, self.stmts(flat[pos:], dict(env), k2), code)
            return code
        return with_pre(pre, self.join(env, k, ids, build))

    def loop(self, s, env, k):
        kind = s["kind"]
        inner = s["inner"]
        if kind == "ForStmt":
            init, _condvar, cnode, inc, body = inner
            init = init if init.get("kind") else None             # absent parts are empty objects
            cnode = cnode if cnode.get("kind") else None
            inc = inc if inc.get("kind") else None
            if init is not None:
                # the init statement runs once, in a scope of its own
                return self.stmt(init, dict(env), K(lambda e: self.loop_core("for", cnode, inc, body, e, k.with_next(self.scoped(env, k)), s),
                                                    k.ret_raw, k.brk, k.cont))
            return self.loop_core("for", cnode, inc, body, env, k, s)
        if kind == "WhileStmt":
            return self.loop_core("while", inner[0], None, inner[1], env, k, s)
        return self.loop_core("do", inner[1], None, inner[0], env, k, s)

    def loop_core(self, kind, cnode, inc, body, env, k, s):
        env = dict(env)
        nodes = [cnode, inc, body]
        self.nloop += 1
        idx = self.nloop
        lname = "%s_loop%d" % (self.name, idx)
        fuel = self.fuel[idx - 1] if idx - 1 < len(self.fuel) and self.fuel[idx - 1] else DEFAULT_FUEL
        mod = self.mod_ids(env, nodes)
        refs = referenced_vars(nodes)
        returns = has_kind({"inner": [x for x in nodes if x]}, ("ReturnStmt",))
        if has_kind({"inner": [x for x in nodes if x]}, ("GotoStmt",)):
            self.bad("goto", s)
        state_in = [i for i in mod if self.defined(env[i])]
        # read-only inputs: variables mentioned in the loop, the arrays their pointers point into, null flags
        ro = []
        for i in env:
            if i in refs and i not in mod and not i.startswith("arr:") and i != "@nn" and self.defined(env[i]):
                if env[i][0] == "ptr" and env[i][3] == "0":
                    continue                      # a pointer parameter that never moves: its offset is the literal 0
                ro.append(i)
        arrs = []
        for i in refs:
            v = env.get(i)
            if v and v[0] == "ptr" and v[2] is not None and v[2] not in arrs and v[2] not in mod:
                arrs.append(v[2])
        if returns:
            for a in self.outs:                   # `return e;` inside the loop builds the function's result, output buffers included
                if a not in mod and a not in arrs:
                    arrs.append(a)
        flags = []
        for i in refs:
            v = env.get(i)
            if v and v[0] == "ptr" and v[4] is not None and v[4] not in flags:
                flags.append(v[4])
        drop = set()
        save_used, save_aux, save_nloop = set(self.used), list(self.aux), self.nloop
        while True:
            state_out = [i for i in mod if i not in drop]
            again = []
            learnt = {}
            seen_out = []

            def tup(e, ids):
                t = self.tuple_of(e, ids)
                return t[0] if len(t) == 1 else "(%s)" % ", ".join(t) if t else "tt"

            def exit_(e):
                for i in state_out:
                    if not self.defined(e[i]):
                        again.append(i)
                if again:
                    raise Retry()
                for a in e:
                    if a.startswith("arr:"):
                        learnt[a] = e[a]
                if seen_out and seen_out[0] != self.reps(e, state_out):
                    raise Unsupported("a signed variable leaves a loop of %s carried in Z on one path and in N on another" % self.name)
                seen_out.append(self.reps(e, state_out))
                return ("ret", ("inl %s" % par(tup(e, state_out))) if returns else tup(e, state_out))

            def recur(e):
                for a in e:
                    if a.startswith("arr:"):
                        learnt[a] = e[a]
                for i in state_in:
                    if e[i][0] == "ptr" and e[i][2] != env[i][2]:
                        raise Unsupported("pointer %s moves to another array inside a loop of %s" % (self.cname[i], self.name))
                if self.reps(e, state_in) != self.reps(env, state_in):
                    raise Unsupported("a signed variable changes between N and Z inside a loop of %s" % self.name)
                args = [flags_ for flags_ in flags] + self.tuple_of(env, ro) + [env[a][1] for a in arrs] + self.tuple_of(e, state_in)
                return ("raw", " ".join([lname, "fuel"] + args))

            kret = (lambda res: ("ret", "inr %s" % par(res)))

            def head(e):
                """evaluate the condition, run the body or leave (while / for); for `do`: decide whether to go round again"""
                e = dict(e)
                p = []
                if cnode is None:
                    c, neg = "true", False
                else:
                    c, neg = self.cond(cnode, e, p)
                return with_pre(p, ("if", c, neg, recur(e), exit_(e)))

            try:
                if kind == "do":
                    kb = K(head, kret, exit_, head)
                    code = self.stmt(body, dict(env), kb)
                else:
                    # one round: test, body, increment, recursive call
                    def round_(e):
                        e = dict(e)
                        p = []
                        if cnode is None:
                            c, neg = "true", False
                        else:
                            c, neg = self.cond(cnode, e, p)

                        def cont(e2):
                            e2 = {a: b for a, b in e2.items() if a in env or a.startswith("arr:")}
                            if inc is not None:
                                e2 = dict(e2)
                                p2 = []
                                self.value(inc, e2, p2)
                                return with_pre(p2, recur(e2))
                            return recur(e2)
                        kb = K(cont, kret, exit_, cont)
                        return with_pre(p, ("if", c, neg, self.stmt(body, dict(e), kb), exit_(e)))
                    code = round_(env)
                break
            except Retry:
                drop.update(again)
                self.used, self.aux, self.nloop = set(save_used), list(save_aux), save_nloop
        for a, v in learnt.items():
            if a in env and env[a][2] is None and v[2] is not None:
                env[a] = ("arr", env[a][1], v[2])
            elif a not in env:
                env[a] = v
        # the Fixpoint
        params = []
        for f in flags:
            params.append("(%s : bool)" % f)
        for i in ro:
            params.append("(%s : %s)" % (self.tuple_of(env, [i])[0], self.gtype(env[i])))
        for a in arrs:
            params.append("(%s : list N)" % env[a][1])
        for i in state_in:
            params.append("(%s : %s)" % (self.tuple_of(env, [i])[0], self.gtype(env[i])))
        out_env = dict(env)
        if seen_out:
            self.set_reps(out_env, state_out, seen_out[0])
        st_ty = " * ".join(self.gtype(out_env[i]) for i in state_out) if state_out else "unit"
        if returns:
            st_ty = "(%s) + %s" % (st_ty, self.result_type())
        text = "Fixpoint %s (fuel : nat) %s {struct fuel} : option (%s) :=\n  match fuel with\n  | O => None\n  | S fuel =>\n%s\n  end.\n" % (
            lname, " ".join(params), st_ty, render(code, 2))
        self.aux.append(text)
        # the call
        env2 = dict(env)
        for i in mod:
            if i in drop:
                v = env2[i]
                env2[i] = ("int", v[1], None) if v[0] == "int" else ("ptr", v[1], v[2], None, v[4])
        args = flags + self.tuple_of(env, ro) + [env[a][1] for a in arrs] + self.tuple_of(env, state_in)
        callt = ("raw", " ".join([lname, par(fuel)] + args))
        if seen_out:
            self.set_reps(env2, state_out, seen_out[0])
        names = self.rebind(env2, state_out)
        if not returns:
            return ("bind", names, callt, k.next(env2))
        r = self.fresh("res")
        o = self.fresh("out")
        return ("bind", [r], callt, ("case", r, [("inl %s" % pat(names, True), k.next(env2)), ("inr %s" % o, k.ret_raw(o))]))

    def struct_fields(self, p):
        q = (p["type"].get("desugaredQualType") or p["type"].get("qualType")).strip()
        if not q.endswith("*") or q.count("*") != 1:
            return None
        base = base_type(" ".join(w for w in q[:-1].split() if w not in ("const", "volatile")), self.tu)
        if not base.startswith("struct "):
            return None
        return self.tu.records.get(base[len("struct "):].strip())

    def result_type(self):
        comps = (["N"] if self.ret is not None else []) + ["list N" for _ in self.outs]
        if not comps:
            return "unit"
        return comps[0] if len(comps) == 1 else "(%s)" % " * ".join(comps)

    # ---- the function
    def translate(self):
        node = self.node
        annotate_lines(node)
        params = [c for c in node.get("inner", []) if c.get("kind") == "ParmVarDecl"]
        body = [c for c in node["inner"] if c.get("kind") == "CompoundStmt"]
        if not body:
            raise Unsupported("%s has no body" % self.name)
        body = body[0]
        if node.get("variadic"):
            raise Unsupported("%s is variadic" % self.name)
        rt = node["type"]["qualType"].split("(")[0].strip()
        rty = parse_type({"qualType": rt}, self.tu)
        if rty[0] == "void":
            self.ret = None
        elif rty[0] == "int":
            self.ret = rty[1:]
        else:
            raise Unsupported("%s returns %s" % (self.name, rt))
        for m in walk(body):
            if m.get("kind") == "UnaryOperator" and m.get("opcode") == "&":
                self.bad("address-of", m)
        # which pointer parameters does the function test?
        tested = set()
        for m in walk(body):
            kd = m.get("kind")
            cands = []
            if kd in ("IfStmt", "WhileStmt", "ConditionalOperator"):
                cands.append(m["inner"][0])
            elif kd == "DoStmt":
                cands.append(m["inner"][1])
            elif kd == "ForStmt" and m["inner"][2].get("kind"):
                cands.append(m["inner"][2])
            elif kd == "UnaryOperator" and m.get("opcode") == "!":
                cands.append(m["inner"][0])
            elif kd == "BinaryOperator" and m.get("opcode") in ("&&", "||", "==", "!="):
                cands += m["inner"]
            for c in cands:
                c = strip_paren(c)
                if c.get("kind") == "DeclRefExpr":
                    tested.add(c["referencedDecl"]["id"])
        for m in walk(body):                # a pointer handed to a translated callee that tests it may be NULL as well
            if m.get("kind") == "CallExpr":
                c0 = m["inner"][0]
                while c0.get("kind") in ("ImplicitCastExpr", "ParenExpr"):
                    c0 = c0["inner"][0]
                sg = self.tu.sigs.get(c0.get("referencedDecl", {}).get("name")) if c0.get("kind") == "DeclRefExpr" else None
                if sg:
                    for a, sp in zip(m["inner"][1:], sg["params"]):
                        if sp.get("kind") == "ptr" and sp.get("nullable"):
                            while a.get("kind") in ("ImplicitCastExpr", "ParenExpr", "CStyleCastExpr"):
                                a = a["inner"][-1]
                            if a.get("kind") == "DeclRefExpr":
                                tested.add(a["referencedDecl"]["id"])
        changed = True
        while changed:                      # a local pointer initialised from a parameter and tested: the parameter is nullable
            changed = False
            for m in walk(body):
                if m.get("kind") == "VarDecl" and m["id"] in tested:
                    for c in m.get("inner", []) or []:
                        r = root_var(c) if isinstance(c, dict) and c.get("kind", "").endswith(("Expr", "Operator")) else None
                        if r is not None and r not in tested:
                            tested.add(r)
                            changed = True
        env = {"@nn": frozenset()}
        self.outs, self.local_arrs, self.arrbase, self.cellw = [], [], {}, {}
        gparams, sigparams = [], []
        for p in params:
            if "name" not in p:
                raise Unsupported("%s: unnamed parameter" % self.name)
            try:
                t = parse_type_at(self, p)
            except Unsupported:
                fields = self.struct_fields(p)
                if fields is None:
                    raise
                # a pointer to a structure, used for reading its members: one Gallina parameter per member, in declaration order
                for f in fields:
                    ft = parse_type(f["type"], self.tu)
                    fn = self.fresh("%s_%s" % (p["name"], f["name"]))
                    key = "fld:%s:%s" % (p["id"], f["name"])
                    self.cname[key] = fn
                    if ft[0] == "int":
                        env[key] = ("int", ft[1:], fn)
                        gparams.append("(%s : N)" % fn)
                    elif ft[0] == "ptr":
                        akey = "arr:" + key
                        env[akey] = ("arr", fn, ft[1][0] if ft[1] is not None else None)
                        self.arrbase[akey] = fn
                        env[key] = ("ptr", ft[1], akey, "0", None)
                        gparams.append("(%s : list N)" % fn)
                    else:
                        raise Unsupported("%s: member %s of type %s" % (self.name, f["name"], ft))
                sigparams.append({"kind": "struct"})
                continue
            nm = self.fresh(p["name"])
            self.cname[p["id"]] = p["name"]
            if t[0] == "int":
                env[p["id"]] = ("int", t[1:], nm)
                gparams.append("(%s : N)" % nm)
                sigparams.append({"kind": "int", "ty": t[1:]})
            elif t[0] == "ptr":
                key = "arr:" + p["id"]
                flag = None
                if p["id"] in tested:
                    flag = self.fresh(p["name"] + "_null")
                    gparams.append("(%s : bool)" % flag)
                gparams.append("(%s : list N)" % nm)
                env[key] = ("arr", nm, t[1][0] if t[1] is not None else None)
                self.arrbase[key] = nm
                self.used.add(nm + "_o")
                env[p["id"]] = ("ptr", t[1], key, "0", flag)
                if not t[2]:
                    self.outs.append(key)
                sigparams.append({"kind": "ptr", "nullable": flag is not None, "out": not t[2], "key": key})
            else:
                raise Unsupported("%s: parameter %s of type %s" % (self.name, p["name"], t))
        k = K(lambda e: ("ret", self.result(e, None)) if self.ret is None else ("fail",), lambda res: ("ret", res))
        if self.ret is not None:
            def fell_off(e):
                raise Unsupported("%s: control reaches the end of a non-void function" % self.name)
            k = K(fell_off, lambda res: ("ret", res))
        code = self.stmt(body, env, k)
        for sp in sigparams:
            if sp["kind"] == "ptr":
                sp["cellw"] = self.cellw.get(sp["key"], None)
                if sp["cellw"] is None:
                    # never accessed here: take the declared element type if there is one
                    for p in params:
                        if "arr:" + p["id"] == sp["key"]:
                            t = parse_type_at(self, p)
                            sp["cellw"] = t[1][0] if t[1] is not None else None
        text = "".join(a + "\n" for a in self.aux)
        text += "Definition %s %s : option %s :=\n%s.\n" % (self.name, " ".join(gparams), par(self.result_type()), render(code, 1))
        sig = {"params": sigparams, "ret": self.ret, "outs": len(self.outs)}
        return text, sig


def parse_type_at(fn, n):
    try:
        return parse_type(n["type"], fn.tu)
    except Unsupported as e:
        raise Unsupported("%s at %s" % (e, fn.where(n)))


class TU:
    def __init__(self, ast):
        self.funcs, self.globals, self.typedefs, self.sigs, self.records = {}, {}, {}, {}, {}
        for n in ast.get("inner", []):
            kd = n.get("kind")
            if kd == "FunctionDecl" and any(c.get("kind") == "CompoundStmt" for c in n.get("inner", [])):
                self.funcs[n["name"]] = n
            elif kd == "TypedefDecl":
                self.typedefs[n["name"]] = n["type"]
            elif kd == "RecordDecl" and n.get("completeDefinition") and n.get("tagUsed") == "struct" and n.get("name"):
                self.records[n["name"]] = [c for c in n.get("inner", []) if c.get("kind") == "FieldDecl"]
            elif kd == "VarDecl":
                self.note_global(n)

    def note_global(self, n):
        """file-scope `static const T name[] = {literals}`"""
        q = n["type"].get("desugaredQualType") or n["type"].get("qualType")
        if "[" not in q or "const" not in q.split("[")[0].split():
            return
        base = base_type(" ".join(w for w in q.split("[")[0].split() if w not in ("const", "volatile")), self)
        if base not in INT_TYPES:
            return
        init = [c for c in n.get("inner", []) if c.get("kind") == "InitListExpr"]
        if not init:
            return
        vals = []
        for c in init[0].get("inner", []):
            m = c
            while m.get("kind") in ("ImplicitCastExpr", "ParenExpr", "ConstantExpr", "CStyleCastExpr"):
                m = m["inner"][0]
            if m.get("kind") != "IntegerLiteral":
                return
            vals.append(int(m["value"]))
        w, s = INT_TYPES[base]
        if any(v < 0 or v >= (1 << w) for v in vals):
            return
        try:
            count = int(q.split("[")[1].split("]")[0])
        except ValueError:
            return
        vals += [0] * (count - len(vals))
        self.globals[n["id"]] = {"id": n["id"], "name": n["name"], "elem": (w, s), "vals": vals}


def translate_file(path, include, cfg, names, fuel=None, tu_sigs=None, emitted_globals=None):
    """-> (Gallina text of the requested functions in the given order, {name: error}).  tu_sigs: signatures of functions
    translated from earlier files of the same run (calls across files)."""
    tu = TU(load_ast(path, include, cfg))
    if tu_sigs is not None:
        tu.sigs = tu_sigs
    emitted_globals = emitted_globals if emitted_globals is not None else set()
    out, errs = [], {}
    for nm in names:
        if nm not in tu.funcs:
            errs[nm] = "function %s not found with a body in %s (configuration changed?)" % (nm, path)
            continue
        try:
            f = Fn(tu.funcs[nm], tu, (fuel or {}).get(nm))
            text, sig = f.translate()
            for g in f.glob_used:
                if g["name"] not in emitted_globals:
                    emitted_globals.add(g["name"])
                    out.append("Definition %s : list N :=\n  [%s].\n" % (g["name"], "; ".join(lit(v) for v in g["vals"])))
            out.append(text)
            tu.sigs[nm] = sig
        except Unsupported as e:
            errs[nm] = str(e)
        except RecursionError:
            errs[nm] = "translator recursion limit in %s" % nm
    return "\n".join(out), errs


if __name__ == "__main__":
    # c2int.py <file.c> <include dir> <cfg header> f g h ...   (absolute paths)
    t, e = translate_file(sys.argv[1], sys.argv[2], sys.argv[3], sys.argv[4:])
    print(PRELUDE + t)
    for k_, v_ in e.items():
        print("(* ERROR %s: %s *)" % (k_, v_))
