#!/usr/bin/env python3
"""c2vec: translate the functions of src/vec.c, src/buf.c (with the inline functions of a/vec.h, a/buf.h) and a_swap of src/a.c
(clang JSON AST) into Gallina over the vocabulary of coq/C04/VecDefs.v (property C04).  The output is a module `Gen.VecGen` that is
regenerated from the CURRENT sources on every run and proved equal to the hand-written model by harness/C04/TieVec*.v.

What a C function becomes
-------------------------
State.  Every function is translated over the record `cst`: the allocator state (`heap` of VecDefs.v), `c_self` (the block the
structure itself lives in = the pointer ctx as a block id, None = NULL), the header fields (`ptr_` = block id or None, `siz_`,
`num_`, `mem_`), the storage as the model's list of element slots, and two logs (allocator events, elements handed to the
destructor).  The container is `a_vec *ctx` / `a_vec const *ctx`; in buf.c the first parameter `void *ctx` / `void *ctx_` /
`a_buf *ctx` and the local `a_buf *const ctx = (a_buf *)ctx_`.  The state is threaded in SSA style: `st'0` is the parameter,
every write gives `st'k`.
      ctx->num_            (c_num st'k)                      ctx->num_ = e      let st'j := set_num st'k e in
      ctx->siz_ = e        set_siz: the slot list is re-cut at the new element size (the bytes stay)
      if (ctx)             nonnull (c_self st'k)             return ctx         c_self st'k
Results are `res` of VecDefs.v (`Ok` / `Err OutOfBounds|OutOfFuel|Misaligned|Overlap`), sequenced by VecDefs.bind; a function
returns `res (cst * value)` (`res cst` when void).

Values.  `a_size` (desugared `unsigned long`) is N; every + - * is wadd / wsub / wmul (explicit mod 2^64, as the AST types the
operation), / and % are N division (C: undefined for a zero divisor; N: 0 - NOT flagged), >> << & | ^ ~ are wshr wshl wand wor
wxor wnot, comparisons N.ltb / N.leb / N.eqb (`a > b` is written `b <? a`).  `int` values (return codes) are N as well but only
literals, enumeration constants (numeric value computed from the EnumDecl), assignment and ==/!= are supported.  `a_diff` is its
64-bit pattern (only `>= 0`, `< 0` and the conversion to a_size are supported).  sizeof(T *) is 8, sizeof(a_vec) / sizeof(a_buf)
are computed from the RecordDecl (members checked to be 8-byte scalars, in the order the translator knows).
Pointers into the storage are BYTE OFFSETS from its base: `(a_byte *)ctx->ptr_`, `(a_byte *)(ctx + 1)` and `a_buf_ptr(ctx)` are
`base` (= 0), `p + n` is `padd p n`, `p - n` `psub p n`, `(a_size)(p - q)` `pdiff p q` (all mod 2^64: the model's convention).
A function whose result can be the null pointer returns `option N` (None = NULL); `ctx->ptr_` returned as a pointer is
`blk_base` (Some base when it is not null).  Every memory access goes through the model's checked accessors:
      a_move(d, s, n)   mem_move st d s n  (sl_move)        a_copy   mem_copy (sl_copy)       a_swap   mem_swap (sl_swap)
      *p (a_byte)       ld_byte / st_byte on the flattened slots, bounds checked        (the body of a_swap itself)
      dtor(p)           call_dtor st p     (sl_read; the element is appended to the destructor log)
      cmp(a, b) > 0     ld_elem (sl_read) of the arguments that point into the storage, then `gtb cmp x y`
      a_alloc(ctx->ptr_, n)   alloc_store st n   (VecDefs.a_alloc on the block ptr_; on success the slots are resize_slots'ed)
      a_alloc(ctx, n)         alloc_ctx st n (vector: the structure alone) / alloc_self st hdr n (buffer: header + storage)
      a_alloc(NULL, n)        alloc_new st n (a fresh structure, no storage) / alloc_new_self st hdr n (fresh bytes as 1-byte slots)
      qsort / bsearch on the storage   lib_qsort / lib_bsearch = the model's insertion sort / lookup (base and width checked)
a_copy / a_move are accepted only after their bodies in src/a.c have been checked to be `return memcpy/memmove(dst, src, siz)`.
Parameters: a function pointer `dtor` / `copy` is a bool (null or not) and the calls above; `cmp` is a Gallina function
`elem -> elem -> comparison`; a `void const *` parameter is ONE outside element (its content: `elem`); a `void *` parameter that
is not the container is an outside ARRAY (`list elem`, pointers into it are byte offsets; `a_copy(p, arr, n)` is `ext_copy` =
sl_write_many of the whole array, `copy(p, q)` is `call_copy` = checked read of the element at q, sl_write at p, result 0).

Control.  if / else, ?: (term-level `if` when both arms are free of effects, otherwise by duplicating the continuation),
early `return`, && || (andb / orb on effect-free operands, nested tests otherwise), `,`, ++ -- += -= *= /= on locals and header
fields.  Statements are translated in continuation style: what follows an `if` appears in both arms, except `if (c) x = e;`
(arms nothing but effect-free assignments to locals), which becomes `let x' := if c then e else x`.  Operands are evaluated
left to right; an expression in which one operand writes what the other reads or writes is Unsupported (unsequenced in C).
Loops (`while`, `do`, `for`, with break / continue) each become a top-level
      Fixpoint <function>_loop<k> (fuel : nat) [st : cst] <variables the loop uses> {struct fuel} : res (...)
one unit of fuel per iteration; every loop has its OWN fuel parameter `fuel_<function>_loop<k>`, which the function and every
function that calls it take as leading arguments (the model runs its loops on stated fuels).  `return` inside a loop and nested
loops are Unsupported.

Anything else (other types, address-of, arrays, struct assignment - a_vec_swap -, goto, switch, calls to unknown functions ...)
raises Unsupported with function and line - nothing is approximated silently."""
import json
import subprocess
import sys

PRELUDE = """(* GENERATED by tools/c2vec.py from the current sources - do not edit. *)
From Coq Require Import NArith List Bool.
From LibaV Require Import C04.VecDefs.
Import ListNotations.
Local Open Scope N_scope.

(* ---- vocabulary of the generated code ---- *)
(* the container a function works on: allocator, header fields, storage as element slots, logs *)
Record cst := mkC { c_heap : heap; c_self : option N; c_ptr : option N; c_siz : N; c_num : N; c_mem : N; c_sl : list elem;
                    c_ev : list event; c_dt : list elem }.
(* c_self: the block the structure itself lives in (the pointer ctx as a block id; None = NULL);  c_ptr: the field ptr_ of a_vec *)
Definition set_self (s : cst) (p : option N) : cst := mkC (c_heap s) p (c_ptr s) (c_siz s) (c_num s) (c_mem s) (c_sl s) (c_ev s) (c_dt s).
Definition set_ptr (s : cst) (p : option N) : cst := mkC (c_heap s) (c_self s) p (c_siz s) (c_num s) (c_mem s) (c_sl s) (c_ev s) (c_dt s).
Definition set_num (s : cst) (n : N) : cst := mkC (c_heap s) (c_self s) (c_ptr s) (c_siz s) n (c_mem s) (c_sl s) (c_ev s) (c_dt s).
Definition set_mem (s : cst) (m : N) : cst := mkC (c_heap s) (c_self s) (c_ptr s) (c_siz s) (c_num s) m (c_sl s) (c_ev s) (c_dt s).
Definition set_sl (s : cst) (sl : list elem) : cst := mkC (c_heap s) (c_self s) (c_ptr s) (c_siz s) (c_num s) (c_mem s) sl (c_ev s) (c_dt s).
(* a new element size: the same bytes, cut into slots of the new size *)
Definition recut (z : N) (sl : list elem) : list elem :=
  chunk (N.to_nat z) (N.to_nat (nlen (concat sl) / z)) (concat sl).
Definition set_siz (s : cst) (z : N) : cst :=
  mkC (c_heap s) (c_self s) (c_ptr s) z (c_num s) (c_mem s) (recut z (c_sl s)) (c_ev s) (c_dt s).
Definition log_dt (s : cst) (e : elem) : cst :=
  mkC (c_heap s) (c_self s) (c_ptr s) (c_siz s) (c_num s) (c_mem s) (c_sl s) (c_ev s) (c_dt s ++ [e]).

(* machine words *)
Definition wnot (x : N) : N := wsub (W - 1) x.
Definition wand (a b : N) : N := N.land a b.
Definition wor (a b : N) : N := N.lor a b.
Definition wxor (a b : N) : N := N.lxor a b.
Definition wshr (a k : N) : N := N.shiftr a k.
Definition wshl (a k : N) : N := N.shiftl a k mod W.
Definition wdiv (a b : N) : N := a / b.
Definition wmod (a b : N) : N := a mod b.
Definition truth (x : N) : bool := negb (x =? 0).
Definition dnonneg (x : N) : bool := x <? HALF.          (* a_diff as its 64-bit pattern: x >= 0 *)
Definition nonnull {A : Type} (p : option A) : bool := match p with Some _ => true | None => false end.

(* pointers into the storage: byte offsets from its base *)
Definition base : N := 0.
Definition blk_base (p : option N) : option N := match p with Some _ => Some base | None => None end.   (* ptr_ as a pointer *)
Definition padd (p n : N) : N := wadd p n.
Definition psub (p n : N) : N := wsub p n.
Definition pdiff (p q : N) : N := wsub p q.

(* memory accesses: the model's checked accessors on the slots of the state *)
Definition mem_move (s : cst) (dst src n : N) : res cst :=
  bind (sl_move (c_siz s) (c_sl s) dst src n) (fun sl => Ok (set_sl s sl)).
Definition mem_copy (s : cst) (dst src n : N) : res cst :=
  bind (sl_copy (c_siz s) (c_sl s) dst src n) (fun sl => Ok (set_sl s sl)).
Definition mem_swap (s : cst) (lhs rhs n : N) : res cst :=
  bind (sl_swap (c_siz s) (c_sl s) lhs rhs n) (fun sl => Ok (set_sl s sl)).
Definition call_dtor (s : cst) (p : N) : res cst :=
  bind (sl_read (c_siz s) (c_sl s) p) (fun e => Ok (log_dt s e)).

(* an element read for the comparison callback; cmp(a, b) > 0 is [gtb cmp x y] on the two elements *)
Definition ld_elem (s : cst) (p : N) : res elem := sl_read (c_siz s) (c_sl s) p.
(* memcpy(base + dst, arr + off, n) from an array outside the container: modelled for the whole array only *)
Definition ext_copy (s : cst) (dst : N) (vs : list elem) (off n : N) : res cst :=
  if (off =? 0) && (n =? wmul (c_siz s) (nlen vs))
  then bind (sl_write_many (c_siz s) (c_sl s) dst vs) (fun sl => Ok (set_sl s sl))
  else Err OutOfBounds.
(* the copy callback of store: reads the element at byte offset off of the outside array, writes it at p, answers 0 *)
Definition ext_elem (z : N) (vs : list elem) (off : N) : res elem :=
  bind (slot_of z off) (fun k => if k <? nlen vs then Ok (nth (N.to_nat k) vs []) else Err OutOfBounds).
Definition call_copy (s : cst) (p : N) (vs : list elem) (off : N) : res (cst * N) :=
  bind (ext_elem (c_siz s) vs off) (fun e =>
  bind (sl_write (c_siz s) (c_sl s) p e) (fun sl => Ok (set_sl s sl, 0))).
(* qsort(base, n, z, cmp) on the storage: the model's insertion sort of the first n slots *)
Definition lib_qsort (s : cst) (cmp : elem -> elem -> comparison) (p n z : N) : res cst :=
  if (p =? base) && (z =? c_siz s)
  then (if n <=? nlen (c_sl s)
        then Ok (set_sl s (isort cmp (firstn (N.to_nat n) (c_sl s)) ++ skipn (N.to_nat n) (c_sl s)))
        else Err OutOfBounds)
  else Err Misaligned.
(* bsearch(key, base, n, z, cmp): the model's lookup among the first n slots; the result is the element found (what the
   harness compares), not its address *)
Definition lib_bsearch (s : cst) (cmp : elem -> elem -> comparison) (key : elem) (p n z : N) : res (option elem) :=
  if (p =? base) && (z =? c_siz s)
  then (if n <=? nlen (c_sl s)
        then Ok (find (fun e => match cmp key e with Eq => true | _ => false end) (firstn (N.to_nat n) (c_sl s)))
        else Err OutOfBounds)
  else Err Misaligned.

(* *p on a byte pointer into the storage: the flattened slots, bounds checked *)
Definition ld_byte (s : cst) (p : N) : res byte :=
  let b := concat (c_sl s) in if p <? nlen b then Ok (nth (N.to_nat p) b 0) else Err OutOfBounds.
Definition st_byte (s : cst) (p : N) (v : byte) : res cst :=
  let b := concat (c_sl s) in
  if p <? nlen b then Ok (set_sl s (chunk (N.to_nat (c_siz s)) (length (c_sl s)) (upd b (N.to_nat p) v))) else Err OutOfBounds.

(* a_alloc(ctx->ptr_, size): the block of the storage; realloc keeps the common prefix of the slots *)
Definition alloc_store (s : cst) (size : N) : cst * option N :=
  let '(p, h, ev) := a_alloc (c_heap s) (c_ptr s) size in
  (mkC h (c_self s) (c_ptr s) (c_siz s) (c_num s) (c_mem s)
       (match p with Some _ => resize_slots (c_siz s) (c_sl s) size | None => c_sl s end)
       (c_ev s ++ ev) (c_dt s), p).
(* a_alloc(ctx, size) of a vector: the block of the structure alone (the storage is another block) *)
Definition alloc_ctx (s : cst) (size : N) : cst * option N :=
  let '(p, h, ev) := a_alloc (c_heap s) (c_self s) size in
  (mkC h (match p with Some _ => p | None => c_self s end) (c_ptr s) (c_siz s) (c_num s) (c_mem s) (c_sl s)
       (c_ev s ++ ev) (c_dt s), p).
(* a_alloc(ctx, size) of a buffer: the block holds the header (hdr bytes, kept by realloc) and the storage *)
Definition alloc_self (s : cst) (hdr size : N) : cst * option N :=
  let '(p, h, ev) := a_alloc (c_heap s) (c_self s) size in
  (mkC h (match p with Some _ => p | None => c_self s end) (c_ptr s) (c_siz s) (c_num s) (c_mem s)
       (match p with Some _ => resize_slots (c_siz s) (c_sl s) (size - hdr) | None => c_sl s end)
       (c_ev s ++ ev) (c_dt s), p).
(* a_alloc(NULL, size) for a new vector structure: a fresh block, which owns no storage; its fields are whatever they were *)
Definition alloc_new (s : cst) (size : N) : cst * option N :=
  let '(p, h, ev) := a_alloc (c_heap s) None size in
  (match p with
   | Some _ => mkC h p (c_ptr s) (c_siz s) (c_num s) (c_mem s) [] (c_ev s ++ ev) (c_dt s)
   | None => mkC h (c_self s) (c_ptr s) (c_siz s) (c_num s) (c_mem s) (c_sl s) (c_ev s ++ ev) (c_dt s)
   end, p).
(* a_alloc(NULL, size) for a new buffer: header and size - hdr fresh bytes, seen as one-byte slots until siz_ is written *)
Definition alloc_new_self (s : cst) (hdr size : N) : cst * option N :=
  let '(p, h, ev) := a_alloc (c_heap s) None size in
  (match p with
   | Some _ => mkC h p (c_ptr s) 1 (c_num s) (c_mem s) (resize_slots 1 [] (size - hdr)) (c_ev s ++ ev) (c_dt s)
   | None => mkC h (c_self s) (c_ptr s) (c_siz s) (c_num s) (c_mem s) (c_sl s) (c_ev s ++ ev) (c_dt s)
   end, p).

"""

BYTEP = ("unsignedchar*", "char*", "a_byte*", "void*")
FIELDS = {"siz_": "siz", "num_": "num", "mem_": "mem"}      # a_size fields of a_vec / a_buf; ptr_ is handled apart
WORD_TYPES = ("unsigned long",)
UNITS = {
    "vec": {"src": "vec.c", "ctx_types": ("a_vec*",), "void_ctx": False, "struct": "a_vec",
            "record_fields": ["ptr_", "siz_", "num_", "mem_"]},
    "buf": {"src": "buf.c", "ctx_types": ("a_buf*",), "void_ctx": True, "struct": "a_buf",
            "record_fields": ["num_", "mem_", "siz_"]},
}
UNITS["a"] = {"src": "a.c", "ctx_types": (), "void_ctx": False, "struct": None, "record_fields": [], "no_ctx": True}
A_FUNCS = ["a_swap"]
VEC_FUNCS = ["a_vec_ptr", "a_vec_siz", "a_vec_num", "a_vec_mem", "a_vec_at_", "a_vec_at", "a_vec_of", "a_vec_top_", "a_vec_top",
             "a_vec_end_", "a_vec_end", "a_vec_inc_", "a_vec_dec_", "a_vec_ctor", "a_vec_new", "a_vec_setm", "a_vec_setn",
             "a_vec_setz", "a_vec_dtor", "a_vec_die", "a_vec_insert", "a_vec_push_fore", "a_vec_push_back", "a_vec_push",
             "a_vec_remove", "a_vec_pull_fore", "a_vec_pull_back", "a_vec_pull", "a_vec_erase", "a_vec_store", "a_vec_sort", "a_vec_sort_fore",
             "a_vec_sort_back", "a_vec_push_sort", "a_vec_search"]
BUF_FUNCS = ["a_buf_num", "a_buf_mem", "a_buf_siz", "a_buf_ptr", "a_buf_at_", "a_buf_at", "a_buf_of", "a_buf_top_", "a_buf_top",
             "a_buf_end", "a_buf_inc_", "a_buf_dec_", "a_buf_ctor", "a_buf_new", "a_buf_setm", "a_buf_setn", "a_buf_setz",
             "a_buf_dtor", "a_buf_die", "a_buf_insert", "a_buf_push_fore", "a_buf_push_back", "a_buf_push", "a_buf_remove",
             "a_buf_pull_fore", "a_buf_pull_back", "a_buf_pull", "a_buf_erase", "a_buf_store", "a_buf_sort", "a_buf_sort_fore",
             "a_buf_sort_back", "a_buf_push_sort", "a_buf_search"]


class Unsupported(Exception):
    pass


class Retry(Exception):
    def __init__(self, ret):
        Exception.__init__(self, ret)
        self.ret = ret


def load_ast(path, include, cfg):
    cmd = ["clang", "-std=c11", "-I", str(include), '-DA_HAVE_H="%s"' % cfg, "-fsyntax-only", "-Xclang", "-ast-dump=json", str(path)]
    p = subprocess.run(cmd, stdout=subprocess.PIPE, stderr=subprocess.PIPE, text=True)
    if p.returncode != 0 or not p.stdout:
        raise Unsupported("clang failed on %s: %s" % (path, " ".join(p.stderr.split())[-400:]))
    return json.loads(p.stdout)


class Lines:
    """clang's JSON dump omits `line` in a location when it equals the line of the location printed before it: resolve the
    line of every node by a pass in document order"""

    def __init__(self):
        self.map = {}
        self.last = None

    def one(self, l):
        if not l:
            return None
        if "spellingLoc" in l or "expansionLoc" in l:
            self.one(l.get("spellingLoc"))
            return self.one(l.get("expansionLoc"))
        if l.get("line"):
            self.last = l["line"]
        return self.last

    def fill(self, n):
        if not isinstance(n, dict):
            return
        a = self.one(n.get("loc"))
        rng = n.get("range") or {}
        b = self.one(rng.get("begin"))
        self.one(rng.get("end"))
        if "id" in n:
            self.map.setdefault(n["id"], b or a)
        for c in n.get("inner", []) or []:
            self.fill(c)


def skip(n):
    """drop parentheses and value-preserving implicit casts (never an explicit cast)"""
    while isinstance(n, dict):
        k = n.get("kind")
        if k == "ParenExpr":
            n = n["inner"][0]
        elif k == "ImplicitCastExpr" and n.get("castKind") in ("LValueToRValue", "NoOp", "FunctionToPointerDecay"):
            n = n["inner"][0]
        else:
            break
    return n


def qual(n):
    t = n.get("type") or {}
    return t.get("desugaredQualType") or t.get("qualType") or ""


def norm_type(q):
    toks = q.replace("*", " * ").split()
    return "".join(t for t in toks if t not in ("const", "struct", "volatile", "restrict", "__restrict"))


def ind(txt, by=2):
    pad = " " * by
    return "\n".join(pad + l if l else l for l in txt.split("\n"))


def is_expr(n):
    return isinstance(n, dict) and n.get("kind", "").endswith(("Expr", "Operator", "Literal"))


class V:
    """a translated value: kind W (a_size) I (int) D (a_diff pattern) B (bool) SP (storage pointer: N) OSP (nullable storage
    pointer: option N) BLK (block pointer: option N) CTX (the container) CTX1 (ctx + 1) OCTX (nullable container pointer: option N)
    NULL FN (function pointer parameter: bool) VOID"""

    def __init__(self, kind, term=None, lit=None):
        self.kind, self.term, self.lit = kind, term, lit

    def __repr__(self):
        return "V(%s,%s)" % (self.kind, self.term)


GTYPE = {"XE": "elem", "Y": "N", "W": "N", "I": "N", "D": "N", "B": "bool", "SP": "N", "OSP": "option N", "BLK": "option N", "OCTX": "option N", "FN": "bool"}


def gtype(v):
    """Gallina type of a value handed to a loop or taken as a parameter"""
    if v.kind == "XA":
        return "list elem"
    if v.kind == "FN":
        return "(elem -> elem -> comparison)" if v.lit == "cmp" else "bool"
    if v.kind == "XE":
        return "elem"
    return GTYPE[v.kind]


def atom(t):
    t = str(t)
    if t.startswith("(") or all(c.isalnum() or c in "_'" for c in t):
        return t
    return "(" + t + ")"


class Tr:
    """translation of the functions of one translation unit"""

    def __init__(self, ast, unit, a_ast=None):
        self.unit, self.conf = unit, UNITS[unit]
        self.funcs, self.enums, self.records = {}, {}, {}
        self.lines = Lines()
        for n in ast.get("inner", []):
            k = n.get("kind")
            if k == "FunctionDecl" and any(c.get("kind") == "CompoundStmt" for c in n.get("inner", [])):
                self.funcs[n["name"]] = n
            elif k == "EnumDecl":
                self.read_enum(n)
            elif k == "RecordDecl" and n.get("completeDefinition"):
                self.records[n.get("name") or n.get("id")] = n
            elif k == "TypedefDecl":
                # typedef struct a_vec {...} a_vec;  (the RecordDecl precedes it, named or not)
                pass
        self.done = {}
        self.libc = {}            # a_copy / a_move recognised by their definitions
        self.libc_error = {}
        if a_ast is not None:
            self.check_wrappers(a_ast)
        self.hdr = None

    def read_enum(self, n):
        v = -1
        for c in n.get("inner", []) or []:
            if c.get("kind") != "EnumConstantDecl":
                continue
            val = None
            for x in c.get("inner", []) or []:
                y = x
                while isinstance(y, dict) and y.get("kind") in ("ConstantExpr", "ImplicitCastExpr", "ParenExpr") and "value" not in y:
                    y = (y.get("inner") or [None])[0]
                if isinstance(y, dict) and "value" in y:
                    try:
                        val = int(y["value"])
                    except ValueError:
                        val = None
            v = val if val is not None else v + 1
            self.enums[c["name"]] = v

    def sizeof_record(self, name):
        """sizeof of a structure whose members are all 8-byte scalars on this target (pointers, a_size); checked, not assumed"""
        rec = self.records.get(name)
        if rec is None:
            raise Unsupported("sizeof(%s): no complete definition found" % name)
        names = []
        for f in rec.get("inner", []) or []:
            if f.get("kind") != "FieldDecl":
                continue
            t = norm_type(qual(f))
            if not (t.endswith("*") or t in ("unsignedlong", "long")):
                raise Unsupported("sizeof(%s): member %s of type `%s` (only 8-byte scalars are handled)" % (name, f.get("name"), qual(f)))
            names.append(f["name"])
        return 8 * len(names), names

    # ------------------------------------------------------------------ a_copy / a_move are what their bodies say
    def check_wrappers(self, a_ast):
        fs = {}
        for n in a_ast.get("inner", []):
            if n.get("kind") == "FunctionDecl" and any(c.get("kind") == "CompoundStmt" for c in n.get("inner", [])):
                fs[n["name"]] = n
        for nm, libc in (("a_copy", "memcpy"), ("a_move", "memmove")):
            fn = fs.get(nm)
            try:
                if fn is None:
                    raise Unsupported("%s has no body in src/a.c" % nm)
                params = [p["name"] for p in fn.get("inner", []) if p.get("kind") == "ParmVarDecl"]
                body = [x for x in fn["inner"] if x.get("kind") == "CompoundStmt"][0].get("inner", []) or []
                ok = len(params) == 3 and len(body) == 1 and body[0].get("kind") == "ReturnStmt"
                if ok:
                    call = skip(body[0]["inner"][0])
                    ok = call.get("kind") == "CallExpr" and len(call["inner"]) == 4
                    if ok:
                        cal = skip(call["inner"][0])
                        ok = cal.get("referencedDecl", {}).get("name") in (libc, "__builtin_" + libc)
                        for a, p in zip(call["inner"][1:], params):
                            a = skip(a)
                            while a.get("kind") in ("ImplicitCastExpr", "CStyleCastExpr") and a.get("castKind") in ("BitCast", "NoOp", "LValueToRValue"):
                                a = skip(a["inner"][0])
                            ok = ok and a.get("kind") == "DeclRefExpr" and a["referencedDecl"].get("name") == p
                if not ok:
                    raise Unsupported("the body of %s in src/a.c is not `return %s(dst, src, siz);`" % (nm, libc))
                self.libc[nm] = libc
            except Unsupported as e:
                self.libc_error[nm] = str(e)

    def translate(self, name):
        if name not in self.funcs:
            raise Unsupported("function %s not found with a body" % name)
        ret = None
        for _ in range(4):
            F = Fn(self, self.funcs[name], ret)
            try:
                text = F.run()
            except Retry as r:
                ret = r.ret
                continue
            self.done[name] = F.sig
            return text
        raise Unsupported("%s: the kind of the returned pointer could not be settled" % name)


def effects(n, tr, out=None):
    """(fields or variables written, reads) of an expression - for the unsequenced-operands check; a call touches everything"""
    w, r = out if out is not None else (set(), set())
    if isinstance(n, dict):
        k = n.get("kind")
        if k == "CallExpr":
            if pure_call(n, tr):
                r.add(".*")
            else:
                w.add("*")
        if k in ("BinaryOperator", "CompoundAssignOperator") and (n.get("opcode") == "=" or k == "CompoundAssignOperator"):
            l = skip(n["inner"][0])
            w.add(lv_key(l))
        if k == "UnaryOperator" and n.get("opcode") in ("++", "--"):
            w.add(lv_key(skip(n["inner"][0])))
        if k == "MemberExpr":
            r.add("." + n.get("name", "?"))
        if k == "UnaryOperator" and n.get("opcode") == "*":
            r.add(".mem")
        if k == "DeclRefExpr" and n.get("referencedDecl", {}).get("kind") in ("VarDecl", "ParmVarDecl"):
            r.add(n["referencedDecl"]["name"])
        for c in n.get("inner", []) or []:
            effects(c, tr, (w, r))
    return w, r


def pure_call(n, tr):
    """a call of a function translated earlier whose body writes nothing (the inline accessors of the headers), or of the
    comparison callback (a parameter named cmp: it reads the two elements)"""
    rd = skip(n["inner"][0]).get("referencedDecl", {})
    if rd.get("kind") == "ParmVarDecl" and rd.get("name") == "cmp":
        return True
    if tr is None:
        return False
    nm = rd.get("name")
    return bool(tr.done.get(nm, {}).get("pure"))


def lv_key(l):
    if l.get("kind") == "UnaryOperator" and l.get("opcode") == "*":
        return ".mem"
    if l.get("kind") == "MemberExpr":
        return "." + l.get("name", "?")
    if l.get("kind") == "DeclRefExpr":
        return l["referencedDecl"]["name"]
    return "*"


def needs_bind(n):
    """does the translation of the expression sequence something (a call, a read through a pointer)?"""
    if isinstance(n, dict):
        if n.get("kind") == "CallExpr" or (n.get("kind") == "UnaryOperator" and n.get("opcode") == "*"):
            return True
        return any(needs_bind(c) for c in n.get("inner", []) or [])
    return False


def pure(n):
    """an expression that becomes a plain term: no write, no call, no memory read"""
    w, _ = effects(n, None)
    return not w and not needs_bind(n)


def refs(n, out=None):
    out = set() if out is None else out
    if isinstance(n, dict):
        if n.get("kind") == "DeclRefExpr" and n.get("referencedDecl", {}).get("kind") in ("VarDecl", "ParmVarDecl"):
            out.add(n["referencedDecl"]["name"])
        for c in n.get("inner", []) or []:
            refs(c, out)
    elif isinstance(n, list):
        for c in n:
            refs(c, out)
    return out


def assigned(n, out=None):
    out = set() if out is None else out
    if isinstance(n, dict):
        k = n.get("kind")
        if k in ("BinaryOperator", "CompoundAssignOperator") and (n.get("opcode") == "=" or k == "CompoundAssignOperator"):
            l = skip(n["inner"][0])
            if l.get("kind") == "DeclRefExpr":
                out.add(l["referencedDecl"]["name"])
        if k == "UnaryOperator" and n.get("opcode") in ("++", "--"):
            l = skip(n["inner"][0])
            if l.get("kind") == "DeclRefExpr":
                out.add(l["referencedDecl"]["name"])
        if k == "VarDecl":
            out.add(n["name"])
        for c in n.get("inner", []) or []:
            assigned(c, out)
    elif isinstance(n, list):
        for c in n:
            assigned(c, out)
    return out


def touches_state(n, tr=None):
    """(reads the container, writes it) - syntactically: member accesses and calls"""
    rd = wr = False
    if isinstance(n, dict):
        k = n.get("kind")
        if k == "MemberExpr" or (k == "UnaryOperator" and n.get("opcode") == "*"):
            rd = True
        if k == "CallExpr":
            rd = True
            wr = not pure_call(n, tr)
        if k in ("BinaryOperator", "CompoundAssignOperator") and (n.get("opcode") == "=" or k == "CompoundAssignOperator"):
            if skip(n["inner"][0]).get("kind") != "DeclRefExpr":
                wr = True
        if k == "UnaryOperator" and n.get("opcode") in ("++", "--") and skip(n["inner"][0]).get("kind") != "DeclRefExpr":
            wr = True
        for c in n.get("inner", []) or []:
            a, b = touches_state(c, tr)
            rd, wr = rd or a, wr or b
    elif isinstance(n, list):
        for c in n:
            a, b = touches_state(c, tr)
            rd, wr = rd or a, wr or b
    return rd, wr


class Fn:
    def __init__(self, tr, node, ret=None):
        self.tr, self.node, self.name = tr, node, node["name"]
        tr.lines.fill(node)
        self.defs = []
        self.loops = {}
        self.nloops = 0
        self.counter = {}
        self.order = []
        self.fuels = []           # names of the fuel parameters this function takes, in order
        self.sig = None
        self.ret = ret            # None = take it from the C type (pointer: SP until a NULL is returned)
        self.loop_fuels = None    # inside a loop body: fuels of callees used there

    # ---------------------------------------------------------------- helpers
    def where(self, n):
        return "%s:%s" % (self.name, self.tr.lines.map.get(n.get("id")))

    def bad(self, what, n):
        raise Unsupported("%s at %s" % (what, self.where(n)))

    def fresh(self, base):
        k = self.counter.get(base, 0) + 1
        self.counter[base] = k
        return "%s'%d" % (base, k)

    def with_var(self, E, nm, v):
        E2 = dict(E)
        E2["env"] = dict(E["env"])
        E2["env"][nm] = v
        return E2

    def with_st(self, E, st):
        E2 = dict(E)
        E2["st"] = st
        return E2

    def need_fuel(self, name):
        if self.loop_fuels is not None:
            if name not in self.loop_fuels:
                self.loop_fuels.append(name)
        if name not in self.fuels:
            self.fuels.append(name)

    def let(self, base, term, k):
        """bind a fresh name to a term: k(name)"""
        x = self.fresh(base)
        return "let %s := %s in\n%s" % (x, term, k(x))

    def set_field(self, E, fld, term, k):
        s = self.fresh("st")
        return "let %s := set_%s %s %s in\n%s" % (s, fld, E["st"], atom(term), k(self.with_st(E, s)))

    def is_word(self, n):
        return qual(n) in ("unsigned long", "const unsigned long")

    def ctype(self, n):
        return norm_type(qual(n))

    # ---------------------------------------------------------------- expressions (continuation style): k(V, E)
    def ev(self, n, E, k):
        n0 = n
        n = skip(n)
        kind = n.get("kind")
        if kind == "IntegerLiteral":
            t = self.ctype(n)
            val = int(n["value"])
            if t in ("int", "long"):
                return k(V("I", str(val), lit=val), E)
            if t == "unsignedlong":
                return k(V("W", str(val), lit=val), E)
            self.bad("integer literal of type `%s`" % qual(n), n)
        if kind in ("ImplicitCastExpr", "CStyleCastExpr"):
            return self.cast(n, E, k)
        if kind == "DeclRefExpr":
            rd = n.get("referencedDecl", {})
            if rd.get("kind") == "EnumConstantDecl":
                if rd["name"] not in self.tr.enums:
                    self.bad("enumeration constant %s without a known value" % rd["name"], n)
                val = self.tr.enums[rd["name"]]
                return k(V("I", str(val), lit=val), E)
            nm = rd.get("name")
            if nm not in E["env"]:
                self.bad("variable %s is not known here" % nm, n)
            if E["env"][nm] is None:
                self.bad("read of the uninitialised variable %s" % nm, n)
            return k(E["env"][nm], E)
        if kind == "MemberExpr":
            return self.member(n, E, k)
        if kind == "UnaryExprOrTypeTraitExpr" and n.get("name") == "sizeof":
            return k(self.sizeof(n), E)
        if kind == "UnaryOperator":
            return self.unary(n, E, k)
        if kind == "BinaryOperator":
            return self.binary(n, E, k)
        if kind == "CompoundAssignOperator":
            return self.compound(n, E, k)
        if kind == "ConditionalOperator":
            c, a, b = n["inner"]
            if pure(a) and pure(b) and pure(c):
                return self.cond_term(c, E, lambda ct: self.ev(a, E, lambda va, _: self.ev(b, E, lambda vb, __: k(self.join(ct, va, vb, n), E))))
            return self.cond(c, E, lambda E1: self.ev(a, E1, k), lambda E1: self.ev(b, E1, k))
        if kind == "CallExpr":
            return self.call(n, E, k)
        self.bad("expression %s" % kind, n0)

    def join(self, ct, va, vb, n):
        """value of `c ? a : b` for effect-free arms"""
        if va.kind == vb.kind and va.kind in ("W", "I", "D", "SP", "B"):
            return V(va.kind, "(if %s then %s else %s)" % (ct, va.term, vb.term))
        ks = {va.kind, vb.kind}
        if ks <= {"SP", "OSP", "NULL", "BLK"} and ks != {"BLK"}:
            return V("OSP", "(if %s then %s else %s)" % (ct, self.as_osp(va, n), self.as_osp(vb, n)))
        if ks == {"I", "W"} and (va.lit is not None or vb.lit is not None):
            return V("W", "(if %s then %s else %s)" % (ct, va.term, vb.term))
        self.bad("?: with arms of kinds %s / %s" % (va.kind, vb.kind), n)

    def as_osp(self, v, n):
        if v.kind == "SP":
            return "(Some %s)" % atom(v.term)
        if v.kind == "NULL":
            return "None"
        if v.kind == "OSP":
            return v.term
        if v.kind == "BLK" and v.lit == "ptr_":
            return "(blk_base %s)" % atom(v.term)
        self.bad("a value of kind %s where a pointer into the storage (or NULL) is expected" % v.kind, n)

    def sizeof(self, n):
        at = n.get("argType")
        if at is None:
            # sizeof expr: the type of the operand
            inner = n.get("inner") or []
            at = inner[0].get("type") if inner else None
        q = norm_type((at or {}).get("desugaredQualType") or (at or {}).get("qualType") or "")
        if q.endswith("*"):
            return V("W", "8", lit=8)
        if q in ("unsignedlong", "long", "a_size", "a_diff"):
            return V("W", "8", lit=8)
        for nm in (q, q.replace("struct", "")):
            if nm == self.tr.conf["struct"]:
                size, names = self.tr.sizeof_record(nm)
                if names != self.tr.conf["record_fields"]:
                    self.bad("structure %s has the members %s, the translator knows %s" % (nm, names, self.tr.conf["record_fields"]), n)
                return V("W", str(size), lit=size)
        self.bad("sizeof(%s)" % q, n)

    def cast(self, n, E, k):
        ck = n.get("castKind")
        src = n["inner"][0]
        tgt = self.ctype(n)
        if ck == "NullToPointer":
            z = n
            while isinstance(z, dict) and z.get("kind") in ("ImplicitCastExpr", "CStyleCastExpr", "ParenExpr"):
                z = z["inner"][0]
            if z.get("kind") == "IntegerLiteral" and z.get("value") == "0":
                return k(V("NULL"), E)
            self.bad("null pointer constant of an unknown form", n)
        if ck in ("NoOp", "LValueToRValue"):
            return self.ev(src, E, k)
        if ck == "ToVoid":
            return self.ev(src, E, lambda v, E1: k(V("VOID"), E1))
        if ck == "IntegralCast":
            def conv(v, E1):
                if tgt == "unsignedlong":
                    if v.kind == "W":
                        return k(v, E1)
                    if v.kind == "I" and v.lit is not None and v.lit >= 0:
                        return k(V("W", v.term, lit=v.lit), E1)
                    if v.kind == "D":
                        return k(V("W", v.term), E1)
                    if v.kind == "PDIFF":
                        return k(V("W", v.term), E1)
                if tgt == "long" and v.kind == "I" and v.lit is not None and v.lit >= 0:
                    return k(V("D", v.term, lit=v.lit), E1)
                if tgt == "int" and v.kind == "I":
                    return k(v, E1)
                self.bad("integer conversion of a %s value to `%s`" % (v.kind, qual(n)), n)
            return self.ev(src, E, conv)
        if ck == "BitCast":
            def conv(v, E1):
                if v.kind in ("SP", "OSP", "NULL", "XA", "XE"):
                    return k(v, E1)
                if v.kind == "CTX" and (tgt in self.tr.conf["ctx_types"] or tgt == "void*"):
                    return k(v, E1)
                if v.kind == "OCTX" and (tgt in self.tr.conf["ctx_types"] or tgt == "void*"):
                    return k(v, E1)
                if v.kind == "BLK" and v.lit == "ptr_" and tgt in BYTEP:
                    # the storage seen as bytes: its base, whatever the block id
                    return k(V("SP", "base") if tgt != "void*" else v, E1)
                if v.kind == "BLK" and tgt == "void*":
                    return k(v, E1)
                if v.kind == "CTX1" and tgt in BYTEP:
                    return k(V("SP", "base"), E1)
                self.bad("pointer conversion of a %s value to `%s`" % (v.kind, qual(n)), n)
            return self.ev(src, E, conv)
        if ck in ("PointerToBoolean", "IntegralToBoolean"):
            return self.ev(src, E, lambda v, E1: k(V("B", self.truth(v, n)), E1))
        if ck in ("IntegralToPointer", "PointerToIntegral"):
            # a_buf_ptr: (a_buf *)(a_uptr)ctx + 1  - the round trip through an integer of pointer width is the identity
            if ck == "IntegralToPointer":
                inner = skip(src)
                if inner.get("kind") in ("CStyleCastExpr", "ImplicitCastExpr") and inner.get("castKind") == "PointerToIntegral" \
                        and norm_type(qual(inner)) == "unsignedlong":
                    return self.ev(inner["inner"][0], E, lambda v, E1: k(v, E1) if v.kind == "CTX" and tgt in self.tr.conf["ctx_types"]
                                   else self.bad("pointer/integer round trip of a %s value" % v.kind, n))
            self.bad("conversion between pointer and integer", n)
        self.bad("cast %s" % ck, n)

    def truth(self, v, n):
        if v.kind == "B":
            return v.term
        if v.kind in ("W", "I", "D"):
            return "truth %s" % atom(v.term)
        if v.kind in ("OSP", "BLK", "OCTX"):
            return "nonnull %s" % atom(v.term)
        if v.kind == "FN":
            return v.term
        if v.kind in ("SP", "CTX"):
            self.bad("test of a pointer that the translator takes to be valid (kind %s)" % v.kind, n)
        if v.kind == "NULL":
            return "false"
        self.bad("truth value of a %s" % v.kind, n)

    def member(self, n, E, k):
        if not n.get("isArrow"):
            self.bad("member access without ->", n)

        def got(b, E1):
            if b.kind != "CTX":
                self.bad("member of something that is not the container (kind %s)" % b.kind, n)
            if n["name"] == "ptr_" and self.tr.unit == "vec":
                return k(V("BLK", "(c_ptr %s)" % E1["st"], lit="ptr_"), E1)
            if n["name"] in FIELDS and self.is_word(n):
                return k(V("W", "(c_%s %s)" % (FIELDS[n["name"]], E1["st"])), E1)
            self.bad("member `%s` of type `%s`" % (n["name"], qual(n)), n)
        return self.ev(n["inner"][0], E, got)

    # lvalues: ("var", name) | ("field", fld)
    def lvalue(self, l, E):
        l = skip(l)
        if l.get("kind") == "DeclRefExpr" and l["referencedDecl"].get("kind") in ("VarDecl", "ParmVarDecl"):
            nm = l["referencedDecl"]["name"]
            if nm not in E["env"]:
                self.bad("assignment to %s, which is not known here" % nm, l)
            return ("var", nm)
        if l.get("kind") == "MemberExpr" and l.get("isArrow"):
            b = skip(l["inner"][0])
            if b.get("kind") == "DeclRefExpr" and E["env"].get(b["referencedDecl"]["name"]) is not None \
                    and E["env"][b["referencedDecl"]["name"]].kind == "CTX":
                if l["name"] in FIELDS and self.is_word(l):
                    return ("field", FIELDS[l["name"]])
                if l["name"] == "ptr_" and self.tr.unit == "vec":
                    return ("field", "ptr")
        if l.get("kind") == "UnaryOperator" and l.get("opcode") == "*" and self.ctype(l) == "unsignedchar":
            b = skip(l["inner"][0])
            if b.get("kind") == "DeclRefExpr" and E["env"].get(b["referencedDecl"]["name"]) is not None \
                    and E["env"][b["referencedDecl"]["name"]].kind == "SP":
                return ("deref", E["env"][b["referencedDecl"]["name"]].term)
        self.bad("assignment to this kind of lvalue", l)

    def read_lv(self, lv, E, n):
        if lv[0] == "deref":
            self.bad("read-modify-write through a byte pointer", n)
        if lv[0] == "var":
            v = E["env"][lv[1]]
            if v is None:
                self.bad("read of the uninitialised variable %s" % lv[1], n)
            return v
        if lv[1] == "ptr":
            return V("BLK", "(c_ptr %s)" % E["st"], lit="ptr_")
        return V("W", "(c_%s %s)" % (lv[1], E["st"]))

    def write_lv(self, lv, v, E, n, k):
        """k(E')"""
        if lv[0] == "var":
            nm = lv[1]
            old = E["env"].get(nm)
            decl_kind = E["types"].get(nm)
            v = self.coerce(v, decl_kind, n)
            if v.kind in ("CTX", "CTX1", "NULL", "VOID"):
                return k(self.with_var(E, nm, v))
            x = self.fresh(nm)
            return "let %s := %s in\n%s" % (x, v.term, k(self.with_var(E, nm, V(v.kind, x, lit=v.lit))))
        if lv[0] == "deref":
            if v.kind != "Y":
                self.bad("store of a %s value through a byte pointer" % v.kind, n)
            s_ = self.fresh("st")
            return "bind (st_byte %s %s %s) (fun %s =>\n%s)" % (E["st"], atom(lv[1]), atom(v.term), s_, k(self.with_st(E, s_)))
        fld = lv[1]
        if fld == "ptr":
            if v.kind == "NULL":
                return self.set_field(E, "ptr", "None", k)
            if v.kind != "BLK":
                self.bad("assignment of a %s value to ptr_" % v.kind, n)
            return self.set_field(E, "ptr", v.term, k)
        if v.kind == "I" and v.lit is not None and v.lit >= 0:
            v = V("W", v.term)
        if v.kind != "W":
            self.bad("assignment of a %s value to the field %s_" % (v.kind, fld), n)
        return self.set_field(E, fld, v.term, k)

    def coerce(self, v, decl_kind, n):
        """value assigned to a variable whose declared kind is decl_kind (None = first assignment decides)"""
        if decl_kind is None or v.kind == decl_kind:
            return v
        if decl_kind == "W" and v.kind == "I" and v.lit is not None and v.lit >= 0:
            return V("W", v.term, lit=v.lit)
        if decl_kind == "PTR" and v.kind in ("SP", "OSP", "BLK", "CTX", "OCTX", "NULL", "CTX1", "XA", "XE"):
            return v
        self.bad("assignment of a %s value to a variable declared as %s" % (v.kind, decl_kind), n)

    def unary(self, n, E, k):
        op = n.get("opcode")
        a = n["inner"][0]
        if op == "!":
            return self.ev(a, E, lambda v, E1: k(V("B", self.neg(v, n)), E1))
        if op == "~":
            return self.ev(a, E, lambda v, E1: k(V("W", "wnot %s" % atom(v.term)), E1) if v.kind == "W" and self.ctype(n) == "unsignedlong"
                           else self.bad("~ on a %s value" % v.kind, n))
        if op in ("++", "--"):
            lv = self.lvalue(a, E)
            old = self.read_lv(lv, E, n)
            if old.kind == "W":
                new = V("W", "%s %s 1" % ("wadd" if op == "++" else "wsub", atom(old.term)))
            elif old.kind == "SP":
                new = V("SP", "%s %s 1" % ("padd" if op == "++" else "psub", atom(old.term)))
            else:
                self.bad("%s on a %s value" % (op, old.kind), n)
            # name the value that the expression yields, then write
            if n.get("isPostfix"):
                return self.let("t", old.term, lambda t: self.write_lv(lv, V(new.kind, new.term.replace(atom(old.term), t, 1)), E, n,
                                                                       lambda E1: k(V(old.kind, t), E1)))
            return self.let("t", new.term, lambda t: self.write_lv(lv, V(new.kind, t), E, n, lambda E1: k(V(new.kind, t), E1)))
        if op == "*":
            if self.ctype(n) != "unsignedchar":
                self.bad("dereference at type `%s` (only bytes of the storage are modelled)" % qual(n), n)

            def rd(v, E1):
                if v.kind != "SP":
                    self.bad("dereference of a %s value" % v.kind, n)
                t = self.fresh("t")
                return "bind (ld_byte %s %s) (fun %s =>\n%s)" % (E1["st"], atom(v.term), t, k(V("Y", t), E1))
            return self.ev(a, E, rd)
        if op == "-" or op == "+":
            self.bad("unary %s" % op, n)
        self.bad("unary operator %s" % op, n)

    def neg(self, v, n):
        if v.kind == "B":
            return "negb %s" % atom(v.term)
        if v.kind in ("W", "I", "D"):
            return "%s =? 0" % atom(v.term)
        if v.kind in ("OSP", "BLK", "OCTX"):
            return "negb (nonnull %s)" % atom(v.term)
        if v.kind == "FN":
            return "negb %s" % atom(v.term)
        self.bad("! on a %s value" % v.kind, n)

    ARITH = {"+": "wadd", "-": "wsub", "*": "wmul", "/": "wdiv", "%": "wmod", "&": "wand", "|": "wor", "^": "wxor"}

    def check_sequenced(self, a, b, n):
        wa, ra = effects(a, self.tr)
        wb, rb = effects(b, self.tr)
        for w, other in ((wa, rb | wb), (wb, ra | wa)):
            if not w:
                continue
            if ".*" in other and any(x.startswith(".") for x in w):
                self.bad("operands of one operator: a header field is written next to a call that reads the container (unsequenced)", n)
            if "*" in w and other:
                self.bad("operands of one operator: a call next to an operand that reads or writes (unsequenced)", n)
            if w & other:
                self.bad("operands of one operator write and use %s (unsequenced)" % ", ".join(sorted(w & other)), n)

    def binary(self, n, E, k):
        op = n.get("opcode")
        a, b = n["inner"]
        if op == ",":
            return self.ev(a, E, lambda _, E1: self.ev(b, E1, k))
        if op == "=":
            if skip(b).get("kind") == "BinaryOperator" and skip(b).get("opcode") == "=":
                self.bad("chained assignment", n)
            lv = self.lvalue(a, E)
            return self.ev(b, E, lambda v, E1: self.write_lv(lv, v, E1, n, lambda E2: k(v, E2)))
        if op in ("&&", "||"):
            if pure(a) and pure(b):
                return self.ev(a, E, lambda va, _: self.ev(b, E, lambda vb, __: k(V("B", "%s %s %s" % (
                    atom(self.truth(va, n)), op, atom(self.truth(vb, n)))), E)))
            return self.cond(n, E, lambda E1: k(V("B", "true"), E1), lambda E1: k(V("B", "false"), E1))
        if op == ">" and self.fn_call(a, E) == "cmp":
            z = skip(b)
            if not (z.get("kind") == "IntegerLiteral" and z.get("value") == "0"):
                self.bad("result of the comparison callback used otherwise than in `cmp(a, b) > 0`", n)
            return self.cmp_gt(skip(a), E, k)
        self.check_sequenced(a, b, n)

        def both(va, vb, E2):
            ks = (va.kind, vb.kind)
            t = self.ctype(n)
            if op in self.ARITH or op in ("<<", ">>"):
                if ks == ("SP", "W") and op in ("+", "-"):
                    return k(V("SP", "%s %s %s" % ("padd" if op == "+" else "psub", atom(va.term), atom(vb.term))), E2)
                if ks == ("CTX", "I") and op == "+" and vb.lit == 1:
                    return k(V("CTX1"), E2)
                if ks == ("SP", "SP") and op == "-" and t == "long":
                    return k(V("PDIFF", "pdiff %s %s" % (atom(va.term), atom(vb.term))), E2)
                if t != "unsignedlong":
                    self.bad("arithmetic %s at type `%s` (only a_size arithmetic is modelled)" % (op, qual(n)), n)
                if op in ("<<", ">>"):
                    if va.kind == "W" and vb.lit is not None and 0 <= vb.lit < 64:
                        return k(V("W", "%s %s %d" % ("wshl" if op == "<<" else "wshr", atom(va.term), vb.lit)), E2)
                    self.bad("shift by something that is not a literal below 64", n)
                va2, vb2 = self.to_word(va, n), self.to_word(vb, n)
                return k(V("W", "%s %s %s" % (self.ARITH[op], atom(va2.term), atom(vb2.term))), E2)
            if op in ("<", ">", "<=", ">=", "==", "!="):
                if ks in (("D", "I"), ("D", "D")) and vb.lit == 0 and op in (">=", "<"):
                    tt = "dnonneg %s" % atom(va.term)
                    return k(V("B", tt if op == ">=" else "negb (%s)" % tt), E2)
                if "D" in ks:
                    self.bad("comparison of a signed a_diff value (only `>= 0` and `< 0` are modelled)", n)
                if set(ks) <= {"W", "I"} and ("W" in ks or op in ("==", "!=")):
                    if "W" in ks:
                        va, vb = self.to_word(va, n), self.to_word(vb, n)
                elif ks == ("SP", "SP"):
                    pass
                elif set(ks) <= {"OSP", "BLK", "OCTX", "NULL"} and "NULL" in ks and op in ("==", "!="):
                    o = va if vb.kind == "NULL" else vb
                    tt = "nonnull %s" % atom(o.term)
                    return k(V("B", tt if op == "!=" else "negb (%s)" % tt), E2)
                else:
                    self.bad("comparison %s of a %s with a %s" % (op, va.kind, vb.kind), n)
                x, y = atom(va.term), atom(vb.term)
                tt = {"<": "%s <? %s" % (x, y), ">": "%s <? %s" % (y, x), "<=": "%s <=? %s" % (x, y), ">=": "%s <=? %s" % (y, x),
                      "==": "%s =? %s" % (x, y), "!=": "negb (%s =? %s)" % (x, y)}[op]
                return k(V("B", tt), E2)
            self.bad("binary operator %s" % op, n)
        return self.ev(a, E, lambda va, E1: self.ev(b, E1, lambda vb, E2: both(va, vb, E2)))

    def fn_call(self, n, E):
        """'dtor' / 'cmp' / 'copy' when the expression is a call through that function-pointer parameter"""
        n = skip(n)
        if n.get("kind") != "CallExpr":
            return None
        rd = skip(n["inner"][0]).get("referencedDecl", {})
        v = E["env"].get(rd.get("name")) if rd.get("kind") in ("ParmVarDecl", "VarDecl") else None
        return v.lit if v is not None and v.kind == "FN" else None

    def elem_of(self, v, E, n, k):
        """the element a comparison argument points to: k(term)"""
        if v.kind == "XE":
            return k(v.term)
        if v.kind == "SP":
            x = self.fresh("e")
            return "bind (ld_elem %s %s) (fun %s =>\n%s)" % (E["st"], atom(v.term), x, k(x))
        self.bad("comparison callback on a %s value" % v.kind, n)

    def cmp_gt(self, call, E, k):
        args = call["inner"][1:]
        if len(args) != 2 or not (pure(args[0]) and pure(args[1])):
            self.bad("call of the comparison callback", call)
        cmpv = E["env"][skip(call["inner"][0])["referencedDecl"]["name"]]
        va, vb = self.pure_value(args[0], E), self.pure_value(args[1], E)
        return self.elem_of(va, E, call, lambda x: self.elem_of(vb, E, call, lambda y: k(V("B", "gtb %s %s %s" % (cmpv.term, x, y)), E)))

    def to_word(self, v, n):
        if v.kind == "W":
            return v
        if v.kind == "I" and v.lit is not None and v.lit >= 0:
            return V("W", v.term, lit=v.lit)
        self.bad("a %s value where an a_size is expected" % v.kind, n)

    def compound(self, n, E, k):
        op = n["opcode"][:-1]
        a, b = n["inner"]
        lv = self.lvalue(a, E)
        ct = norm_type((n.get("computeResultType") or {}).get("desugaredQualType") or (n.get("computeResultType") or {}).get("qualType") or "")

        def got(vb, E1):
            old = self.read_lv(lv, E1, n)
            if old.kind == "SP" and op in ("+", "-") and vb.kind == "W":
                new = V("SP", "%s %s %s" % ("padd" if op == "+" else "psub", atom(old.term), atom(vb.term)))
            elif old.kind == "XA" and op == "+" and vb.kind == "W":
                new = V("XA", "padd %s %s" % (atom(old.term), atom(vb.term)), lit=old.lit)
            elif old.kind == "W" and op in self.ARITH and ct == "unsignedlong":
                new = V("W", "%s %s %s" % (self.ARITH[op], atom(old.term), atom(self.to_word(vb, n).term)))
            else:
                self.bad("%s= on a %s value (computation type `%s`)" % (op, old.kind, ct), n)
            return self.write_lv(lv, new, E1, n, lambda E2: k(self.read_lv(lv, E2, n), E2))
        w, r = effects(b, self.tr)
        if w:
            self.bad("compound assignment whose right-hand side has effects", n)
        return self.ev(b, E, got)

    # ---------------------------------------------------------------- conditions: kt(E) / kf(E)
    def cond_term(self, n, E, k):
        """effect-free condition as a bool term: k(term)"""
        return self.ev(n, E, lambda v, _: k(self.truth(v, n)))

    def cond(self, n, E, kt, kf):
        m = skip(n)
        kind = m.get("kind")
        if pure(m):
            # a nullable container pointer that is tested is the container in the arm where it is not null
            if kind == "DeclRefExpr" and E["env"].get(m["referencedDecl"].get("name")) is not None \
                    and E["env"][m["referencedDecl"]["name"]].kind == "OCTX":
                nm = m["referencedDecl"]["name"]
                v = E["env"][nm]
                return "if nonnull %s\nthen\n%s\nelse\n%s" % (atom(v.term), ind(kt(self.with_var(E, nm, V("CTX")))), ind(kf(E)))
            if kind == "DeclRefExpr" and E["env"].get(m["referencedDecl"].get("name")) is not None \
                    and E["env"][m["referencedDecl"]["name"]].kind == "CTX":
                return "if nonnull (c_self %s)\nthen\n%s\nelse\n%s" % (E["st"], ind(kt(E)), ind(kf(E)))
            if kind in ("ImplicitCastExpr",) and m.get("castKind") == "PointerToBoolean":
                return self.cond(m["inner"][0], E, kt, kf)
            return self.cond_term(m, E, lambda t: "if %s\nthen\n%s\nelse\n%s" % (t, ind(kt(E)), ind(kf(E))))
        if kind == "UnaryOperator" and m.get("opcode") == "!":
            return self.cond(m["inner"][0], E, kf, kt)
        if kind == "BinaryOperator" and m.get("opcode") == "&&":
            return self.cond(m["inner"][0], E, lambda E1: self.cond(m["inner"][1], E1, kt, kf), kf)
        if kind == "BinaryOperator" and m.get("opcode") == "||":
            return self.cond(m["inner"][0], E, kt, lambda E1: self.cond(m["inner"][1], E1, kt, kf))
        return self.ev(m, E, lambda v, E1: "if %s\nthen\n%s\nelse\n%s" % (self.truth(v, m), ind(kt(E1)), ind(kf(E1))))

    # ---------------------------------------------------------------- calls
    def call(self, n, E, k):
        cal = skip(n["inner"][0])
        rd = cal.get("referencedDecl", {})
        nm = rd.get("name")
        args = n["inner"][1:]
        for i in range(len(args)):
            for j in range(i + 1, len(args)):
                self.check_sequenced(args[i], args[j], n)

        def evargs(i, E1, acc, then):
            if i == len(args):
                return then(acc, E1)
            return self.ev(args[i], E1, lambda v, E2: evargs(i + 1, E2, acc + [v], then))

        if nm == "a_alloc" and len(args) == 2:
            def go(vs, E1):
                addr, size = vs
                size = self.to_word(size, n)
                s, p = self.fresh("st"), self.fresh("t")
                if addr.kind == "BLK" and addr.lit == "ptr_" and self.tr.unit == "vec":
                    return "let '(%s, %s) := alloc_store %s %s in\n%s" % (s, p, E1["st"], atom(size.term),
                                                                             k(V("BLK", p), self.with_st(E1, s)))
                hdr, _ = self.tr.sizeof_record(self.tr.conf["struct"])
                if addr.kind == "CTX":
                    prim = "alloc_ctx %s" % E1["st"] if self.tr.unit == "vec" else "alloc_self %s %d" % (E1["st"], hdr)
                    return "let '(%s, %s) := %s %s in\n%s" % (s, p, prim, atom(size.term), k(V("OCTX", p), self.with_st(E1, s)))
                if addr.kind == "NULL":
                    prim = "alloc_new %s" % E1["st"] if self.tr.unit == "vec" else "alloc_new_self %s %d" % (E1["st"], hdr)
                    return "let '(%s, %s) := %s %s in\n%s" % (s, p, prim, atom(size.term), k(V("OCTX", p), self.with_st(E1, s)))
                self.bad("a_alloc on something that is neither the storage block ctx->ptr_, the container itself nor NULL (kind %s)" % addr.kind, n)
            return evargs(0, E, [], go)
        if nm in ("a_copy", "a_move", "a_swap") and len(args) == 3:
            if nm in ("a_copy", "a_move") and nm not in self.tr.libc:
                self.bad("call of %s: %s" % (nm, self.tr.libc_error.get(nm, "its body in src/a.c was not checked")), n)

            def go(vs, E1):
                d, s_, c = vs
                if nm == "a_copy" and d.kind == "SP" and s_.kind == "XA":
                    c = self.to_word(c, n)
                    s = self.fresh("st")
                    return "bind (ext_copy %s %s %s %s %s) (fun %s =>\n%s)" % (E1["st"], atom(d.term), s_.lit, atom(s_.term), atom(c.term), s,
                                                                               k(V("SP", d.term), self.with_st(E1, s)))
                if d.kind != "SP" or s_.kind != "SP":
                    self.bad("%s between pointers of kinds %s / %s (only pointers into the storage are modelled)" % (nm, d.kind, s_.kind), n)
                c = self.to_word(c, n)
                s = self.fresh("st")
                return "bind (mem_%s %s %s %s %s) (fun %s =>\n%s)" % (nm[2:], E1["st"], atom(d.term), atom(s_.term), atom(c.term), s,
                                                                      k(V("SP", d.term) if nm != "a_swap" else V("VOID"), self.with_st(E1, s)))
            return evargs(0, E, [], go)
        if self.fn_call(n, E) == "copy" and len(args) == 2:
            def go(vs, E1):
                if vs[0].kind != "SP" or vs[1].kind != "XA":
                    self.bad("copy callback on %s / %s values" % (vs[0].kind, vs[1].kind), n)
                s, t = self.fresh("st"), self.fresh("t")
                return "bind (call_copy %s %s %s %s) (fun '(%s, %s) =>\n%s)" % (E1["st"], atom(vs[0].term), vs[1].lit, atom(vs[1].term), s, t,
                                                                                k(V("I", t), self.with_st(E1, s)))
            return evargs(0, E, [], go)
        if nm == "bsearch" and len(args) == 5:
            def go(vs, E1):
                key, b, cnt, z, c = vs
                if b.kind == "BLK" and b.lit == "ptr_":
                    bt = "base"
                elif b.kind in ("SP", "CTX1"):
                    bt = atom(b.term) if b.kind == "SP" else "base"
                else:
                    self.bad("bsearch on a %s value" % b.kind, n)
                if c.kind != "FN" or c.lit != "cmp" or key.kind != "XE":
                    self.bad("bsearch with a key / comparison that are not the parameters", n)
                t = self.fresh("t")
                return "bind (lib_bsearch %s %s %s %s %s %s) (fun %s =>\n%s)" % (E1["st"], c.term, key.term, bt, atom(self.to_word(cnt, n).term),
                                                                                 atom(self.to_word(z, n).term), t, k(V("FE", t), E1))
            return evargs(0, E, [], go)
        if nm == "qsort" and len(args) == 4:
            def go(vs, E1):
                b, cnt, z, c = vs
                if b.kind == "BLK" and b.lit == "ptr_":
                    bt = "base"
                elif b.kind == "SP":
                    bt = atom(b.term)
                else:
                    self.bad("qsort on a %s value" % b.kind, n)
                if c.kind != "FN" or c.lit != "cmp":
                    self.bad("qsort with a comparison that is not the callback parameter", n)
                s = self.fresh("st")
                return "bind (lib_qsort %s %s %s %s %s) (fun %s =>\n%s)" % (E1["st"], c.term, bt, atom(self.to_word(cnt, n).term),
                                                                            atom(self.to_word(z, n).term), s, k(V("VOID"), self.with_st(E1, s)))
            return evargs(0, E, [], go)
        if rd.get("kind") in ("ParmVarDecl", "VarDecl") and nm in E["env"] and E["env"][nm] is not None and E["env"][nm].kind == "FN":
            if E["env"][nm].lit != "dtor" or len(args) != 1:
                self.bad("call through the function pointer %s" % nm, n)

            def go(vs, E1):
                if vs[0].kind != "SP":
                    self.bad("destructor called on a %s value" % vs[0].kind, n)
                s = self.fresh("st")
                return "bind (call_dtor %s %s) (fun %s =>\n%s)" % (E1["st"], atom(vs[0].term), s, k(V("VOID"), self.with_st(E1, s)))
            return evargs(0, E, [], go)
        sig = self.tr.done.get(nm)
        if sig is None:
            self.bad("call to %s, which is not a translated function" % nm, n)
        if len(args) != len(sig["params"]):
            self.bad("call to %s with %d arguments" % (nm, len(args)), n)
        for f in sig["fuels"]:
            self.need_fuel(f)

        def go(vs, E1):
            terms = []
            for v, (pn, pk) in zip(vs, sig["params"]):
                if pk == "CTX":
                    if v.kind != "CTX":
                        self.bad("call to %s with a container argument of kind %s" % (nm, v.kind), n)
                    continue
                if pk == "W":
                    v = self.to_word(v, n)
                if pk == "FN":
                    if v.kind == "NULL":
                        v = V("FN", "false")
                if v.kind != pk:
                    self.bad("call to %s: argument %s is a %s, the function takes a %s" % (nm, pn, v.kind, pk), n)
                terms.append(atom(v.term))
            s = self.fresh("st")
            callt = "%s%s %s%s" % (nm, "".join(" " + f for f in sig["fuels"]), E1["st"], "".join(" " + t for t in terms))
            if sig["ret"] == "VOID":
                return "bind (%s) (fun %s =>\n%s)" % (callt, s, k(V("VOID"), self.with_st(E1, s)))
            t = self.fresh("t")
            return "bind (%s) (fun '(%s, %s) =>\n%s)" % (callt, s, t, k(V(sig["ret"], t), self.with_st(E1, s)))
        return evargs(0, E, [], go)

    # ---------------------------------------------------------------- statements
    # C = {"brk": E -> text | None, "cont": E -> text | None, "ret": (V|None, E, node) -> text | None}
    def stmts(self, lst, E, k, C, live):
        if not lst:
            return k(E)
        s, rest = lst[0], lst[1:]
        live_here = refs(rest) | live
        knext = lambda E1: self.stmts(rest, E1, k, C, live)
        kind = s.get("kind")
        if kind == "CompoundStmt":
            inner = s.get("inner", []) or []
            declared = [d["name"] for x in inner if x.get("kind") == "DeclStmt" for d in x.get("inner", []) if d.get("kind") == "VarDecl"]
            outer = E

            def leave(E1):
                if not declared:
                    return knext(E1)
                E2 = dict(E1)
                E2["env"] = dict(E1["env"])
                E2["types"] = dict(E1["types"])
                for d in declared:
                    if d in outer["env"]:
                        E2["env"][d] = outer["env"][d]
                        E2["types"][d] = outer["types"].get(d)
                    else:
                        E2["env"].pop(d, None)
                        E2["types"].pop(d, None)
                return knext(E2)
            for d in declared:
                if d in E["env"]:
                    self.bad("declaration of %s shadows an outer variable" % d, s)
            return self.stmts(inner, E, leave, C, live_here - set(declared))
        if kind == "NullStmt":
            return knext(E)
        if kind == "DeclStmt":
            decls = list(s.get("inner", []))

            def go(i, E1):
                if i == len(decls):
                    return knext(E1)
                d = decls[i]
                if d.get("kind") != "VarDecl":
                    self.bad("declaration %s" % d.get("kind"), s)
                if d.get("storageClass"):
                    self.bad("%s local variable" % d["storageClass"], s)
                dk = self.decl_kind(d, s)
                if d["name"] not in self.order:
                    self.order.append(d["name"])
                E0 = dict(E1)
                E0["env"] = dict(E1["env"])
                E0["types"] = dict(E1["types"])
                E0["env"][d["name"]] = None
                E0["types"][d["name"]] = dk
                init = [c for c in d.get("inner", []) if is_expr(c)]
                if not init:
                    return go(i + 1, E0)
                return self.ev(init[0], E0, lambda v, E2: self.write_lv(("var", d["name"]), v, E2, d, lambda E3: go(i + 1, E3)))
            return go(0, E)
        if kind == "IfStmt":
            parts = s["inner"]
            if s.get("hasInit") or s.get("hasVar"):
                self.bad("if with a declaration", s)
            thn = [parts[1]]
            els = [parts[2]] if len(parts) > 2 else []
            phi = self.phi_if(parts[0], thn, els, E, s)
            if phi is not None:
                return phi(knext)
            return self.cond(parts[0], E, lambda E1: self.stmts(thn, E1, knext, C, live_here), lambda E1: self.stmts(els, E1, knext, C, live_here))
        if kind == "ReturnStmt":
            if C["ret"] is None:
                self.bad("return inside a loop", s)
            if s.get("inner"):
                return self.ev(s["inner"][0], E, lambda v, E1: C["ret"](v, E1, s))
            return C["ret"](None, E, s)
        if kind == "BreakStmt":
            if C["brk"] is None:
                self.bad("break outside a loop", s)
            return C["brk"](E)
        if kind == "ContinueStmt":
            if C["cont"] is None:
                self.bad("continue outside a loop", s)
            return C["cont"](E)
        if kind in ("WhileStmt", "DoStmt", "ForStmt"):
            return self.loop(s, E, knext, live_here)
        if is_expr(s):
            return self.ev(s, E, lambda _, E1: knext(E1))
        self.bad("statement %s" % kind, s)

    def simple_assigns(self, lst):
        """[(variable, expression)] when the statements are nothing but effect-free assignments to local variables, else None"""
        out = []
        for x in lst:
            if x.get("kind") == "CompoundStmt":
                sub = self.simple_assigns(x.get("inner", []) or [])
                if sub is None:
                    return None
                out += sub
                continue
            if x.get("kind") == "NullStmt":
                continue
            m = skip(x)
            if not (m.get("kind") == "BinaryOperator" and m.get("opcode") == "="):
                return None
            l = skip(m["inner"][0])
            if l.get("kind") != "DeclRefExpr" or l["referencedDecl"].get("kind") not in ("VarDecl", "ParmVarDecl") or not pure(m["inner"][1]):
                return None
            out.append((l["referencedDecl"]["name"], m["inner"][1], m))
        return out

    def pure_value(self, e, E):
        box = []
        self.ev(e, E, lambda v, E1: box.append(v) or "")
        return box[0]

    def phi_if(self, cnd, thn, els, E, s):
        """`if (c) x = e;` (both arms nothing but effect-free assignments to locals): no control flow, x becomes
        `if c then e else x`.  Returns None when the statement is not of that form, else knext -> text."""
        if not pure(cnd):
            return None
        a, b = self.simple_assigns(thn), self.simple_assigns(els)
        if a is None or b is None or not (a or b):
            return None
        ends = []
        for arm in (a, b):
            Ea = E
            for nm, e, m in arm:
                if nm not in Ea["env"]:
                    return None
                v = self.coerce(self.pure_value(e, Ea), Ea["types"].get(nm), m)
                if v.kind not in ("W", "I", "D", "SP", "B"):
                    return None
                Ea = self.with_var(Ea, nm, v)
            ends.append(Ea)
        names = [nm for nm in self.order if nm in {x[0] for x in a + b}]
        for nm in names:
            if any(En["env"].get(nm) is None for En in ends):
                return None               # assigned in one arm only and uninitialised before: leave it to the general scheme
            if ends[0]["env"][nm].kind != ends[1]["env"][nm].kind:
                return None
        ct = self.pure_value(cnd, E)
        ct = self.truth(ct, s)

        def build(knext):
            def go(i, E1):
                if i == len(names):
                    return knext(E1)
                nm = names[i]
                x = self.fresh(nm)
                t = "if %s then %s else %s" % (ct, ends[0]["env"][nm].term, ends[1]["env"][nm].term)
                return "let %s := %s in\n%s" % (x, t, go(i + 1, self.with_var(E1, nm, V(ends[0]["env"][nm].kind, x))))
            return go(0, E)
        return build

    def decl_kind(self, d, s):
        t = self.ctype(d)
        if t == "unsignedlong":
            return "W"
        if t == "int":
            return "I"
        if t == "long":
            return "D"
        if t == "unsignedchar":
            return "Y"
        if t.endswith("*") and "(" not in t:
            return "PTR"
        self.bad("local variable %s of type `%s`" % (d.get("name"), qual(d)), s)

    # ---------------------------------------------------------------- loops
    def loop(self, s, E, kafter, live_after):
        kind = s["kind"]
        if kind == "WhileStmt":
            parts = s["inner"]
            if len(parts) != 2:
                self.bad("while with a declaration", s)
            init, cnd, step, body = None, parts[0], None, parts[1]
        elif kind == "DoStmt":
            init, cnd, step, body = None, s["inner"][1], None, s["inner"][0]
        else:
            init, var, cnd, step, body = s["inner"]
            if var:
                self.bad("for with a condition variable", s)
            init, cnd, step = init or None, cnd or None, step or None
            if init is not None and init.get("kind") == "DeclStmt":
                self.bad("for with a declaration", s)
        if init is not None:
            return self.ev(init, E, lambda _, E1: self.loop_core(s, kind, cnd, step, body, E1, kafter, live_after))
        return self.loop_core(s, kind, cnd, step, body, E, kafter, live_after)

    def loop_core(self, s, kind, cnd, step, body, E, kafter, live_after):
        if E["inloop"]:
            self.bad("nested loop", s)
        pieces = [x for x in (cnd, step, body) if x is not None]
        inside = set()

        def decls(n):
            if isinstance(n, dict):
                if n.get("kind") == "VarDecl":
                    inside.add(n["name"])
                for c in n.get("inner", []) or []:
                    decls(c)
        for x in pieces:
            decls(x)
        used = refs(pieces) - inside
        for v in used:
            if v not in E["env"]:
                self.bad("the loop uses %s, which is not known here" % v, s)
        rd_st, wr_st = touches_state(pieces, self.tr)
        # variables handed in: those the loop uses that have a value and a first-order term (the container itself is the state)
        carried = [v for v in self.order if v in used and E["env"].get(v) is not None and (E["env"][v].kind in GTYPE or E["env"][v].kind == "XA")]
        fixed = {v: E["env"][v] for v in used if E["env"].get(v) is not None and v not in carried}
        arrs = sorted({E["env"][v].lit for v in carried if E["env"][v].kind == "XA"})      # outside arrays: handed in, never changed
        outs = [v for v in self.order if v in assigned(pieces) and v in live_after and v in E["env"] and v not in inside]
        key = (s.get("id"), tuple((v, E["env"][v].kind) for v in carried), tuple(outs), tuple(sorted((v, fixed[v].kind) for v in fixed)))
        if key not in self.loops:
            self.nloops += 1
            name = "%s_loop%d" % (self.name, self.nloops)
            fuel = "fuel_%s" % name
            saved, saved_lf = self.counter, self.loop_fuels
            self.counter = {}
            self.loop_fuels = []
            EL = dict(E)
            EL["env"] = {}
            for v in E["env"]:
                if v in carried:
                    EL["env"][v] = V(E["env"][v].kind, v + "'0", lit=E["env"][v].lit if E["env"][v].kind in ("FN", "BLK", "XA") else None)
                elif v in fixed:
                    EL["env"][v] = fixed[v]
                else:
                    EL["env"][v] = None
            EL["inloop"] = True
            EL["st"] = "st'0" if rd_st else None
            out_kinds = {}

            def pack(E1, vals):
                items = ([E1["st"]] if wr_st else []) + vals
                return items[0] if len(items) == 1 else "tt" if not items else "(" + ", ".join(items) + ")"

            def exit_(E1):
                vals = []
                for v in outs:
                    if E1["env"].get(v) is None:
                        self.bad("%s may be uninitialised after the loop" % v, s)
                    kd = E1["env"][v].kind
                    if out_kinds.setdefault(v, kd) != kd:
                        self.bad("%s leaves the loop as a %s on one path and a %s on another" % (v, out_kinds[v], kd), s)
                    vals.append(E1["env"][v].term)
                return "Ok %s" % atom(pack(E1, vals))

            def again(E1):
                vals = []
                for v in carried:
                    if E1["env"].get(v) is None:
                        self.bad("%s may be uninitialised at the next iteration" % v, s)
                    if E1["env"][v].kind != E["env"][v].kind:
                        self.bad("%s changes its kind inside the loop" % v, s)
                    vals.append(atom(E1["env"][v].term))
                return "%s fuel'%s%s%s%s" % (name, "".join(" " + f for f in self.loop_fuels), (" " + E1["st"]) if rd_st else "",
                                            "".join(" " + a for a in arrs), "".join(" " + x for x in vals))

            live_in = refs(pieces) | live_after
            if kind == "DoStmt":
                test = lambda E1: self.cond(cnd, E1, again, exit_)
                CL = {"brk": exit_, "cont": test, "ret": None}
                it = self.stmts([body], EL, test, CL, live_in)
            else:
                nxt = (lambda E1: self.ev(step, E1, lambda _, E2: again(E2))) if step is not None else again
                CL = {"brk": exit_, "cont": nxt, "ret": None}
                run = lambda E1: self.stmts([body], E1, nxt, CL, live_in)
                it = self.cond(cnd, EL, run, exit_) if cnd is not None else run(EL)
            tys = (["cst"] if wr_st else []) + [GTYPE[out_kinds.get(v, E["env"][v].kind if E["env"].get(v) is not None else "W")] for v in outs]
            ty = tys[0] if len(tys) == 1 else "unit" if not tys else "(" + " * ".join(tys) + ")"
            if " " in ty and not ty.startswith("("):
                ty = "(" + ty + ")"
            params = "".join(" (%s : nat)" % f for f in self.loop_fuels) + (" (st'0 : cst)" if rd_st else "") + \
                "".join(" (%s : list elem)" % a for a in arrs) + \
                "".join(" (%s'0 : %s)" % (v, "N" if E["env"][v].kind == "XA" else gtype(E["env"][v])) for v in carried)
            self.defs.append("Fixpoint %s (fuel : nat)%s {struct fuel} : res %s :=\n  match fuel with\n  | O => Err OutOfFuel\n"
                             "  | S fuel' =>\n%s\n  end." % (name, params, ty, ind(it, 6)))
            if any(out_kinds.get(v) == "XA" for v in outs):
                self.bad("a pointer into an outside array is used after the loop that moves it", s)
            self.loops[key] = (name, fuel, list(self.loop_fuels), dict(out_kinds))
            inner_fuels = self.loop_fuels
            self.counter, self.loop_fuels = saved, saved_lf
            for f in inner_fuels:
                self.need_fuel(f)
        name, fuel, inner_fuels, out_kinds = self.loops[key]
        self.need_fuel(fuel)
        for f in inner_fuels:
            self.need_fuel(f)
        callt = "%s %s%s%s%s%s" % (name, fuel, "".join(" " + f for f in inner_fuels), (" " + E["st"]) if rd_st else "",
                                   "".join(" " + a for a in arrs), "".join(" " + atom(E["env"][v].term) for v in carried))
        news = [self.fresh(v) for v in outs]
        E2 = dict(E)
        E2["env"] = dict(E["env"])
        for v, t in zip(outs, news):
            E2["env"][v] = V(out_kinds.get(v, "W"), t)
        for v in assigned(pieces):
            if v not in outs and v in E2["env"] and v not in inside:
                E2["env"][v] = None
        items = []
        if wr_st:
            st2 = self.fresh("st")
            items.append(st2)
            E2["st"] = st2
        items += news
        pat = items[0] if len(items) == 1 else "_" if not items else "'(" + ", ".join(items) + ")"
        return "bind (%s) (fun %s =>\n%s)" % (callt, pat, kafter(E2))

    # ---------------------------------------------------------------- the function
    def run(self):
        tr, conf = self.tr, self.tr.conf
        params = [c for c in self.node.get("inner", []) if c["kind"] == "ParmVarDecl"]
        body = [c for c in self.node["inner"] if c["kind"] == "CompoundStmt"][0]
        rt = norm_type(self.node["type"]["qualType"].split("(")[0])
        rq = self.node["type"].get("desugaredQualType") or self.node["type"]["qualType"]
        if self.ret is None:
            if rt == "void":
                self.ret = "VOID"
            elif rt == "int":
                self.ret = "I"
            elif rt in ("a_size", "unsignedlong"):
                self.ret = "W"
            elif rt == "void*":
                self.ret = "SP"
            elif rt in conf["ctx_types"]:
                self.ret = "OCTX"
            else:
                self.bad("return type `%s`" % rt, self.node)
        env, types, sig_params, have_ctx = {}, {}, [], False
        for i, p in enumerate(params):
            t = norm_type(qual(p))
            nm = p.get("name")
            if t in conf["ctx_types"] or (conf["void_ctx"] and i == 0 and t == "void*" and nm in ("ctx", "ctx_")):
                if have_ctx:
                    self.bad("a second container parameter %s" % nm, p)
                have_ctx = True
                env[nm], types[nm] = V("CTX"), "PTR"
                sig_params.append((nm, "CTX"))
            elif t == "unsignedlong":
                env[nm], types[nm] = V("W", nm + "'0"), "W"
                sig_params.append((nm, "W"))
            elif t == "long":
                env[nm], types[nm] = V("D", nm + "'0"), "D"
                sig_params.append((nm, "D"))
            elif conf.get("no_ctx") and t == "void*":
                env[nm], types[nm] = V("SP", nm + "'0"), "PTR"
                sig_params.append((nm, "SP"))
            elif t == "void(*)(void*)" and nm == "dtor":
                env[nm], types[nm] = V("FN", nm + "'0", lit="dtor"), "FN"
                sig_params.append((nm, "FN"))
            elif t.startswith("int(*)(") and t.count(",") == 1 and nm in ("cmp", "copy"):
                env[nm], types[nm] = V("FN", nm + "'0", lit=nm), "FN"
                sig_params.append((nm, "FN:" + nm))
            elif t == "void*" and qual(p).startswith("const "):
                # a pointer to ONE element outside the container that is only read (a key): its content
                env[nm], types[nm] = V("XE", nm + "'0"), "PTR"
                sig_params.append((nm, "XE"))
            elif t == "void*":
                # a pointer to an ARRAY of elements outside the container (the source of store): its content, and a byte offset
                env[nm], types[nm] = V("XA", "0", lit=nm + "'0"), "PTR"
                sig_params.append((nm, "XA"))
            else:
                self.bad("parameter %s of type `%s`" % (nm, qual(p)), p)
            self.order.append(nm)
        if not have_ctx and self.ret != "OCTX" and not conf.get("no_ctx"):
            self.bad("function without a container parameter", self.node)
        E = {"env": env, "types": types, "st": "st'0", "inloop": False}
        env0 = dict(env)

        def kret(v, E1, s):
            if self.ret == "VOID":
                if v is not None and v.kind != "VOID":
                    self.bad("return of a value from a void function", s)
                return "Ok %s" % E1["st"]
            if v is None:
                self.bad("return without a value", s)
            if self.ret == "I":
                if v.kind != "I":
                    self.bad("return of a %s value from a function returning int" % v.kind, s)
                return "Ok (%s, %s)" % (E1["st"], v.term)
            if self.ret == "W":
                return "Ok (%s, %s)" % (E1["st"], self.to_word(v, s).term)
            if self.ret == "FE":
                if v.kind == "FE":
                    return "Ok (%s, %s)" % (E1["st"], v.term)
                if v.kind == "NULL":
                    return "Ok (%s, None)" % E1["st"]
                self.bad("return of a %s value from a function returning what bsearch found" % v.kind, s)
            if self.ret == "SP":
                if v.kind == "FE":
                    raise Retry("FE")
                if v.kind == "SP":
                    return "Ok (%s, %s)" % (E1["st"], v.term)
                if v.kind in ("NULL", "OSP"):
                    raise Retry("OSP")
                if v.kind == "BLK":
                    raise Retry("BLK")
                self.bad("return of a %s value from a function returning a pointer" % v.kind, s)
            if self.ret == "OSP":
                return "Ok (%s, %s)" % (E1["st"], self.as_osp(v, s))
            if self.ret == "BLK":
                if v.kind in ("SP", "OSP"):
                    raise Retry("OSP")
                if v.kind == "BLK":
                    return "Ok (%s, %s)" % (E1["st"], v.term)
                if v.kind == "NULL":
                    return "Ok (%s, None)" % E1["st"]
                self.bad("return of a %s value from a function returning the block pointer" % v.kind, s)
            if self.ret == "OCTX":
                if v.kind == "CTX":
                    return "Ok (%s, c_self %s)" % (E1["st"], E1["st"])
                if v.kind == "OCTX":
                    return "Ok (%s, %s)" % (E1["st"], v.term)
                if v.kind == "NULL":
                    return "Ok (%s, None)" % E1["st"]
                self.bad("return of a %s value from a function returning the container" % v.kind, s)
            self.bad("return", s)
        kend = (lambda E1: "Ok %s" % E1["st"]) if self.ret == "VOID" else (lambda E1: self.bad("control reaches the end of a non-void function", self.node))
        C = {"brk": None, "cont": None, "ret": kret}
        term = self.stmts(body.get("inner", []) or [], E, kend, C, set())
        rty = {"VOID": "cst", "I": "(cst * N)", "W": "(cst * N)", "SP": "(cst * N)", "OSP": "(cst * option N)", "BLK": "(cst * option N)",
               "OCTX": "(cst * option N)", "FE": "(cst * option elem)"}[self.ret]
        ps = "".join(" (%s : nat)" % f for f in self.fuels) + " (st'0 : cst)" + \
            "".join(" (%s'0 : %s)" % (n, gtype(env0[n])) for n, kd in sig_params if kd != "CTX")
        head = "Definition %s%s : res %s :=" % (self.name, ps, rty)
        self.sig = {"ret": self.ret, "params": sig_params, "fuels": list(self.fuels), "loops": self.nloops,
                    "pure": not touches_state(body, tr)[1]}
        return "\n\n".join(self.defs + [head + "\n" + ind(term) + "."])


def translate_unit(repo, cfg, unit, names, a_ast=None, ast=None):
    """-> (Gallina text, {function: error}, {function: signature})"""
    from pathlib import Path
    repo = Path(repo)
    src = repo / "src" / UNITS[unit]["src"]
    try:
        if ast is None:
            ast = load_ast(src, repo / "include", cfg)
    except Unsupported as e:
        return "", {"src/%s (all %d functions)" % (UNITS[unit]["src"], len(names)): str(e)}, {}
    tr = Tr(ast, unit, a_ast)
    out, errs = [], {}
    for nm in names:
        try:
            out.append("(* %s *)\n%s" % (nm, tr.translate(nm)))
        except Unsupported as e:
            errs[nm] = str(e)
        except (KeyError, IndexError, TypeError, ValueError, AttributeError) as e:
            errs[nm] = "unexpected AST shape in %s (%s: %s)" % (nm, type(e).__name__, e)
    return "\n\n".join(out) + "\n", errs, dict(tr.done)


def translate(repo, cfg, vec_funcs=None, buf_funcs=None, a_funcs=None):
    """the whole module Gen.VecGen for one configuration header"""
    from pathlib import Path
    repo = Path(repo).resolve()
    cfg = Path(cfg).resolve()
    vec_funcs = VEC_FUNCS if vec_funcs is None else vec_funcs
    buf_funcs = BUF_FUNCS if buf_funcs is None else buf_funcs
    text, errs, sigs = PRELUDE, {}, {}
    try:
        a_ast = load_ast(repo / "src" / "a.c", repo / "include", cfg)
    except Unsupported as e:
        a_ast = None
        errs["src/a.c"] = str(e)
    for unit, names in (("a", A_FUNCS if a_funcs is None else a_funcs), ("vec", vec_funcs), ("buf", buf_funcs)):
        if not names:
            continue
        body, e, s = translate_unit(repo, cfg, unit, names, a_ast, ast=a_ast if unit == "a" else None)
        text += "(* ---------------------------------------------------------------- src/%s *)\n\n%s\n" % (UNITS[unit]["src"], body)
        errs.update(e)
        sigs.update(s)
    return text, errs, sigs


if __name__ == "__main__":
    # c2vec.py <repo> <configuration header>
    t, e, s = translate(sys.argv[1], sys.argv[2])
    print(t)
    for k, v in e.items():
        print("(* ERROR %s: %s *)" % (k, v))
