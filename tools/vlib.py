"""Shared machinery for the liba Rocq checks (see DESIGN.md section 2).

Every property check is a module checks/<ID>.py with a function run(ctx).
ctx (class Ctx below) provides:
  * building C harnesses from /repo's *current* working tree (never CMake's
    build directory) with a generated configuration header,
  * building the Rocq development (make, full .vo) and collecting the
    `Print Assumptions` output of Properties_<ID>.v,
  * building extracted OCaml model drivers,
  * the reporting contract: VIOLATION / KNOWN-FINDING lines, replay files,
    evidence/<ID>.json.
Only the Python standard library is used.
"""
import hashlib
import json
import os
import random
import re
import shutil
import subprocess
import sys
import time
from pathlib import Path

VERIF = Path(__file__).resolve().parent.parent
REPO = Path(os.environ.get("VERIF_REPO", "/repo"))
COQ = VERIF / "coq"
NPROC = os.cpu_count() or 4

HAVE_FLAGS = """ASINH ACOSH ATANH EXPM1 LOG1P ATAN2 HYPOT CSQRT CPOW CEXP CLOG
CSIN CCOS CTAN CSINH CCOSH CTANH CASIN CACOS CATAN CASINH CACOSH CATANH""".split()

FORBIDDEN = re.compile(
    r"\b(Admitted|admit|Axiom|Axioms|Parameter|Parameters|Conjecture|Conjectures|"
    r"Admit\s+Obligations|bypass_check|Unset\s+Guard\s+Checking|Unset\s+Positivity\s+Checking|"
    r"Unset\s+Universe\s+Checking|native_compute)\b")


def sh(cmd, timeout=600, cwd=None, stdin=None, env=None):
    """Run a command (list or shell string); return (rc, combined output)."""
    shell = isinstance(cmd, str)
    e = dict(os.environ)
    if env:
        e.update(env)
    try:
        p = subprocess.run(cmd, shell=shell, cwd=cwd, input=stdin, env=e,
                           stdout=subprocess.PIPE, stderr=subprocess.STDOUT,
                           timeout=timeout, text=True, errors="replace")
        return p.returncode, p.stdout
    except subprocess.TimeoutExpired as ex:
        out = ex.stdout or ""
        if isinstance(out, bytes):
            out = out.decode(errors="replace")
        return 124, out + "\n[timeout after %ss]" % timeout


def sh2(cmd, timeout=600, cwd=None, stdin=None, env=None):
    """Like sh but keeps stdout and stderr apart: (rc, stdout, stderr)."""
    e = dict(os.environ)
    if env:
        e.update(env)
    try:
        p = subprocess.run(cmd, shell=isinstance(cmd, str), cwd=cwd, input=stdin, env=e,
                           stdout=subprocess.PIPE, stderr=subprocess.PIPE,
                           timeout=timeout, text=True, errors="replace")
        return p.returncode, p.stdout, p.stderr
    except subprocess.TimeoutExpired as ex:
        def dec(x):
            if x is None:
                return ""
            return x.decode(errors="replace") if isinstance(x, bytes) else x
        return 124, dec(ex.stdout), dec(ex.stderr) + "\n[timeout after %ss]" % timeout


class CheckError(Exception):
    pass


class Ctx:
    def __init__(self, pid, tier, seed):
        self.pid = pid
        self.tier = tier
        self.seed = seed
        self.t0 = time.time()
        self.rng = random.Random(seed)
        # a run against a scratch copy (VERIF_REPO) gets its own build directory: it may run beside a run on /repo or beside
        # another scratch run of the same property
        scratch = "" if str(REPO) == "/repo" else "_" + hashlib.md5(str(REPO).encode()).hexdigest()[:8]
        self.build = VERIF / "build" / (pid + scratch)
        self.build.mkdir(parents=True, exist_ok=True)
        self.cov = {"evaluations": 0, "distinct_nontrivial": 0, "rule": "", "samples": [],
                    "obligations": 0, "discharged": 0, "checker_cmd": "", "trusted_base": []}
        self.assumptions = []
        self.n_viol = 0
        self.n_known = 0
        self.broken_ties = []      # names of theorems / correspondences that no longer check
        self.known = load_known_findings()
        self._replay_n = 0
        self.notes = []

    # ------------------------------------------------------------------ misc
    @property
    def quick(self):
        return self.tier == "quick"

    def log(self, *a):
        print("[%s %6.1fs]" % (self.pid, time.time() - self.t0), *a, flush=True)

    def subseed(self, tag):
        h = hashlib.sha256(("%d/%s" % (self.seed, tag)).encode()).digest()
        return int.from_bytes(h[:8], "big")

    # ------------------------------------------------------------ C building
    def cfg_header(self, have=1, real=8, overrides=None):
        """Configuration header for a direct compile of /repo/src/*.c.
        have: value for every A_HAVE_* switch; overrides: {name: 0/1}."""
        ov = overrides or {}
        tag = "h%d_r%d" % (have, real) + "".join("_%s%d" % (k, v) for k, v in sorted(ov.items()))
        d = VERIF / "build" / "cfg"
        d.mkdir(parents=True, exist_ok=True)
        p = d / (tag + ".h")
        ver = "0.0.0"
        try:
            txt = (REPO / "CMakeLists.txt").read_text()
            m = re.search(r"project\s*\(\s*\w+\s+VERSION\s+([0-9.]+)", txt)
            if m:
                ver = m.group(1)
        except OSError:
            pass
        parts = (ver.split(".") + ["0", "0", "0"])[:3]
        lines = ["/* generated by /verif/tools/vlib.py */",
                 '#define A_VERSION "%s"' % ver,
                 "#define A_VERSION_MAJOR %s" % parts[0],
                 "#define A_VERSION_MINOR %s" % parts[1],
                 "#define A_VERSION_PATCH %s" % parts[2],
                 "#define A_VERSION_TWEAK 20000101",
                 "#define A_SIZE_POINTER 8", "#define A_BYTE_ORDER 1234",
                 "#define A_SIZE_REAL %d" % real]
        for f in HAVE_FLAGS:
            v = ov.get(f, have)
            if v:
                lines.append("#define A_HAVE_%s 1" % f)
        new = "\n".join(lines) + "\n"
        if not p.exists() or p.read_text() != new:
            p.write_text(new)
        return p

    def cc(self, out, harness_srcs, repo_srcs=(), mode="asan", have=1, real=8,
           overrides=None, extra=(), cxx=False, timeout=300, defines=()):
        """Compile harness + repo sources (from the current /repo tree) into build/<id>/<out>."""
        cfg = self.cfg_header(have, real, overrides)
        comp = "g++" if cxx else "gcc"
        flags = ["-std=c11"] if not cxx else ["-std=c++11"]
        if mode == "asan":
            flags += ["-O1", "-g", "-fsanitize=address,undefined", "-fno-sanitize-recover=all",
                      "-fno-omit-frame-pointer"]
        elif mode == "num":
            flags += ["-O2", "-ffp-contract=off", "-fno-fast-math", "-fexcess-precision=standard"]
        elif mode == "plain":
            flags += ["-O1", "-g"]
        else:
            raise CheckError("unknown cc mode " + mode)
        cmd = [comp] + flags + ["-w", "-I", str(REPO / "include"), "-I", str(VERIF / "harness"),
                                "-DA_EXPORTS",
                                '-DA_HAVE_H="%s"' % cfg] + ["-D" + d for d in defines]
        cmd += [str(s) for s in harness_srcs] + [str(REPO / "src" / s) for s in repo_srcs]
        outp = self.build / out
        cmd += ["-o", str(outp)] + list(extra) + ["-lm"]
        rc, o = sh(cmd, timeout=timeout)
        if rc != 0:
            raise CheckError("C build failed (%s):\n%s" % (" ".join(cmd), o[-4000:]))
        return outp

    # ---------------------------------------------------------- Rocq building
    def coq_setup(self):
        """Write _CoqProject (for editors / coq_makefile users).  The checks do not use make: they
        drive coqc themselves (coq_build) so that concurrent checks never share a Makefile."""
        files = sorted(str(f.relative_to(COQ)) for f in COQ.rglob("*.v")
                       if not any(part.startswith(".") for part in f.relative_to(COQ).parts))
        for f in files:          # extraction targets live in (untracked) <ID>/extracted/
            if Path(f).name.startswith("Extract"):
                (COQ / Path(f).parent / "extracted").mkdir(exist_ok=True)
        txt = "-Q . LibaV\n" + "\n".join(files) + "\n"
        cp = COQ / "_CoqProject"
        if (not cp.exists()) or cp.read_text() != txt:
            cp.write_text(txt)
        return files

    def coq_direct_deps(self, vfile):
        rc, o = sh(["coqdep", "-Q", ".", "LibaV", vfile], cwd=COQ)
        res = []
        for ln in o.splitlines():
            if ":" not in ln:
                continue
            lhs, rhs = ln.split(":", 1)
            if (vfile[:-2] + ".vo") not in lhs.split():
                continue
            for m in re.finditer(r"(\S+)\.vo\b", rhs):
                g = m.group(1) + ".v"
                if g.startswith("./"):
                    g = g[2:]
                if g != vfile and (COQ / g).exists():
                    res.append(g)
        return sorted(set(res))

    def coq_build(self, targets, timeout=1500, force=()):
        """Mini-make: compile the given .v files (paths relative to coq/) and everything they depend
        on inside the project, full .vo, in dependency order, independent files in parallel.
        Returns (ok, {file: output}, [failed files])."""
        from concurrent.futures import ThreadPoolExecutor
        graph = {}
        todo = list(targets)
        while todo:
            f = todo.pop()
            if f in graph:
                continue
            graph[f] = self.coq_direct_deps(f)
            todo.extend(graph[f])
        outputs, failed, done, rebuilt = {}, [], set(), set()
        t_end = time.time() + timeout

        def stale(f):
            vo = (COQ / f).with_suffix(".vo")
            if f in force or not vo.exists():
                return True
            mt = vo.stat().st_mtime
            if (COQ / f).stat().st_mtime > mt:
                return True
            return any(d in rebuilt or (COQ / d).with_suffix(".vo").stat().st_mtime > mt for d in graph[f])

        def compile_one(f):
            left = max(5, t_end - time.time())
            vo = (COQ / f).with_suffix(".vo")
            if vo.exists():
                vo.unlink()
            rc, o = sh(["coqc", "-Q", ".", "LibaV", "-w", "-notation-overridden,-deprecated-hint-without-locality,-deprecated-instance-without-locality,-deprecated-syntactic-definition", f],
                       cwd=COQ, timeout=left)
            return f, rc, o

        while len(done) + len(failed) < len(graph):
            blocked = set(failed)
            ready = [f for f in graph if f not in done and f not in failed
                     and all(d in done for d in graph[f])]
            if not ready:
                # everything left depends on a failed file
                for f in graph:
                    if f not in done and f not in failed:
                        failed.append(f)
                        outputs[f] = "not built: a dependency failed"
                break
            to_compile = [f for f in ready if stale(f)]
            for f in ready:
                if f not in to_compile:
                    done.add(f)
            if to_compile:
                with ThreadPoolExecutor(max_workers=NPROC) as ex:
                    for f, rc, o in ex.map(compile_one, to_compile):
                        outputs[f] = o
                        if rc == 0 and (COQ / f).with_suffix(".vo").exists():
                            done.add(f)
                            rebuilt.add(f)
                        else:
                            failed.append(f)
                            if rc == 124:
                                outputs[f] = o + "\n[coqc timeout]"
        return (not failed), outputs, failed

    def scan_forbidden(self, files):
        bad = []
        for f in files:
            txt = Path(f).read_text()
            # strip comments (non-nested approximation is enough: we also strip nested by loop)
            prev = None
            while prev != txt:
                prev = txt
                txt = re.sub(r"\(\*[^()]*?\*\)", "", txt, flags=re.S)
                txt = re.sub(r"\(\*(?:(?!\(\*).)*?\*\)", "", txt, flags=re.S)
            for m in FORBIDDEN.finditer(txt):
                bad.append("%s: %s" % (Path(f).relative_to(COQ), m.group(0)))
            for m in re.finditer(r"^\s*(Variable|Variables|Hypothesis|Hypotheses|Context)\b", txt, flags=re.M):
                # allowed only inside a Section: check crude nesting
                pre = txt[:m.start()]
                depth = len(re.findall(r"^\s*Section\s+\w+", pre, flags=re.M)) - \
                    len(re.findall(r"^\s*End\s+\w+", pre, flags=re.M)) + \
                    len(re.findall(r"^\s*Module\s+(?:Type\s+)?\w+[^:=]*\.\s*$", pre, flags=re.M))
                if depth <= 0:
                    bad.append("%s: %s outside a Section" % (Path(f).relative_to(COQ), m.group(1)))
        return bad

    def coq_deps(self, vfile):
        seen, todo = set(), [vfile]
        while todo:
            f = todo.pop()
            if f in seen:
                continue
            seen.add(f)
            todo.extend(self.coq_direct_deps(f))
        return sorted(seen)

    def prove(self, props="", timeout=1500):
        """Build Properties_<ID>.vo (full .vo, never -vos) and parse Print Assumptions.
        Returns True iff every theorem of the file was accepted by coqc."""
        props = props or ("Properties_%s.v" % self.pid)
        self.coq_setup()
        pf = COQ / props
        src = pf.read_text()
        thms = re.findall(r"^\s*(?:Theorem|Lemma|Corollary)\s+([\w']+)", src, flags=re.M)
        self.cov["obligations"] += len(thms)
        self.cov["checker_cmd"] = ("coqc 8.16.1 (full .vo, dependency order, driven by tools/vlib.py coq_build) on %s "
                                   "and all project files it requires; Print Assumptions under every theorem" % props)
        deps = self.coq_deps(props)
        bad = self.scan_forbidden([COQ / d for d in deps])
        if bad:
            self.broken_ties.append("forbidden construct in development: " + "; ".join(bad[:10]))
            self.log("FORBIDDEN:", bad)
            return False
        n_pa_src = len(re.findall(r"^\s*Print\s+Assumptions\s+[\w']+\s*\.\s*$", src, flags=re.M))
        sharded = self.tier == "quick" and n_pa_src >= 16 and n_pa_src == len(re.findall(r"Print\s+Assumptions", src))
        if sharded:
            ok, outs, failed = self.prove_sharded(props, src, deps, timeout)
        else:
            ok, outs, failed = self.coq_build([props], timeout=timeout, force=(props,))
        (self.build / "coq_build.log").write_text("\n".join("== %s ==\n%s" % kv for kv in outs.items()))
        if not ok:
            desc = []
            for f in failed:
                o = outs.get(f, "")
                m = re.search(r'File "\./?([^"]+)", line (\d+), characters [^\n]*\n((?:[^\n]*\n?){0,12})', o)
                if m:
                    name = enclosing_name(COQ / m.group(1), int(m.group(2)))
                    desc.append("%s:%s (%s): %s" % (m.group(1), m.group(2), name, " ".join(m.group(3).split())[:300]))
                elif "dependency failed" not in o:
                    desc.append("%s: %s" % (f, " ".join(o.split())[-300:]))
            self.broken_ties.extend(["proof obligation no longer checks: " + d for d in desc] or
                                    ["proof build failed: " + ",".join(failed)])
            self.log("PROOF BUILD FAILED:", *desc)
            return False
        out = outs.get(props, "")
        axioms = set()
        for b in re.split(r"\n(?=Closed under the global context|Axioms:)", "\n" + out):
            if b.startswith("Axioms:"):
                for m in re.finditer(r"^([A-Za-z_][\w.']*)\s*\n?\s*:", b[len("Axioms:"):], flags=re.M):
                    axioms.add(m.group(1))
        n_pa = len(re.findall(r"Print\s+Assumptions", src))
        n_out = len(re.findall(r"^(Closed under the global context|Axioms:)", out, flags=re.M))
        if n_pa < len(thms) or n_out < n_pa:
            self.broken_ties.append("%s: %d theorems but %d Print Assumptions (%d reported)" % (props, len(thms), n_pa, n_out))
            return False
        self.cov["discharged"] += len(thms)
        tb = ["Coq 8.16.1 kernel (coqc, vm_compute; no native_compute)"]
        if axioms:
            tb.append("axioms reported by Print Assumptions under the %d theorems of %s: %s"
                      % (len(thms), props, ", ".join(sorted(axioms))))
        else:
            tb.append("Print Assumptions: all %d theorems of %s closed under the global context" % (n_pa, props))
        self.cov["trusted_base"].extend(tb)
        self.cov.setdefault("theorems", []).extend(thms)
        self.log("proved %d theorems of %s; axioms: %s" % (len(thms), props, sorted(axioms) or "none"))
        return True

    def prove_sharded(self, props, src, deps, timeout):
        """Same obligations as compiling <props> itself, arranged for wall-clock time: `Print Assumptions` walks the whole
        environment (about a second per theorem once Reals/Coquelicot/Interval are loaded), so the statements-and-proofs part
        of the file (every Print Assumptions line blanked, line numbers kept) is compiled once in build/<id>/props/, and the
        Print Assumptions commands are replayed against that .vo in parallel shards.  The thorough tier and the setup command
        compile the file as it stands."""
        need = [d for d in deps if d != props]
        ok, outs, failed = self.coq_build(need, timeout=timeout)
        if not ok:
            return ok, outs, failed
        pd = self.build / "props"
        shutil.rmtree(pd, ignore_errors=True)
        pd.mkdir(parents=True)
        names = re.findall(r"^\s*Print\s+Assumptions\s+([\w']+)\s*\.\s*$", src, flags=re.M)
        stripped = re.sub(r"^\s*Print\s+Assumptions\s+[\w']+\s*\.\s*$", "", src, flags=re.M)
        mod = Path(props).stem
        (pd / props).write_text(stripped)
        rc, out = sh(["coqc", "-Q", str(COQ), "LibaV", "-Q", str(pd), "PropsShard", "-w", "none", str(pd / props)], cwd=pd, timeout=timeout)
        out = out.replace(str(pd / props), "./" + props)
        if rc != 0:
            outs[props] = out
            return False, outs, [props]
        k = max(1, min(12, len(names) // 6))
        shards = [names[i::k] for i in range(k)]

        def one(i):
            f = pd / ("PA_%d.v" % i)
            f.write_text("From PropsShard Require Import %s.\n" % mod + "".join("Print Assumptions %s.\n" % n for n in shards[i]))
            return sh(["coqc", "-Q", str(COQ), "LibaV", "-Q", str(pd), "PropsShard", "-w", "none", str(f)], cwd=pd, timeout=timeout)

        from concurrent.futures import ThreadPoolExecutor
        with ThreadPoolExecutor(max_workers=k) as ex:
            res = list(ex.map(one, range(k)))
        bad = [o for rc1, o in res if rc1 != 0]
        if bad:
            outs[props] = out + "\n" + "\n".join(bad)
            return False, outs, [props]
        outs[props] = out + "\n" + "\n".join(o for _, o in res)
        return True, outs, []

    def coq_eval(self, name, text, timeout=600):
        """Compile a generated .v (e.g. cases evaluated by vm_compute) against the built project;
        the file lives in build/<id>/, outside the project.  Returns (rc, output)."""
        f = self.build / (name + ".v")
        f.write_text(text)
        rc, out = sh(["coqc", "-Q", str(COQ), "LibaV", "-w", "none", str(f)], cwd=self.build, timeout=timeout)
        return rc, out

    def extract(self, extract_v, outputs, timeout=900):
        """Make sure the OCaml files produced by <extract_v> (an Extraction file of the project)
        exist and are current; returns their paths.  outputs are relative to coq/."""
        outs = [COQ / o for o in outputs]
        for o in outs:
            o.parent.mkdir(parents=True, exist_ok=True)
        force = () if all(o.exists() for o in outs) else (extract_v,)
        ok, log, failed = self.coq_build([extract_v], timeout=timeout, force=force)
        if not ok or not all(o.exists() for o in outs):
            raise CheckError("extraction failed for %s:\n%s" % (extract_v, "\n".join(log.values())[-3000:]))
        return outs

    def ocaml_build(self, out, ml_files, timeout=300, pkgs=()):
        """ocamlfind ocamlopt of extracted model + driver into build/<id>/<out>. Files are copied
        into a private directory so that compilation artefacts never touch tracked directories."""
        d = self.build / ("ml_" + out)
        if d.exists():
            shutil.rmtree(d)
        d.mkdir(parents=True)
        names = []
        for f in ml_files:
            f = Path(f)
            shutil.copy(f, d / f.name)
            names.append(f.name)
        cmd = ["ocamlfind", "ocamlopt", "-O2" if False else "-unsafe", "-w", "-a"]
        if pkgs:
            cmd += ["-package", ",".join(pkgs), "-linkpkg"]
        cmd += names + ["-o", str(self.build / out)]
        rc, o = sh(cmd, cwd=d, timeout=timeout)
        if rc != 0:
            raise CheckError("OCaml build failed:\n" + o[-4000:])
        return self.build / out

    # ------------------------------------------------- regenerated models (translator tie)
    def translate_and_tie(self, sources, gen_module, tie_file, have=1, real=8, timeout=600, overrides=None, externs=None, extra_sources=()):
        """Regenerate a Gallina model from the CURRENT sources with tools/c2coq.py and re-check the tie theorems.
        sources: [(path relative to /repo, [function names])]; the generated module build/<id>/gen/<gen_module>.v is
        compiled, then <tie_file> (hand-written statements `gen_f = hand model`, see harness/<id>/) is compiled against it.
        Every `Theorem tie_*` of the tie file is one obligation.  Returns True iff all were accepted."""
        import c2coq
        gd = self.build / "gen"
        gd.mkdir(exist_ok=True)
        cfg = self.cfg_header(have, real, overrides)
        text, errs = c2coq.HEADER, {}
        shared = {}          # signatures shared across files: later files may call functions translated from earlier ones
        for rel, names in sources:
            src_path = rel if str(rel).startswith("/") else REPO / rel
            t, sigs, e = c2coq.translate_file(str(src_path), str(REPO / "include"), str(cfg), names, sigs=shared, externs=externs,
                                               real_size=real, extra_sources=[str(REPO / x) for x in extra_sources])
            text += "(* ---- %s ---- *)\n%s\n" % (rel, t)
            errs.update(e)
        (gd / (gen_module + ".v")).write_text(text)
        tie_files = [Path(f) for f in (tie_file if isinstance(tie_file, (list, tuple)) else [tie_file])]
        tie_srcs = [f.read_text() for f in tie_files]
        thms = [t for src in tie_srcs for t in re.findall(r"^\s*Theorem\s+(tie_[\w']+)", src, flags=re.M)]
        self.cov["obligations"] += len(thms)
        self.cov.setdefault("translated_functions", []).extend(n for _, ns in sources for n in ns)
        if errs:
            for k, v in errs.items():
                self.tie_broken("translator c2coq: %s is outside the supported subset: %s" % (k, v))
            return False
        for f, src in zip(tie_files, tie_srcs):
            bad = self.scan_forbidden_text(src)
            if bad:
                self.tie_broken("forbidden construct in %s: %s" % (f, bad))
                return False
        rc, out = sh(["coqc", "-Q", str(COQ), "LibaV", "-Q", str(gd), "Gen", "-w", "none", str(gd / (gen_module + ".v"))],
                     cwd=gd, timeout=timeout)
        if rc != 0:
            self.tie_broken("generated model %s.v does not compile: %s" % (gen_module, " ".join(out.split())[-400:]))
            return False

        def one(fs):
            f, src = fs
            tf = gd / f.name
            tf.write_text(src)
            rc1, out1 = sh(["coqc", "-Q", str(COQ), "LibaV", "-Q", str(gd), "Gen", "-w", "none", str(tf)], cwd=gd, timeout=timeout)
            pa_out = ""
            if rc1 == 0:
                # Print Assumptions under every tie theorem (replayed against the .vo just produced)
                mine_ = re.findall(r"^\s*Theorem\s+(tie_[\w']+)", src, flags=re.M)
                paf = gd / ("PA_" + f.stem + ".v")
                paf.write_text("From Gen Require Import %s.\n" % f.stem + "".join("Print Assumptions %s.\n" % t_ for t_ in mine_))
                rc2, pa_out = sh(["coqc", "-Q", str(COQ), "LibaV", "-Q", str(gd), "Gen", "-w", "none", str(paf)], cwd=gd, timeout=timeout)
                if rc2 != 0 or len(re.findall(r"^(Closed under the global context|Axioms:)", pa_out, flags=re.M)) < len(mine_):
                    rc1, out1 = 1, "Print Assumptions failed for the tie theorems of %s: %s" % (f.name, pa_out[-300:])
            return f, tf, src, rc1, out1 + "\n@@PA@@\n" + pa_out

        from concurrent.futures import ThreadPoolExecutor
        with ThreadPoolExecutor(max_workers=max(1, min(12, len(tie_files)))) as ex:
            results = list(ex.map(one, zip(tie_files, tie_srcs)))
        ok = True
        tie_axioms = set()
        for f, tf, src, rc1, out1 in results:
            out1, _, pa_ = out1.partition("\n@@PA@@\n")
            for b in re.split(r"\n(?=Closed under the global context|Axioms:)", "\n" + pa_):
                if b.startswith("Axioms:"):
                    for m_ in re.finditer(r"^([A-Za-z_][\w.']*)\s*\n?\s*:", b[len("Axioms:"):], flags=re.M):
                        tie_axioms.add(m_.group(1))
            mine = re.findall(r"^\s*Theorem\s+(tie_[\w']+)", src, flags=re.M)
            if rc1 != 0:
                ok = False
                m = re.search(r'line (\d+), characters [^\n]*\n((?:[^\n]*\n?){0,10})', out1)
                name = enclosing_name(tf, int(m.group(1))) if m else "?"
                self.tie_broken("regenerated model no longer matches the proved model: tie theorem %s of %s fails: %s"
                                % (name, f.name, " ".join((m.group(2) if m else out1).split())[:400]))
                self.cov["discharged"] += max(0, mine.index(name)) if name in mine else 0
            else:
                self.cov["discharged"] += len(mine)
                self.cov.setdefault("theorems", []).extend(mine)
        if not ok:
            return False
        self.cov["trusted_base"].append("translator tools/c2coq.py (clang JSON AST -> Gallina); its output is re-tied on every run: "
                                        "%d tie theorems (generated term = proved model, for every NumOps instance) accepted by coqc; "
                                        "Print Assumptions under each: %s" % (len(thms), ("axioms " + ", ".join(sorted(tie_axioms))) if tie_axioms
                                                                               else "all closed under the global context"))
        self.log("translator tie: %d functions regenerated, %d tie theorems accepted" % (sum(len(ns) for _, ns in sources), len(thms)))
        return True

    def heap_translate_and_tie(self, unit, parts, gen_module, header, tie_file, have=1, real=8, timeout=600):
        """Pointer code: regenerate checked heap programs from the CURRENT sources with tools/c2heap.py and re-check the tie
        theorems.  unit: C file to parse (absolute or relative to /repo); parts: [(function names, c2heap configuration)];
        header: the Gallina preamble of the generated module.  Every `Theorem tie_*` of the tie file is an obligation."""
        import c2heap
        gd = self.build / "gen"
        gd.mkdir(exist_ok=True)
        cfg = self.cfg_header(have, real)
        text, errs, nfun = header, {}, 0
        src_path = unit if str(unit).startswith("/") else REPO / unit
        for names, conf in parts:
            t, e = c2heap.translate_file(str(src_path), str(REPO / "include"), str(cfg), names, conf)
            text += t + "\n"
            errs.update(e)
            nfun += len(names)
        (gd / (gen_module + ".v")).write_text(text)
        tie_src = Path(tie_file).read_text()
        thms = re.findall(r"^\s*Theorem\s+(tie_[\w']+)", tie_src, flags=re.M)
        self.cov["obligations"] += len(thms)
        self.cov.setdefault("translated_functions", []).extend(n for ns, _ in parts for n in ns)
        if errs:
            for k, v in errs.items():
                self.tie_broken("translator c2heap: %s is outside the supported subset: %s" % (k, v))
            return False
        bad = self.scan_forbidden_text(tie_src)
        if bad:
            self.tie_broken("forbidden construct in %s: %s" % (tie_file, bad))
            return False
        rc, out = sh(["coqc", "-Q", str(COQ), "LibaV", "-Q", str(gd), "Gen", "-w", "none", str(gd / (gen_module + ".v"))], cwd=gd, timeout=timeout)
        if rc != 0:
            self.tie_broken("generated heap programs %s.v do not compile: %s" % (gen_module, " ".join(out.split())[-400:]))
            return False
        tf = gd / Path(tie_file).name
        tf.write_text(tie_src)
        rc, out = sh(["coqc", "-Q", str(COQ), "LibaV", "-Q", str(gd), "Gen", "-w", "none", str(tf)], cwd=gd, timeout=timeout)
        if rc != 0:
            m = re.search(r'line (\d+), characters [^\n]*\n((?:[^\n]*\n?){0,10})', out)
            name = enclosing_name(tf, int(m.group(1))) if m else "?"
            self.tie_broken("regenerated heap program no longer matches the proved model: tie theorem %s of %s fails: %s"
                            % (name, Path(tie_file).name, " ".join((m.group(2) if m else out).split())[:400]))
            self.cov["discharged"] += max(0, thms.index(name)) if name in thms else 0
            return False
        paf = gd / ("PA_" + Path(tie_file).stem + ".v")
        paf.write_text("From Gen Require Import %s.\n" % Path(tie_file).stem + "".join("Print Assumptions %s.\n" % t_ for t_ in thms))
        rc2, pa = sh(["coqc", "-Q", str(COQ), "LibaV", "-Q", str(gd), "Gen", "-w", "none", str(paf)], cwd=gd, timeout=timeout)
        closed = len(re.findall(r"^Closed under the global context", pa, flags=re.M))
        if rc2 != 0 or closed < len(thms):
            self.tie_broken("Print Assumptions under the tie theorems of %s: %d of %d closed: %s" % (Path(tie_file).name, closed, len(thms), pa[-300:]))
            return False
        self.cov["discharged"] += len(thms)
        self.cov.setdefault("theorems", []).extend(thms)
        self.cov["trusted_base"].append("translator tools/c2heap.py (clang JSON AST -> checked heap programs over the model's accessors); its output "
                                        "is re-tied on every run: %d tie theorems (generated program = proved model, for every heap and address) "
                                        "accepted by coqc, all closed under the global context" % len(thms))
        self.log("heap translator tie: %d functions regenerated, %d tie theorems accepted" % (nfun, len(thms)))
        return True

    def int_translate_and_tie(self, sources, gen_module, tie_files, fuel=None, have=1, real=8, timeout=600, allowed_axioms=()):
        """Integer code: regenerate a Gallina model over N (machine arithmetic written out, errors as None) from the CURRENT
        sources with tools/c2int.py and re-check the tie theorems.  sources: [(path relative to /repo, [function names])], in
        call order; fuel: {function: [Gallina term for the fuel of its 1st, 2nd ... loop]} (see c2int.DEFAULT_FUEL);
        tie_files: harness/<ID>/TieInt*.v (statements `Gen.<gen_module>.f args = Some (hand model args)` for all in-range
        arguments; they may import LibaV files, which are built first, and each other in the order given).  Every
        `Theorem tie_*` is one obligation; `Print Assumptions` under each must report a closed term (or only axioms named in
        allowed_axioms).  Returns True iff all were accepted."""
        import c2int
        from concurrent.futures import ThreadPoolExecutor
        gd = self.build / "gen"
        gd.mkdir(exist_ok=True)
        cfg = self.cfg_header(have, real)
        text, errs, sigs, globs, nfun = c2int.PRELUDE, {}, {}, set(), 0
        for rel, names in sources:
            src_path = Path(rel) if str(rel).startswith("/") else REPO / rel
            try:
                t, e = c2int.translate_file(str(src_path.resolve()), str((REPO / "include").resolve()), str(cfg), names, fuel=fuel,
                                            tu_sigs=sigs, emitted_globals=globs)
            except c2int.Unsupported as ex:
                t, e = "", {n: str(ex) for n in names}
            text += "(* ---- %s ---- *)\n%s\n" % (rel, t)
            errs.update(e)
            nfun += len(names)
        (gd / (gen_module + ".v")).write_text(text)
        tie_files = [Path(f) for f in (tie_files if isinstance(tie_files, (list, tuple)) else [tie_files])]
        tie_srcs = [f.read_text() for f in tie_files]
        per_file = [re.findall(r"^\s*Theorem\s+(tie_[\w']+)", src, flags=re.M) for src in tie_srcs]
        thms = [t for ts in per_file for t in ts]
        self.cov["obligations"] += len(thms)
        self.cov.setdefault("translated_functions", []).extend(n for _, ns in sources for n in ns)
        if errs:
            for k, v in errs.items():
                self.tie_broken("translator c2int: %s is outside the supported subset: %s" % (k, v))
            return False
        for f, src in zip(tie_files, tie_srcs):
            bad = self.scan_forbidden_text(src)
            if bad:
                self.tie_broken("forbidden construct in %s: %s" % (f, bad))
                return False
        # project files the tie files rely on (extra lemmas about the hand models): built by the mini-make, scanned like the rest
        need = set()
        for src in tie_srcs:
            for m in re.finditer(r"From\s+LibaV\s+Require\s+(?:Import\s+|Export\s+)?(.*?)\.(?=\s|$)", src, flags=re.S):
                for mod in m.group(1).split():
                    p = mod.replace(".", "/") + ".v"
                    if (COQ / p).exists():
                        need.add(p)
        if need:
            deps = sorted(set(d for n in need for d in self.coq_deps(n)))
            bad = self.scan_forbidden([COQ / d for d in deps])
            if bad:
                self.tie_broken("forbidden construct in the files the tie relies on: " + "; ".join(bad[:10]))
                return False
            ok, outs, failed = self.coq_build(sorted(need), timeout=timeout)
            if not ok:
                self.tie_broken("lemma files of the integer tie do not build: %s: %s"
                                % (",".join(failed), " ".join(outs.get(failed[0], "").split())[-400:]))
                return False
        args = ["coqc", "-Q", str(COQ), "LibaV", "-Q", str(gd), "Gen", "-w", "none"]
        rc, out = sh(args + [str(gd / (gen_module + ".v"))], cwd=gd, timeout=timeout)
        if rc != 0:
            self.tie_broken("generated integer model %s.v does not compile: %s" % (gen_module, " ".join(out.split())[-400:]))
            return False

        def one(i):
            f, src, mine = tie_files[i], tie_srcs[i], per_file[i]
            tf = gd / f.name
            rc1, out1 = sh(args + [str(tf)], cwd=gd, timeout=timeout)
            pa = ""
            if rc1 == 0 and mine:
                paf = gd / ("PA_" + f.stem + ".v")
                paf.write_text("From Gen Require Import %s.\n" % f.stem + "".join("Print Assumptions %s.\n" % t_ for t_ in mine))
                rc2, pa = sh(args + [str(paf)], cwd=gd, timeout=timeout)
                if rc2 != 0:
                    rc1, out1 = 1, "Print Assumptions could not run for %s: %s" % (f.name, pa[-300:])
            return rc1, out1, pa

        # a tie file may import another one (`From Gen Require TieIntRev`): compile in waves, the files of a wave in parallel
        for f, src in zip(tie_files, tie_srcs):
            (gd / f.name).write_text(src)
            vo = (gd / f.name).with_suffix(".vo")
            if vo.exists():
                vo.unlink()
        stems = [f.stem for f in tie_files]
        needs = {}
        for i, src in enumerate(tie_srcs):
            toks = set()
            for m in re.finditer(r"From\s+Gen\s+Require\s+(?:Import\s+|Export\s+)?(.*?)\.(?=\s|$)", src, flags=re.S):
                toks.update(m.group(1).split())
            needs[i] = {stems.index(t) for t in toks if t in stems and stems.index(t) != i}
        results, done = {}, set()
        while len(done) < len(tie_files):
            wave = [i for i in range(len(tie_files)) if i not in done and needs[i] <= done]
            if not wave:
                wave = [i for i in range(len(tie_files)) if i not in done]      # a cycle: let coqc report it
            blocked = [i for i in wave if any(results.get(j, (0,))[0] != 0 for j in needs[i])]
            for i in blocked:
                results[i] = (2, "not checked: it imports %s, which failed"
                              % ", ".join(tie_files[j].name for j in sorted(needs[i]) if results.get(j, (0,))[0] != 0), "")
            wave_run = [i for i in wave if i not in blocked]
            with ThreadPoolExecutor(max_workers=max(1, min(6, len(wave_run)))) as ex:
                for i, r in zip(wave_run, ex.map(one, wave_run)):
                    results[i] = r
            done.update(wave)
        ok, axioms, n_closed = True, set(), 0
        for i in range(len(tie_files)):
            rc1, out1, pa = results[i]
            f, mine = tie_files[i], per_file[i]
            if rc1 == 2:
                ok = False
                self.log("tie file %s %s" % (f.name, out1))
                continue
            if rc1 != 0:
                ok = False
                m = re.search(r'line (\d+), characters [^\n]*\n((?:[^\n]*\n?){0,10})', out1)
                name = enclosing_name(gd / f.name, int(m.group(1))) if m else "?"
                self.tie_broken("regenerated integer model no longer matches the proved model: tie theorem %s of %s fails: %s"
                                % (name, f.name, " ".join((m.group(2) if m else out1).split())[:400]))
                self.cov["discharged"] += max(0, mine.index(name)) if name in mine else 0
                continue
            blocks = re.split(r"\n(?=Closed under the global context|Axioms:)", "\n" + pa)
            n_rep = 0
            for b in blocks:
                if b.startswith("Closed under the global context"):
                    n_closed += 1
                    n_rep += 1
                elif b.startswith("Axioms:"):
                    n_rep += 1
                    for m_ in re.finditer(r"^([A-Za-z_][\w.']*)\s*\n?\s*:", b[len("Axioms:"):], flags=re.M):
                        axioms.add(m_.group(1))
            if n_rep < len(mine):
                ok = False
                self.tie_broken("Print Assumptions reported %d of the %d tie theorems of %s" % (n_rep, len(mine), f.name))
                continue
            self.cov["discharged"] += len(mine)
            self.cov.setdefault("theorems", []).extend(mine)
        extra = sorted(a for a in axioms if a not in set(allowed_axioms))
        if extra:
            ok = False
            self.tie_broken("tie theorems of %s depend on axioms: %s" % (", ".join(f.name for f in tie_files), ", ".join(extra)))
        if not ok:
            return False
        self.cov["trusted_base"].append("translator tools/c2int.py (clang JSON AST -> Gallina over N, machine arithmetic written out, errors = None); "
                                        "its output is re-tied on every run: %d tie theorems (generated function = proved model for all in-range "
                                        "inputs) accepted by coqc; Print Assumptions under each: %s"
                                        % (len(thms), ("axioms " + ", ".join(sorted(axioms))) if axioms else "all closed under the global context"))
        self.log("integer translator tie: %d functions regenerated, %d tie theorems accepted" % (nfun, len(thms)))
        return True

    def scan_forbidden_text(self, txt):
        prev = None
        while prev != txt:
            prev = txt
            txt = re.sub(r"\(\*(?:(?!\(\*).)*?\*\)", "", txt, flags=re.S)
        return [m.group(0) for m in FORBIDDEN.finditer(txt)]

    # --------------------------------------------------------------- reporting
    def count(self, evaluations=0, nontrivial=0):
        self.cov["evaluations"] += evaluations
        self.cov["distinct_nontrivial"] += nontrivial

    def sample(self, s, limit=6):
        if len(self.cov["samples"]) < limit:
            self.cov["samples"].append(s)

    def tie_broken(self, what):
        """Record that a theorem or a correspondence no longer checks."""
        self.broken_ties.append(what)
        self.log("TIE BROKEN:", what)

    def report(self, key, what, replay, found_input=True):
        """A property violation.  key identifies the failing input / call site; if it is listed
        as open in KNOWN_FINDINGS.txt only a KNOWN-FINDING line is printed."""
        ent = self.known.get((self.pid, key))
        if ent and ent["state"] == "open":
            print("KNOWN-FINDING: property=%s %s" % (self.pid, ent["text"]), flush=True)
            self.n_known += 1
            return False
        d = VERIF / "replays" / self.pid
        d.mkdir(parents=True, exist_ok=True)
        self._replay_n += 1
        p = d / ("%s_%d_%d.json" % (self.tier, self.seed, self._replay_n))
        obj = {"property": self.pid, "key": key, "what": what, "seed": self.seed, "tier": self.tier,
               "found_failing_input": bool(found_input), "broken_ties": self.broken_ties, "replay": replay}
        p.write_text(json.dumps(obj, indent=1, default=str))
        tail = "" if found_input else " no-failing-input-found"
        print("VIOLATION property=%s replay=%s%s" % (self.pid, p, tail), flush=True)
        self.log("  ->", what)
        self.n_viol += 1
        return True

    def finish(self, level="proof"):
        """Write evidence and return the exit code."""
        # a broken tie that no oracle turned into a concrete violation is still a violation
        if self.broken_ties and self.n_viol == 0:
            self.report("broken-tie", "; ".join(self.broken_ties)[:2000],
                        {"broken": self.broken_ties}, found_input=False)
        cov = dict(self.cov)
        cov["trusted_base"] = sorted(set(cov["trusted_base"]))
        cov["known_findings_reported"] = self.n_known
        if self.notes:
            cov["notes"] = self.notes
        if not cov["samples"]:
            cov["samples"] = ["(no sample recorded)"]
        ev = {"property_id": self.pid, "tier": self.tier, "seed": self.seed, "level": level,
              "coverage": cov, "assumptions": self.assumptions,
              "wall_s": round(time.time() - self.t0, 2), "violations": self.n_viol}
        if str(REPO) != "/repo":
            # a run against a scratch copy (seeded change, VERIF_REPO): never overwrite the real evidence
            (self.build / "evidence_scratch.json").write_text(json.dumps(ev, indent=1, default=str))
        else:
            ed = VERIF / "evidence"
            ed.mkdir(exist_ok=True)
            (ed / (self.pid + ".json")).write_text(json.dumps(ev, indent=1, default=str))
        self.log("done: obligations %d/%d, evaluations %d, violations %d, known %d"
                 % (cov["discharged"], cov["obligations"], cov["evaluations"], self.n_viol, self.n_known))
        return 1 if self.n_viol else 0


def enclosing_name(path, line):
    try:
        lines = Path(path).read_text().splitlines()
    except OSError:
        return "?"
    for i in range(min(line, len(lines)) - 1, -1, -1):
        m = re.match(r"\s*(?:Theorem|Lemma|Corollary|Definition|Fixpoint|Example|Fact|Remark|Proposition|Instance)\s+([\w']+)", lines[i])
        if m:
            return m.group(1)
    return "?"


def load_known_findings():
    """KNOWN_FINDINGS.txt lines:
         open: property=<id> key=<key> <text>
         fixed: property=<id> <commit> <text>
    Only open entries suppress anything, and only for an exactly matching key."""
    res = {}
    p = VERIF / "KNOWN_FINDINGS.txt"
    if not p.exists():
        return res
    for ln in p.read_text().splitlines():
        ln = ln.strip()
        if not ln or ln.startswith("#"):
            continue
        m = re.match(r"open:\s+property=(\S+)\s+key=(\S+)\s+(.*)$", ln)
        if m:
            res[(m.group(1), m.group(2))] = {"state": "open", "text": "key=%s %s" % (m.group(2), m.group(3))}
            continue
    return res


def first_diff(a, b):
    """Index of the first differing line of two line lists (or None)."""
    n = min(len(a), len(b))
    for i in range(n):
        if a[i] != b[i]:
            return i
    if len(a) != len(b):
        return n
    return None


def ddmin(items, fails, max_tests=400):
    """Delta debugging: minimise a list `items` such that fails(sublist) stays True."""
    n = 2
    tests = 0
    items = list(items)
    while len(items) >= 2 and tests < max_tests:
        chunk = max(1, len(items) // n)
        reduced = False
        for i in range(0, len(items), chunk):
            cand = items[:i] + items[i + chunk:]
            tests += 1
            if cand and fails(cand):
                items = cand
                n = max(n - 1, 2)
                reduced = True
                break
            if tests >= max_tests:
                break
        if not reduced:
            if chunk == 1:
                break
            n = min(len(items), n * 2)
    return items
