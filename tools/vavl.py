"""vavl: the translator tie of property C01 at the pointer level (the rebalancing primitives of src/avl.c).

`avl_translate_and_tie(ctx)` regenerates the static helpers of src/avl.c (a_avl_new_child, a_avl_child, a_avl_set_child,
a_avl_set_parent_factor, a_avl_set_parent, a_avl_factor, a_avl_set_factor, a_avl_rotate, a_avl_rotate2, a_avl_handle_growth), the
exported a_avl_insert_adjust (first level + its retrace loop, with fuel), the removal side (a_avl_handle_shrink, a_avl_handle_remove
with its descent loop, a_avl_remove with its retrace loop) and the accessor a_avl_parent of include/a/avl.h from the CURRENT sources with tools/c2avl.py, once per node layout (packed word
parent_, A_SIZE_POINTER 8; separate parent / factor fields, A_SIZE_POINTER 1), into build/C01/gen_avl/<layout>/AvlGen.v, and
compiles harness/C01/TieAvl.v, TieAvlRemove.v and TieAvlInsert.v against each.  Every `Theorem tie_*` there is one obligation per layout:
  * the accessors and setters are the field operations the model's helpers stand for, for every state and argument;
  * a_avl_rotate / a_avl_rotate2 / a_avl_handle_growth, run on ANY heap in which a tree A (distinct ids) is laid out below a slot
    (Repr of coq/C01/AvlTieLemmas.v), succeed and leave a heap in which AvlDefs.rotate / rotate2 / handle_growth of A is laid
    out below the same slot, every cell outside A untouched;
  * a_avl_insert_adjust, run with fuel >= height on ANY heap that lays out a balanced search tree t with the new leaf linked at
    its search position, returns a heap that lays out the tree AvlDefs.ins returns (the bottom-up loop against the model's
    recursion), every other cell untouched;
  * a_avl_handle_shrink (all arms, with the `*left` out-parameter), a_avl_handle_remove (successor splice) and a_avl_remove (fuel >=
    height, started at the node the model removes) likewise against AvlDefs.handle_shrink / rem_min / rem;
  * a_avl_init, the whole public a_avl_insert (descent with the comparator as a Gallina function, init, link, retrace) against
    AvlDefs.ins, and a_avl_search = AvlDefs.search.
`Print Assumptions` under each must say "Closed under the global context".  Failures go to ctx.tie_broken with the name of the
tie theorem.  The part of the argument that does not depend on the C (coq/C01/AvlTieLemmas.v: vocabulary, packed-word
arithmetic, Repr and its frame lemmas, cell-level description of a rotation => rotated tree) is compiled by ctx.coq_build
(only when stale).  Honours VERIF_REPO (vlib.REPO)."""
import hashlib
import re
from concurrent.futures import ThreadPoolExecutor
from pathlib import Path

try:
    from tools import vlib
except ImportError:  # pragma: no cover
    import vlib
try:
    from tools import c2avl
except ImportError:  # pragma: no cover
    import c2avl

TIE_FILE = vlib.VERIF / "harness" / "C01" / "TieAvl.v"
# compiled in this order against the same generated module (a later file may require an earlier one as Gen.<name>)
TIE_FILES = [TIE_FILE, vlib.VERIF / "harness" / "C01" / "TieAvlRemove.v", vlib.VERIF / "harness" / "C01" / "TieAvlInsert.v"]
LEMMAS = "C01/AvlTieLemmas.v"
LEMMA_FILES = [LEMMAS, "C01/AvlTieLemmasRemove.v", "C01/AvlTieLemmasInsert.v"]
LAYOUTS = (("packed", "A_SIZE_POINTER 8: parent and factor+1 in the word parent_"),
           ("unpacked", "A_SIZE_POINTER 1: separate fields parent and factor"))
# which tie theorems speak about a function (its own, and those of the functions that call it)
USED_BY = {
    "a_avl_parent": ["a_avl_rotate", "a_avl_rotate2"],
    "a_avl_new_child": ["a_avl_rotate", "a_avl_rotate2"],
    "a_avl_child": ["a_avl_rotate", "a_avl_rotate2"],
    "a_avl_set_child": ["a_avl_rotate", "a_avl_rotate2"],
    "a_avl_set_parent_factor": ["a_avl_rotate2"],
    "a_avl_set_parent": ["a_avl_rotate", "a_avl_rotate2"],
    "a_avl_factor": ["a_avl_rotate2", "a_avl_handle_growth", "a_avl_insert_adjust"],
    "a_avl_set_factor": ["a_avl_handle_growth", "a_avl_insert_adjust"],
    "a_avl_rotate": ["a_avl_handle_growth", "a_avl_insert_adjust"],
    "a_avl_rotate2": ["a_avl_handle_growth", "a_avl_insert_adjust"],
    "a_avl_handle_growth": ["a_avl_insert_adjust"],
    "a_avl_handle_shrink": ["a_avl_remove"],
    "a_avl_init": ["a_avl_insert"],
    "a_avl_insert_adjust": ["a_avl_insert"],
    "a_avl_handle_remove": ["a_avl_remove"],
}
for _f in ("a_avl_parent", "a_avl_factor", "a_avl_set_factor", "a_avl_child", "a_avl_rotate", "a_avl_rotate2"):
    USED_BY[_f] = USED_BY[_f] + ["a_avl_handle_shrink", "a_avl_remove"]
for _f in ("a_avl_parent", "a_avl_set_parent", "a_avl_new_child"):
    USED_BY[_f] = USED_BY[_f] + ["a_avl_handle_remove", "a_avl_remove"]
USED_BY["a_avl_parent"].append("a_avl_insert_adjust")


def layout_cfg(ctx, layout):
    """configuration header of a layout: the default one, or the same with A_SIZE_POINTER forced to a value with no spare bits
    (the #else arms of avl.h / avl.c), as build_unpacked of checks/C01.py does"""
    base = ctx.cfg_header()
    if layout == "packed":
        return base
    txt = base.read_text().replace("#define A_SIZE_POINTER 8", "#define A_SIZE_POINTER 1")
    if "#define A_SIZE_POINTER 1" not in txt:
        raise vlib.CheckError("cannot derive the unpacked configuration header")
    p = ctx.build / "cfg_avl_unpacked.h"
    if not p.exists() or p.read_text() != txt:
        p.write_text(txt)
    return p


def first_error(out):
    m = re.search(r'line (\d+), characters [^\n]*\n((?:[^\n]*\n?){0,14})', out)
    if not m:
        return None, " ".join(out.split())[-500:]
    return int(m.group(1)), " ".join(m.group(2).split())[:500]


def owner_theorem(src, line):
    """(name of the lemma/theorem the line belongs to, tie theorem it serves = itself or the first `Theorem tie_` after it)"""
    lines = src.splitlines()
    name = None
    for i in range(min(line, len(lines)) - 1, -1, -1):
        m = re.match(r"\s*(?:Theorem|Lemma|Corollary|Definition|Fixpoint|Example|Fact|Remark|Proposition|Ltac)\s+([\w']+)", lines[i])
        if m:
            name = m.group(1)
            break
    if name and name.startswith("tie_"):
        return name, name
    for i in range(max(line - 1, 0), len(lines)):
        m = re.match(r"\s*Theorem\s+(tie_[\w']+)", lines[i])
        if m:
            return name, m.group(1)
    return name, None


def theorems_about(fn, thms):
    """tie theorems that cannot be stated / no longer hold when the translation of fn is missing"""
    out = []
    for f in [fn] + USED_BY.get(fn, []):
        t = "tie_" + f
        if t in thms and t not in out:
            out.append(t)
    return out


def one_layout(ctx, layout, what, ties, thms, funcs, timeout):
    """ties: [(path, source, [theorem names])]; thms: all theorem names in order"""
    r = {"layout": layout, "text": "", "errs": {}, "facts": {}, "broken": [], "discharged": 0}
    tag = "%s layout (%s)" % (layout, what)
    names = ", ".join(p.name for p, _, _ in ties)
    # a run against a scratch copy (VERIF_REPO) gets its own directory: it may run at the same time as a run on /repo
    scratch = "" if str(vlib.REPO) == "/repo" else "_" + hashlib.md5(str(vlib.REPO).encode()).hexdigest()[:8]
    gd = ctx.build / ("gen_avl" + scratch) / layout
    gd.mkdir(parents=True, exist_ok=True)
    for old in list(gd.glob("*.vo")) + list(gd.glob("*.glob")) + list(gd.glob("*.vok")) + list(gd.glob("*.vos")):
        try:
            old.unlink()
        except OSError:
            pass
    cfg = layout_cfg(ctx, layout)
    text, errs, facts = c2avl.translate(vlib.REPO, str(Path(cfg).resolve()), funcs)
    r.update(text=text, errs=errs, facts=facts)
    (gd / "AvlGen.v").write_text(text)
    if errs:
        for k, v in errs.items():
            about = theorems_about(k, thms)
            r["broken"].append("translator c2avl, %s: %s is outside the supported subset, so tie theorem %s cannot be checked: %s"
                               % (tag, k, ", ".join(about) if about else "(all of %s)" % names, v))
        return r
    args = ["coqc", "-Q", str(vlib.COQ), "LibaV", "-Q", str(gd), "Gen", "-w", "none"]
    rc, out = vlib.sh(args + [str(gd / "AvlGen.v")], cwd=gd, timeout=timeout)
    if rc != 0:
        r["broken"].append("generated pointer programs AvlGen.v (%s) do not compile (all tie theorems of %s): %s"
                           % (tag, names, first_error(out)[1]))
        return r
    for path, src, mine in ties:
        tf = gd / path.name
        tf.write_text(src)
        rc, out = vlib.sh(args + [str(tf)], cwd=gd, timeout=timeout)
        if rc != 0:
            line, msg = first_error(out)
            name, thm = owner_theorem(src, line) if line else (None, None)
            if rc == 124:
                msg = "coqc timeout after %ds; %s" % (timeout, msg)
            if thm and name and name != thm:
                which = "tie theorem %s (its lemma %s)" % (thm, name)
            else:
                which = "tie theorem %s" % (thm or name or "?")
            r["broken"].append("regenerated pointer code of src/avl.c no longer implements the proved tree model, %s: %s of %s fails: %s"
                               % (tag, which, path.name, msg))
            if thm in mine:
                r["discharged"] += mine.index(thm)
            return r
        paf = gd / ("PA_%s" % path.name)
        paf.write_text("From Gen Require Import %s.\n" % path.stem + "".join("Print Assumptions %s.\n" % t for t in mine))
        rc, pa = vlib.sh(args + [str(paf)], cwd=gd, timeout=timeout)
        closed = len(re.findall(r"^Closed under the global context", pa, flags=re.M))
        if rc != 0 or closed < len(mine):
            r["broken"].append("Print Assumptions under the tie theorems of %s, %s: %d of %d closed: %s"
                               % (path.name, tag, closed, len(mine), " ".join(pa.split())[-300:]))
            return r
        r["discharged"] += len(mine)
    return r


def avl_translate_and_tie(ctx, timeout=600):
    """Returns True iff every tie theorem was accepted in both layouts."""
    ties = []
    for path in TIE_FILES:
        if path.exists():
            src = path.read_text()
            ties.append((path, src, re.findall(r"^\s*Theorem\s+(tie_[\w']+)", src, flags=re.M)))
    thms = [t for _, _, mine in ties for t in mine]
    names = ", ".join(p.name for p, _, _ in ties)
    # the functions the tie files speak about (a function of a later stage is translated only once its theorem exists)
    funcs = [f for f in c2avl.FUNCTIONS if f in c2avl.STAGE12 or "tie_" + f in thms]
    ctx.cov["obligations"] += len(thms) * len(LAYOUTS)
    ctx.cov.setdefault("translated_functions", []).extend(funcs)
    ctx.coq_setup()
    lemma_files = [f for f in LEMMA_FILES if (vlib.COQ / f).exists()]
    bad = []
    for _, src, _ in ties:
        bad += ctx.scan_forbidden_text(src)
        bad += re.findall(r"^\s*(?:Variable|Variables|Hypothesis|Hypotheses|Context)\b", src, flags=re.M)
    deps = sorted(set(d for f in lemma_files for d in ctx.coq_deps(f)))
    bad += ctx.scan_forbidden([vlib.COQ / f for f in deps])     # the lemma files and everything they require
    if bad:
        ctx.tie_broken("forbidden construct in %s / %s: %s" % (names, ", ".join(lemma_files), bad))
        return False
    missing = [f for f in funcs if "tie_" + f not in thms]
    if missing:
        ctx.tie_broken("%s have no tie theorem for: %s" % (names, ", ".join(missing)))
        return False
    ok, outs, failed = ctx.coq_build(lemma_files, timeout=timeout)
    if not ok:
        ctx.tie_broken("pointer-level lemmas %s (needed by every tie theorem of %s) do not compile: %s"
                       % (", ".join(failed), names, " | ".join(" ".join(outs.get(f, "").split())[-300:] for f in failed)))
        return False
    with ThreadPoolExecutor(max_workers=len(LAYOUTS)) as ex:
        res = list(ex.map(lambda lw: one_layout(ctx, lw[0], lw[1], ties, thms, funcs, timeout), LAYOUTS))
    good = True
    for r in res:
        ctx.cov["discharged"] += r["discharged"]
        for b in r["broken"]:
            good = False
            ctx.tie_broken(b)
        if not r["broken"]:
            ctx.cov.setdefault("theorems", []).extend("%s [%s layout]" % (t, r["layout"]) for t in thms)
    same = len(set(r["text"] for r in res)) == 1
    ctx.cov["avl_pointer_tie"] = {
        "layouts": {r["layout"]: {"tie_theorems_accepted": r["discharged"], "of": len(thms),
                                  "packed_word_facts_used": r["facts"]} for r in res},
        "generated_code_identical_in_all_layouts": same,
        "generated_lines": res[0]["text"].count("\n"),
        "functions": funcs}
    if not good:
        return False
    ctx.cov["trusted_base"].append(
        "translator tools/c2avl.py (clang JSON AST -> Gallina heap programs over cells (left, right, parent, factor) + root slot, "
        "every access checked; the five uses of the packed word parent_ are recognised from the AST and mapped to the parent / "
        "factor components, each mapping an arithmetic lemma pw_* of C01/AvlTieLemmas.v for 64-bit words and 4-aligned pointers; "
        "int arithmetic taken exact, the theorems are for sign = +-1 and factors in -1..1); its output is re-tied on every run: "
        "%d tie theorems x %d node layouts (helpers = field operations for every state; a_avl_rotate / a_avl_rotate2%s%s refine "
        "AvlDefs on every heap that lays the tree out, with frame) accepted by coqc, all closed under the global context; generated "
        "code %s in the two layouts"
        % (len(thms), len(LAYOUTS), " / a_avl_handle_growth" if "tie_a_avl_handle_growth" in thms else "",
           (" / a_avl_insert_adjust (loop, fuel >= height)" if "tie_a_avl_insert_adjust" in thms else "")
           + (" / a_avl_handle_shrink / a_avl_handle_remove / a_avl_remove (loops, fuel >= height)" if "tie_a_avl_remove" in thms else "")
           + (" / a_avl_insert (whole function, comparator = a Gallina function) / a_avl_search" if "tie_a_avl_insert" in thms else ""),
           "identical" if same else "DIFFERENT"))
    ctx.log("AVL pointer-level translator tie: %d functions regenerated per layout, %d tie theorems x %d layouts accepted%s"
            % (len(funcs), len(thms), len(LAYOUTS), "" if same else " (generated code differs between the layouts)"))
    return True
