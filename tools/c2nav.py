#!/usr/bin/env python3
"""c2nav: translate the tree navigation functions of src/avl.c / src/rbt.c (clang JSON AST) into Gallina over the reader /
heap vocabulary of coq/C03/IterDefs.v (property C03).  The output is a module `Gen.NavGen` that is regenerated from the
CURRENT sources on every run and proved equal to the hand-written model by harness/C03/TieNav.v.

What a C function becomes
-------------------------
Values.  Every variable of type `<node> *` (`a_avl_node *`, `a_rbt_node *`, const or not) is an `option id` (None = the
null pointer).  Variables are renamed at every assignment: the k-th value of the C variable `node` is `node'k`
(`node'0` = the parameter), temporaries that hold the result of a read are `t'k` (no C identifier contains `'`, so the
names cannot collide with each other or with the model's).  `leaf = node` binds nothing: `leaf` simply denotes the same
term afterwards.

Results.  `res A` of IterDefs.v: `Ok a`, `Stuck` (a read or write through a pointer that is null or not allocated in the
reader: this is how a read of a freed node or a null dereference shows), `OutOfFuel`.  `bind` sequences them.

Reads.  `p->left`, `p->right` are `ld rd nl p`, `ld rd nr p` (`ld` = field of the node the reader has at p, Stuck when p is
None or not allocated), each evaluated where the C evaluates it (a field that the C reads twice is read twice).
The parent accessor call `a_avl_parent(p)` / `a_rbt_parent(p)` is `ld rd np p`, but only after the accessor's OWN body in
the AST has been checked to be exactly `return (<node> *)(node->parent_ & ~(a_uptr)MASK);` with MASK the tag bits of that tree
(3 for AVL: factor in two bits; 1 for RB: colour in one bit), or exactly `return node->parent;` (the unpacked layout).
Any other accessor body is Unsupported.  What is abstracted here (and therefore trusted): the packed word `parent_` IS the
pair (parent pointer, tag) that the model keeps as the field `np` and ignores.

The tree object.  A parameter of type `<tree> *` (`a_avl const *root`) is assumed valid; `root->node` is the one cell it
has.  In a function that writes nothing this cell is the extra parameter `root_node : option id` (its content); in a
function that writes it is the component `troot` of the state.

Loops.  `while (c) S`, `do S while (c);`, `for (init; c; step) S` (and `for (;;)`) with `break` / `continue` each become a
top-level
    Fixpoint <function>_loop<k> (rd) (fuel : nat) (<variables the loop uses that are defined on entry>) {struct fuel}
      : res (<variables assigned in the loop that are referenced after it>) :=
      match fuel with O => OutOfFuel | S fuel' => <one iteration, ending in the recursive call on fuel' or in Ok (...)> end.
One unit of fuel is consumed at the head of every iteration (before the condition of a while/for, before the body of a
do-while).  `init` of a `for` is executed before the loop is entered.  FUEL CONVENTION: every loop of a function is started
with the function's own `fuel` argument, unchanged (two successive loops get the same fuel, exactly as in IterDefs.v); fuel is
a proof device: Properties_C03.v shows that fuel > number of nodes is enough on a tree.
`return` inside a loop and a nested loop are Unsupported; a loop that writes nothing gets the reader `rd` and may not
read `root->node` or `*next`; a loop that writes (or calls a writing function) carries the state instead: parameter `st'0`,
handed back with the loop's results.

Conditions.  `p` (non-null), `!c`, `a && b`, `a || b` (short-circuit: the reads of b happen only when a does not decide),
`p == q`, `p != q` on node pointers (`oid_eqb`).  `if / else if / else`, early `return`.  Control flow is translated in
continuation style: the statements after an `if` appear in both arms (a loop met twice is emitted once).

Writes (only tear and the helper it calls).  A function that assigns through a pointer, has a `<node> **` parameter or
calls such a function is translated over the state `tstate` of IterDefs.v (heap, root->node, the caller's `*next`
variable), threaded as `st'k`:
    p->left = e     bind (wr_nl st p e) (fun st' => ...)      (Stuck when p is null / not allocated)
    p->right = e    wr_nr
    *next = e       let st' := set_next st e in ...           `next` (`<node> **`) is assumed to point to a variable of the
                                                              caller that is not part of the heap
    root->node = e  let st' := set_root st e in ...
    *next           tnext st          root->node    troot st          p->f    ld (rdh (th st)) F p
    g(root, a, b)   bind (g st a b) (fun st' => ...)          for a void helper translated earlier (root must be the
                                                              caller's own tree parameter)
and returns `Ok (value, st)` (`Ok st` for a void function).  Writing the parent word is Unsupported.

The macro unit (harness/C03/macro_unit.c: one function per iteration macro of avl.h / rbt.h, its body the macro around
`visit_<tree>(cur)`; module Gen.NavGenMacros, `translate_unit`).  Additional vocabulary:
    p = f(args)     bind (f rd fuel [root_node] args) (fun p' => ...)    for a read-only function translated before (a_avl_head,
                    a_avl_next ...: the definitions of Gen.NavGen); for a writing one (a_avl_tear)
                    bind (f fuel st) (fun '(p', st') => ...).  Inside a loop the call gets the FUNCTION's fuel (parameter
                    `fuel0` of the loop), as the model's `iterate (next rd fuel) fuel` does.
    visit_<tree>(p) emit p (<rest>): the function returns the list of the visited elements (with its other results: every
                    result of such a function is `res (list id * A)`, `Ok ([], a)` at the ends, `bind_log` after a loop); a void
                    function that writes nothing returns the list alone.  Visiting a null pointer is Stuck.
    free(p)         bind (free_ptr st p) (fun st' => ...): the node leaves the heap (IterDefs.free_node); free(NULL) does nothing,
                    freeing an id that is not allocated is Stuck.
    T *next; &next  a local node pointer whose address is taken (at most one) IS the cell `tnext` of the state: reads are
                    `tnext st`, assignments `set_next`; `&next` is accepted only as the node** argument of a translated function.
    for (T *x = e; c; s) S   is   { T *x = e; for (; c; s) S }.
FUEL IN THE MACRO UNIT: a while/for loop consumes its unit of fuel on ENTRY TO THE BODY (after the test), as IterDefs.iterate
does (a loop over exactly n elements run with fuel n ends with Ok); do-while and `for (;;)` as before.

Anything else (integer expressions, switch, goto, ++, address-of, arrays, calls to other functions, uninitialised reads,
other types ...) raises Unsupported with function and line - nothing is approximated silently."""
import json
import subprocess
import sys

PRELUDE = """(* GENERATED by tools/c2nav.py from the current sources - do not edit. *)
From Coq Require Import List PArith ZArith FMapPositive Bool.
From LibaV Require Import C03.IterDefs.

(* vocabulary of the generated code: sequencing of results, checked field read, pointer tests, state updates *)
Definition bind {A B : Type} (r : res A) (k : A -> res B) : res B :=
  match r with Ok a => k a | Stuck => Stuck | OutOfFuel => OutOfFuel end.
Definition ld (rd : id -> option node) (F : field) (p : option id) : res (option id) :=
  match p with
  | None => Stuck
  | Some x => match rd x with None => Stuck | Some n => Ok (F n) end
  end.
Definition nonnull (p : option id) : bool := match p with Some _ => true | None => false end.
Definition set_next (st : tstate) (v : option id) : tstate := mkT (th st) (troot st) v.
Definition set_root (st : tstate) (v : option id) : tstate := mkT (th st) v (tnext st).
Definition wr_nl (st : tstate) (p v : option id) : res tstate :=
  match p with
  | None => Stuck
  | Some x => match rdh (th st) x with
              | None => Stuck
              | Some n => Ok (mkT (PositiveMap.add x (mkNode v (nr n) (np n)) (th st)) (troot st) (tnext st))
              end
  end.
Definition wr_nr (st : tstate) (p v : option id) : res tstate :=
  match p with
  | None => Stuck
  | Some x => match rdh (th st) x with
              | None => Stuck
              | Some n => Ok (mkT (PositiveMap.add x (mkNode (nl n) v (np n)) (th st)) (troot st) (tnext st))
              end
  end.

"""

# per tree: type names, the accessor and the tag bits its packed form must mask
TREES = {
    "avl": {"node": "a_avl_node", "tree": "a_avl", "parent_fn": "a_avl_parent", "mask": 3,
            "fields": {"left": "nl", "right": "nr"}, "root_field": "node", "packed": "parent_", "plain": "parent"},
    "rbt": {"node": "a_rbt_node", "tree": "a_rbt", "parent_fn": "a_rbt_parent", "mask": 1,
            "fields": {"left": "nl", "right": "nr"}, "root_field": "node", "packed": "parent_", "plain": "parent"},
}
NAV = ["head", "tail", "next", "prev", "pre_next", "pre_prev", "post_head", "post_tail", "post_next", "post_prev"]


def nav_functions(tree):
    """the functions of src/<tree>.c this translator is run on, in translation order (helpers first)"""
    return ["a_%s_%s" % (tree, f) for f in NAV] + ["a_%s_new_child" % tree, "a_%s_tear" % tree]


class Unsupported(Exception):
    pass


def load_ast(path, include, cfg):
    cmd = ["clang", "-std=c11", "-I", str(include), '-DA_HAVE_H="%s"' % cfg, "-fsyntax-only", "-Xclang", "-ast-dump=json", str(path)]
    p = subprocess.run(cmd, stdout=subprocess.PIPE, stderr=subprocess.PIPE, text=True)
    if p.returncode != 0 or not p.stdout:
        raise Unsupported("clang failed on %s: %s" % (path, " ".join(p.stderr.split())[-400:]))
    return json.loads(p.stdout)


class Lines:
    """clang's JSON dump omits `line` in a location when it equals the line of the location printed before it: resolve the
    line of every node by a pass in document order (loc, range.begin, range.end; spelling before expansion)"""

    def __init__(self):
        self.map = {}
        self.last = None

    def one(self, l):
        """resolved line of one location object (expansion line for code that comes out of a macro)"""
        if not l:
            return None
        if "spellingLoc" in l or "expansionLoc" in l:
            self.one(l.get("spellingLoc"))
            return self.one(l.get("expansionLoc"))
        if l.get("line"):
            self.last = l["line"]
        return self.last

    def fill(self, n):
        if not isinstance(n, dict):
            return
        a = self.one(n.get("loc"))
        rng = n.get("range") or {}
        b = self.one(rng.get("begin"))
        self.one(rng.get("end"))
        if "id" in n:
            self.map.setdefault(n["id"], b or a)
        for c in n.get("inner", []) or []:
            self.fill(c)


def skip(n):
    """drop parentheses and value-preserving implicit casts (never an explicit cast)"""
    while isinstance(n, dict):
        k = n.get("kind")
        if k == "ParenExpr":
            n = n["inner"][0]
        elif k == "ImplicitCastExpr" and n.get("castKind") in ("LValueToRValue", "NoOp", "FunctionToPointerDecay"):
            n = n["inner"][0]
        else:
            break
    return n


def qual(n):
    t = n.get("type") or {}
    return t.get("desugaredQualType") or t.get("qualType") or ""


def norm_type(q):
    """'const a_avl_node *' / 'struct a_avl_node *const' -> 'a_avl_node*'"""
    toks = q.replace("*", " * ").split()
    return "".join(t for t in toks if t not in ("const", "struct", "volatile", "restrict", "__restrict"))


def ind(txt, by=2):
    pad = " " * by
    return "\n".join(pad + l if l else l for l in txt.split("\n"))


class Tr:
    """translation of the functions of one translation unit"""

    def __init__(self, ast, tree, done=None, fuel_at="head"):
        self.conf = TREES[tree]
        self.tree = tree
        self.fuel_at = fuel_at            # where a while/for loop consumes its unit of fuel: "head" (before the test) or "body"
        self.visit = "visit_" + tree      # the unit file's use of an element (macro unit only)
        self.free = "free"
        self.funcs = {}
        for n in ast.get("inner", []):
            if n.get("kind") == "FunctionDecl" and any(c.get("kind") == "CompoundStmt" for c in n.get("inner", [])):
                self.funcs[n["name"]] = n
        self.lines = Lines()
        self.done = dict(done or {})   # name -> {"mode": "reader"/"state", "fuel": bool, "params": [...], "ret": "ptr"/"void"}
        self.accessor_form = None
        self.accessor_error = None
        self.T_NODE = self.conf["node"] + "*"
        self.T_NODEPP = self.conf["node"] + "**"
        self.T_TREE = self.conf["tree"] + "*"

    # ------------------------------------------------------------------ the parent accessor, recognised by its definition
    def check_accessor(self):
        try:
            self.check_accessor_()
        except Unsupported as e:
            self.accessor_error = str(e)
            raise

    def need_accessor(self, fn, n):
        """called where a function uses the accessor"""
        if self.accessor_error:
            fn.bad("call of the parent accessor %s, whose body was not recognised (see there)" % self.conf["parent_fn"], n)
        if self.accessor_form is None:
            self.check_accessor()

    def check_accessor_(self):
        c = self.conf
        fn = self.funcs.get(c["parent_fn"])
        if fn is None:
            raise Unsupported("%s: the parent accessor has no body in this translation unit" % c["parent_fn"])
        self.lines.fill(fn)
        where = "%s:%s" % (c["parent_fn"], self.lines.map.get(fn.get("id")))
        params = [p for p in fn.get("inner", []) if p.get("kind") == "ParmVarDecl"]
        body = [x for x in fn["inner"] if x.get("kind") == "CompoundStmt"][0].get("inner", [])
        if len(params) != 1 or norm_type(qual(params[0])) != self.T_NODE or len(body) != 1 or body[0].get("kind") != "ReturnStmt":
            raise Unsupported("%s: the parent accessor is not a single `return` of one node argument" % where)
        pname = params[0]["name"]

        def is_param_field(m, field):
            m = skip(m)
            if m.get("kind") != "MemberExpr" or not m.get("isArrow") or m.get("name") != field:
                return False
            b = skip(m["inner"][0])
            return b.get("kind") == "DeclRefExpr" and b["referencedDecl"].get("name") == pname

        e = skip(body[0]["inner"][0])
        if is_param_field(e, c["plain"]) and norm_type(qual(e)) == self.T_NODE:
            self.accessor_form = "plain field `%s`" % c["plain"]
            return
        if e.get("kind") == "CStyleCastExpr" and e.get("castKind") == "IntegralToPointer" and norm_type(qual(e)) == self.T_NODE:
            a = skip(e["inner"][0])
            if a.get("kind") == "BinaryOperator" and a.get("opcode") == "&" and is_param_field(a["inner"][0], c["packed"]):
                m = skip(a["inner"][1])
                if m.get("kind") == "UnaryOperator" and m.get("opcode") == "~":
                    lit = skip(m["inner"][0])
                    wide = False
                    while lit.get("kind") in ("CStyleCastExpr", "ImplicitCastExpr") and lit.get("castKind") == "IntegralCast":
                        # the mask must be complemented at the width of the word (a_uptr), not at the width of int
                        wide = wide or norm_type(qual(lit)) in ("unsignedlong", "unsignedlonglong", "a_uptr", "uintptr_t")
                        lit = skip(lit["inner"][0])
                    if lit.get("kind") == "IntegerLiteral" and wide:
                        if int(lit.get("value")) != c["mask"]:
                            raise Unsupported("%s: the accessor masks the bits %s of `%s`, the tag of this tree occupies the bits %d"
                                              % (where, lit.get("value"), c["packed"], c["mask"]))
                        self.accessor_form = "packed word `%s` with the tag bits %d masked off" % (c["packed"], c["mask"])
                        return
        raise Unsupported("%s: the body of the parent accessor is neither `(%s *)(node->%s & ~(a_uptr)%d)` nor `node->%s`"
                          % (where, c["node"], c["packed"], c["mask"], c["plain"]))

    # ------------------------------------------------------------------ syntactic helpers
    def refs(self, n, out=None):
        out = set() if out is None else out
        if isinstance(n, dict):
            if n.get("kind") == "DeclRefExpr" and n.get("referencedDecl", {}).get("kind") in ("VarDecl", "ParmVarDecl"):
                out.add(n["referencedDecl"]["name"])
            for c in n.get("inner", []) or []:
                self.refs(c, out)
        elif isinstance(n, list):
            for c in n:
                self.refs(c, out)
        return out

    def assigned(self, n, out=None):
        out = set() if out is None else out
        if isinstance(n, dict):
            if n.get("kind") in ("BinaryOperator", "CompoundAssignOperator") and (n.get("opcode") == "=" or n.get("kind") == "CompoundAssignOperator"):
                l = skip(n["inner"][0])
                if l.get("kind") == "DeclRefExpr":
                    out.add(l["referencedDecl"]["name"])
            if n.get("kind") == "UnaryOperator" and n.get("opcode") in ("++", "--"):
                l = skip(n["inner"][0])
                if l.get("kind") == "DeclRefExpr":
                    out.add(l["referencedDecl"]["name"])
            if n.get("kind") == "VarDecl":
                out.add(n["name"])
            for c in n.get("inner", []) or []:
                self.assigned(c, out)
        elif isinstance(n, list):
            for c in n:
                self.assigned(c, out)
        return out

    def writes_state(self, n, cells=()):
        """does the subtree assign through a pointer / to a variable whose address is taken, free a node, or call a function
        translated over the state?"""
        if isinstance(n, dict):
            if n.get("kind") in ("BinaryOperator", "CompoundAssignOperator") and (n.get("opcode") == "=" or n.get("kind") == "CompoundAssignOperator"):
                l = skip(n["inner"][0])
                if l.get("kind") != "DeclRefExpr" or l["referencedDecl"].get("name") in cells:
                    return True
            if n.get("kind") == "VarDecl" and n.get("name") in cells:
                return True
            if n.get("kind") == "CallExpr":
                cal = skip(n["inner"][0])
                nm = cal.get("referencedDecl", {}).get("name")
                if nm == self.free or (nm in self.done and self.done[nm]["mode"] == "state"):
                    return True
            return any(self.writes_state(c, cells) for c in n.get("inner", []) or [])
        return False

    def calls(self, n, pred):
        """does the subtree call a function f with pred(f)?"""
        if isinstance(n, list):
            return any(self.calls(c, pred) for c in n)
        if isinstance(n, dict):
            if n.get("kind") == "CallExpr":
                nm = skip(n["inner"][0]).get("referencedDecl", {}).get("name")
                if pred(nm):
                    return True
            return any(self.calls(c, pred) for c in n.get("inner", []) or [])
        return False

    def address_taken(self, n, out=None):
        out = set() if out is None else out
        if isinstance(n, dict):
            if n.get("kind") == "UnaryOperator" and n.get("opcode") == "&":
                b = skip(n["inner"][0])
                if b.get("kind") == "DeclRefExpr" and b.get("referencedDecl", {}).get("kind") in ("VarDecl", "ParmVarDecl"):
                    out.add(b["referencedDecl"]["name"])
            for c in n.get("inner", []) or []:
                self.address_taken(c, out)
        return out

    # ------------------------------------------------------------------ one function
    def translate(self, name):
        if name not in self.funcs:
            raise Unsupported("function %s not found with a body" % name)
        F = Fn(self, self.funcs[name])
        text = F.run()
        self.done[name] = F.sig
        return text


class Fn:
    def __init__(self, tr, node):
        self.tr, self.node, self.name = tr, node, node["name"]
        self.conf = tr.conf
        tr.lines.fill(node)
        self.defs = []            # loop Fixpoints, in order
        self.loops = {}           # memo: (loop node id, carried, outs) -> name
        self.nloops = 0
        self.counter = None       # fresh-name counters of the definition being written
        self.order = []           # C variables in declaration order
        self.log = False          # does the function visit elements (macro unit)? then every result carries the list of visits
        self.sig = None

    def where(self, n):
        return "%s:%s" % (self.name, self.tr.lines.map.get(n.get("id")))

    def bad(self, what, n):
        raise Unsupported("%s at %s" % (what, self.where(n)))

    def fresh(self, base):
        k = self.counter.get(base, 0) + 1
        self.counter[base] = k
        return "%s'%d" % (base, k)

    # ---------------------------------------------------------------- expressions of node-pointer type
    # k : term -> text of the rest.  E = {"env": {C variable: its current Gallina term, None = uninitialised},
    #                                     "st": current state variable (None in a function that writes nothing),
    #                                     "root": name of the tree parameter, "next": set of <node>** parameters, "inloop": bool}
    def rd_term(self, E):
        return "(rdh (th %s))" % E["st"] if E["st"] and (not E["inloop"] or E["stateful"]) else "rd"

    def state_ok(self, E):
        """may the state be read / written here?"""
        return bool(E["st"]) and (not E["inloop"] or E["stateful"])

    @staticmethod
    def tuple_(items):
        return "tt" if not items else items[0] if len(items) == 1 else "(" + ", ".join(items) + ")"

    @staticmethod
    def pattern(items):
        return "_" if not items else items[0] if len(items) == 1 else "'(" + ", ".join(items) + ")"

    @staticmethod
    def type_(items):
        return "unit" if not items else items[0] if len(items) == 1 else "(" + " * ".join(items) + ")"

    def ok(self, items):
        """a finished computation with the given payload (and, in a function that visits, an empty list of visits)"""
        return "Ok ([], %s)" % self.tuple_(items) if self.log else "Ok %s" % self.tuple_(items)

    def res_type(self, items):
        return "res (list id * %s)" % self.type_(items) if self.log else "res %s" % (self.type_(items) if len(items) != 1 or " " not in items[0] else "(%s)" % items[0])

    def use_fuel(self, E):
        self.has_loop = True
        return E["fuel"]

    def callee_args(self, nm, sig, args, m, E, k):
        """evaluate the node arguments of a call to a translated function; k : [terms] -> text"""
        if len(args) != len(sig["params"]):
            self.bad("call to %s with %d arguments" % (nm, len(args)), m)
        vals = []

        def go(i):
            if i == len(args):
                return k(vals)
            kind = sig["params"][i][1]
            a = skip(args[i])
            if kind == "tree":
                if a.get("kind") != "DeclRefExpr" or a["referencedDecl"]["name"] != E["root"]:
                    self.bad("call to %s with a tree other than the caller's own `root`" % nm, m)
                return go(i + 1)
            if kind == "next":
                if a.get("kind") == "DeclRefExpr" and a["referencedDecl"]["name"] in E["next"]:
                    return go(i + 1)
                if a.get("kind") == "UnaryOperator" and a.get("opcode") == "&":
                    b = skip(a["inner"][0])
                    if b.get("kind") == "DeclRefExpr" and b["referencedDecl"]["name"] in E["cell"]:
                        return go(i + 1)
                self.bad("call to %s with a node** other than the caller's own `next`" % nm, m)
            return self.ptr(args[i], E, lambda v: (vals.append(v), go(i + 1))[1])
        return go(0)

    def root_term(self, E, n):
        if E["st"]:
            if not self.state_ok(E):
                self.bad("read of root->%s inside a loop that does not carry the state" % self.conf["root_field"], n)
            return "(troot %s)" % E["st"]
        if E["inloop"]:
            self.bad("read of root->%s inside a loop" % self.conf["root_field"], n)
        return "root_node"

    def reader_call(self, nm, sig, n, E, var, k):
        """p = f(args) for a translated read-only function f"""
        def done(vals):
            fuel = " " + self.use_fuel(E) if sig["fuel"] else ""
            root = " " + self.root_term(E, n) if any(kd == "tree" for _, kd in sig["params"]) else ""
            t = self.fresh(var or "t")
            return "bind (%s %s%s%s%s) (fun %s =>\n%s)" % (nm, self.rd_term(E), fuel, root, "".join(" " + v for v in vals), t, k(t))
        return self.callee_args(nm, sig, n["inner"][1:], n, E, done)

    def ptr(self, n, E, k):
        n0 = n
        n = skip(n)
        kind = n.get("kind")
        if kind == "ImplicitCastExpr" and n.get("castKind") == "NullToPointer":
            return self.null(n, E, k)
        if kind == "CStyleCastExpr" and n.get("castKind") == "NullToPointer":
            return self.null(n, E, k)
        if kind == "ImplicitCastExpr" and n.get("castKind") == "BitCast":
            self.bad("pointer conversion", n)
        if norm_type(qual(n)) != self.tr.T_NODE:
            self.bad("expression of type `%s` where a `%s *` is expected" % (qual(n), self.conf["node"]), n0)
        if kind == "DeclRefExpr":
            nm = n["referencedDecl"]["name"]
            if nm in E["cell"]:
                if not self.state_ok(E):
                    self.bad("read of %s (a variable whose address is taken) inside a loop that does not carry the state" % nm, n)
                return k("(tnext %s)" % E["st"])
            if nm not in E["env"]:
                self.bad("variable %s is not a node pointer known here" % nm, n)
            if E["env"][nm] is None:
                self.bad("read of the uninitialised variable %s" % nm, n)
            return k(E["env"][nm])
        if kind == "MemberExpr":
            if not n.get("isArrow"):
                self.bad("member access without ->", n)
            b = skip(n["inner"][0])
            bt = norm_type(qual(b))
            if bt == self.tr.T_TREE:
                if b.get("kind") != "DeclRefExpr" or b["referencedDecl"]["name"] != E["root"] or n["name"] != self.conf["root_field"]:
                    self.bad("access to a tree object other than the function's own `root->%s`" % self.conf["root_field"], n)
                return k(self.root_term(E, n))
            if bt != self.tr.T_NODE:
                self.bad("member of a `%s`" % qual(b), n)
            if n["name"] not in self.conf["fields"]:
                self.bad("field `%s` (only left/right and the parent accessor are modelled)" % n["name"], n)
            fld = self.conf["fields"][n["name"]]
            return self.ptr(b, E, lambda p: self.read(fld, p, E, k))
        if kind == "UnaryOperator" and n.get("opcode") == "*":
            b = skip(n["inner"][0])
            if b.get("kind") == "DeclRefExpr" and b["referencedDecl"]["name"] in E["next"] and self.state_ok(E):
                return k("(tnext %s)" % E["st"])
            self.bad("dereference", n)
        if kind == "CallExpr":
            cal = skip(n["inner"][0])
            nm = cal.get("referencedDecl", {}).get("name")
            if nm == self.conf["parent_fn"] and len(n["inner"]) == 2:
                self.tr.need_accessor(self, n)
                return self.ptr(n["inner"][1], E, lambda p: self.read("np", p, E, k))
            sig = self.tr.done.get(nm)
            if sig and sig["mode"] == "reader" and sig["ret"] == "ptr":
                return self.reader_call(nm, sig, n, E, None, k)
            if sig and sig["mode"] == "state":
                self.bad("call to the writing function %s inside an expression (only `p = %s(...)` is translated)" % (nm, nm), n)
            self.bad("call to %s in an expression" % nm, n)
        if kind == "ConditionalOperator":
            self.bad("?: expression", n)
        self.bad("pointer expression %s" % kind, n)

    def null(self, n, E, k):
        z = n
        while isinstance(z, dict) and z.get("kind") in ("ImplicitCastExpr", "CStyleCastExpr", "ParenExpr"):
            z = z["inner"][0]
        if z.get("kind") == "IntegerLiteral" and z.get("value") == "0":
            return k("None")
        if z.get("kind") in ("GNUNullExpr", "CXXNullPtrLiteralExpr"):
            return k("None")
        self.bad("null pointer constant of an unknown form", n)

    def read(self, fld, p, E, k):
        t = self.fresh("t")
        return "bind (ld %s %s %s) (fun %s =>\n%s)" % (self.rd_term(E), fld, p, t, k(t))

    def read_named(self, fld, p, E, var, k):
        t = self.fresh(var)
        return "bind (ld %s %s %s) (fun %s =>\n%s)" % (self.rd_term(E), fld, p, t, k(t))

    # ---------------------------------------------------------------- conditions
    def cond(self, n, E, kt, kf):
        m = skip(n)
        kind = m.get("kind")
        if kind == "UnaryOperator" and m.get("opcode") == "!":
            return self.cond(m["inner"][0], E, kf, kt)
        if kind == "BinaryOperator" and m.get("opcode") == "&&":
            return self.cond(m["inner"][0], E, lambda: self.cond(m["inner"][1], E, kt, kf), kf)
        if kind == "BinaryOperator" and m.get("opcode") == "||":
            return self.cond(m["inner"][0], E, kt, lambda: self.cond(m["inner"][1], E, kt, kf))
        if kind == "BinaryOperator" and m.get("opcode") in ("==", "!="):
            a, b = m["inner"]
            if m["opcode"] == "!=":
                kt, kf = kf, kt
            return self.ptr(a, E, lambda x: self.ptr(b, E, lambda y: "if oid_eqb %s %s\nthen\n%s\nelse\n%s" % (x, y, ind(kt()), ind(kf()))))
        if kind == "BinaryOperator" and m.get("opcode") in ("=", ","):
            self.bad("assignment inside a condition", m)
        if kind == "ImplicitCastExpr" and m.get("castKind") == "PointerToBoolean":
            return self.cond(m["inner"][0], E, kt, kf)
        if kind == "IntegerLiteral":
            return kt() if int(m.get("value", "0")) != 0 else kf()
        return self.ptr(n, E, lambda x: "if nonnull %s\nthen\n%s\nelse\n%s" % (x, ind(kt()), ind(kf())))

    # ---------------------------------------------------------------- expressions evaluated for their effect
    def effect(self, n, E, k):
        """k : E' -> text"""
        m = n
        while isinstance(m, dict) and (m.get("kind") == "ParenExpr" or (m.get("kind") == "CStyleCastExpr" and m.get("castKind") == "ToVoid")):
            m = m["inner"][0]
        kind = m.get("kind")
        if kind == "IntegerLiteral":
            return k(E)                                    # `(void)0`
        if kind == "BinaryOperator" and m.get("opcode") == ",":
            return self.effect(m["inner"][0], E, lambda E1: self.effect(m["inner"][1], E1, k))
        if kind == "BinaryOperator" and m.get("opcode") == "=":
            return self.assign(m, E, k)
        if kind == "CallExpr":
            nm = skip(m["inner"][0]).get("referencedDecl", {}).get("name")
            if nm == self.tr.visit and len(m["inner"]) == 2:
                if not self.log:
                    self.bad("call to %s (internal: function not translated as a visiting one)" % nm, m)
                return self.ptr(m["inner"][1], E, lambda v: "emit %s (\n%s)" % (v, k(E)))
            if nm == self.tr.free and len(m["inner"]) == 2:
                a = m["inner"][1]
                if a.get("kind") == "ImplicitCastExpr" and a.get("castKind") == "BitCast" and norm_type(qual(a)) == "void*":
                    a = a["inner"][0]
                if not self.state_ok(E):
                    self.bad("free() %s" % ("inside a loop that does not carry the state" if E["inloop"] else "in a function translated as read-only (internal)"), m)
                return self.ptr(a, E, lambda v: self.bind_state("free_ptr %s %s" % (E["st"], v), E, k))
            return self.call(m, E, k)
        self.bad("expression statement %s%s" % (kind, " " + m.get("opcode") if m.get("opcode") else ""), m)

    def assign(self, m, E, k):
        lhs, rhs = skip(m["inner"][0]), m["inner"][1]
        if skip(rhs).get("kind") == "BinaryOperator" and skip(rhs).get("opcode") == "=":
            self.bad("chained assignment", m)
        lk = lhs.get("kind")
        if lk == "DeclRefExpr" and lhs["referencedDecl"]["name"] in E["cell"]:
            if not self.state_ok(E):
                self.bad("assignment to %s (a variable whose address is taken) inside a loop that does not carry the state" % lhs["referencedDecl"]["name"], m)
            return self.ptr(rhs, E, lambda v: self.let_state("set_next %s %s" % (E["st"], v), E, k))
        if lk == "DeclRefExpr":
            nm = lhs["referencedDecl"]["name"]
            if nm not in E["env"] or norm_type(qual(lhs)) != self.tr.T_NODE:
                self.bad("assignment to %s, which is not a local node pointer" % nm, m)
            r = skip(rhs)
            # a read that is assigned takes the variable's name: node = node->left  ->  bind (ld rd nl node) (fun node'1 => ...)
            if r.get("kind") == "MemberExpr" and r.get("isArrow") and norm_type(qual(skip(r["inner"][0]))) == self.tr.T_NODE \
                    and r["name"] in self.conf["fields"] and norm_type(qual(r)) == self.tr.T_NODE:
                fld = self.conf["fields"][r["name"]]
                return self.ptr(r["inner"][0], E, lambda p: self.read_named(fld, p, E, nm, lambda t: k(self.with_var(E, nm, t))))
            if r.get("kind") == "CallExpr" and skip(r["inner"][0]).get("referencedDecl", {}).get("name") == self.conf["parent_fn"] \
                    and len(r["inner"]) == 2:
                self.tr.need_accessor(self, r)
                return self.ptr(r["inner"][1], E, lambda p: self.read_named("np", p, E, nm, lambda t: k(self.with_var(E, nm, t))))
            if r.get("kind") == "CallExpr":
                cn = skip(r["inner"][0]).get("referencedDecl", {}).get("name")
                sig = self.tr.done.get(cn)
                if sig and sig["mode"] == "reader" and sig["ret"] == "ptr":
                    return self.reader_call(cn, sig, r, E, nm, lambda t: k(self.with_var(E, nm, t)))
                if sig and sig["mode"] == "state" and sig["ret"] == "ptr":
                    # p = f(root, &next): the callee works on the caller's state
                    if not self.state_ok(E):
                        self.bad("call to the writing function %s %s" % (cn, "inside a loop that does not carry the state" if E["inloop"] else "from a read-only function"), m)

                    def done(vals):
                        fuel = " " + self.use_fuel(E) if sig["fuel"] else ""
                        t, st2 = self.fresh(nm), self.fresh("st")
                        E2 = self.with_var(E, nm, t)
                        E2["st"] = st2
                        return "bind (%s%s %s%s) (fun '(%s, %s) =>\n%s)" % (cn, fuel, E["st"], "".join(" " + v for v in vals), t, st2, k(E2))
                    return self.callee_args(cn, sig, r["inner"][1:], r, E, done)
            return self.ptr(rhs, E, lambda v: k(self.with_var(E, nm, v)))
        if E["inloop"] and not E["stateful"]:
            self.bad("write through a pointer inside a loop that does not carry the state", m)
        if not E["st"]:
            self.bad("write through a pointer in a function translated as read-only (internal)", m)
        if lk == "MemberExpr" and lhs.get("isArrow"):
            b = skip(lhs["inner"][0])
            bt = norm_type(qual(b))
            if bt == self.tr.T_TREE:
                if b.get("kind") != "DeclRefExpr" or b["referencedDecl"]["name"] != E["root"] or lhs["name"] != self.conf["root_field"]:
                    self.bad("write to a tree object other than the function's own `root->%s`" % self.conf["root_field"], m)
                return self.ptr(rhs, E, lambda v: self.let_state("set_root %s %s" % (E["st"], v), E, k))
            if bt == self.tr.T_NODE and lhs["name"] in self.conf["fields"]:
                w = "wr_" + self.conf["fields"][lhs["name"]]
                # C leaves the order of evaluating the two sides open; both are free of side effects here: value first, then address
                return self.ptr(rhs, E, lambda v: self.ptr(b, E, lambda p: self.bind_state("%s %s %s %s" % (w, E["st"], p, v), E, k)))
            self.bad("write to the field `%s` (only left/right of a node and root->node are modelled)" % lhs.get("name"), m)
        if lk == "UnaryOperator" and lhs.get("opcode") == "*":
            b = skip(lhs["inner"][0])
            if b.get("kind") == "DeclRefExpr" and b["referencedDecl"]["name"] in E["next"]:
                return self.ptr(rhs, E, lambda v: self.let_state("set_next %s %s" % (E["st"], v), E, k))
        self.bad("assignment to this kind of lvalue", m)

    def with_var(self, E, nm, term):
        E2 = dict(E)
        E2["env"] = dict(E["env"])
        E2["env"][nm] = term
        return E2

    def let_state(self, term, E, k):
        s = self.fresh("st")
        E2 = dict(E)
        E2["st"] = s
        return "let %s := %s in\n%s" % (s, term, k(E2))

    def bind_state(self, term, E, k):
        s = self.fresh("st")
        E2 = dict(E)
        E2["st"] = s
        return "bind (%s) (fun %s =>\n%s)" % (term, s, k(E2))

    def call(self, m, E, k):
        cal = skip(m["inner"][0])
        nm = cal.get("referencedDecl", {}).get("name")
        sig = self.tr.done.get(nm)
        if sig is None:
            self.bad("call to %s, which has not been translated" % nm, m)
        if sig["mode"] != "state" or sig["ret"] != "void":
            self.bad("call to %s as a statement" % nm, m)
        if not self.state_ok(E):
            self.bad("call to the writing function %s %s" % (nm, "inside a loop that does not carry the state" if E["inloop"] else "from a read-only function"), m)

        def done(vals):
            fuel = " " + self.use_fuel(E) if sig["fuel"] else ""
            return self.bind_state("%s%s %s%s" % (nm, fuel, E["st"], "".join(" " + v for v in vals)), E, k)
        return self.callee_args(nm, sig, m["inner"][1:], m, E, done)

    # ---------------------------------------------------------------- statements
    # C = {"brk": E -> text | None, "cont": E -> text | None, "ret": (term|None, E) -> text | None}
    def stmts(self, lst, E, k, C, live):
        if not lst:
            return k(E)
        s, rest = lst[0], lst[1:]
        live_here = self.tr.refs(rest) | live
        knext = lambda E1: self.stmts(rest, E1, k, C, live)
        kind = s.get("kind")
        if kind == "CompoundStmt":
            # declarations of an inner block go out of scope at its end: forget them
            inner = s.get("inner", []) or []
            declared = [d["name"] for x in inner if x.get("kind") == "DeclStmt" for d in x.get("inner", []) if d.get("kind") == "VarDecl"]
            outer = E

            def leave(E1):
                if not declared:
                    return knext(E1)
                E2 = dict(E1)
                E2["env"] = dict(E1["env"])
                for d in declared:
                    if d in outer["env"]:
                        E2["env"][d] = outer["env"][d]
                    else:
                        E2["env"].pop(d, None)
                return knext(E2)
            for d in declared:
                if d in E["env"] and d not in E["cell"]:
                    self.bad("declaration of %s shadows an outer variable" % d, s)
            return self.stmts(inner, E, leave, C, live_here)
        if kind == "NullStmt":
            return knext(E)
        if kind == "DeclStmt":
            decls = [d for d in s.get("inner", [])]

            def go(i, E1):
                if i == len(decls):
                    return knext(E1)
                d = decls[i]
                if d.get("kind") != "VarDecl":
                    self.bad("declaration %s" % d.get("kind"), s)
                if norm_type(qual(d)) != self.tr.T_NODE:
                    self.bad("local variable %s of type `%s`" % (d.get("name"), qual(d)), s)
                if d.get("storageClass"):
                    self.bad("%s local variable" % d["storageClass"], s)
                if d["name"] not in self.order:
                    self.order.append(d["name"])
                init = [c for c in d.get("inner", []) if c.get("kind", "").endswith(("Expr", "Operator", "Literal"))]
                if d["name"] in E1["cell"]:
                    # a variable whose address is taken IS the cell `tnext` of the state; without initialiser it keeps whatever the state has
                    if not init:
                        return go(i + 1, E1)
                    fake = {"kind": "BinaryOperator", "opcode": "=", "id": d.get("id"),
                            "inner": [{"kind": "DeclRefExpr", "referencedDecl": {"name": d["name"], "kind": "VarDecl"}, "type": d.get("type")}, init[0]]}
                    return self.assign(fake, E1, lambda E2: go(i + 1, E2))
                if not init:
                    return go(i + 1, self.with_var(E1, d["name"], None))
                fake = {"kind": "BinaryOperator", "opcode": "=", "id": d.get("id"),
                        "inner": [{"kind": "DeclRefExpr", "referencedDecl": {"name": d["name"], "kind": "VarDecl"}, "type": d.get("type")}, init[0]]}
                E0 = self.with_var(E1, d["name"], None)
                return self.assign(fake, E0, lambda E2: go(i + 1, E2))
            return go(0, E)
        if kind == "IfStmt":
            parts = s["inner"]
            if s.get("hasInit") or s.get("hasVar"):
                self.bad("if with a declaration", s)
            thn = [parts[1]]
            els = [parts[2]] if len(parts) > 2 else []
            return self.cond(parts[0], E, lambda: self.stmts(thn, E, knext, C, live_here), lambda: self.stmts(els, E, knext, C, live_here))
        if kind == "ReturnStmt":
            if C["ret"] is None:
                self.bad("return inside a loop", s)
            if s.get("inner"):
                return self.ptr(s["inner"][0], E, lambda v: C["ret"](v, E))
            return C["ret"](None, E)
        if kind == "BreakStmt":
            if C["brk"] is None:
                self.bad("break outside a loop", s)
            return C["brk"](E)
        if kind == "ContinueStmt":
            if C["cont"] is None:
                self.bad("continue outside a loop", s)
            return C["cont"](E)
        if kind in ("WhileStmt", "DoStmt", "ForStmt"):
            return self.loop(s, E, knext, live_here)
        if kind.endswith(("Expr", "Operator", "Literal")):
            return self.effect(s, E, knext)
        self.bad("statement %s" % kind, s)

    def loop(self, s, E, kafter, live_after):
        kind = s["kind"]
        if kind == "WhileStmt":
            parts = s["inner"]
            if len(parts) != 2:
                self.bad("while with a declaration", s)
            init, cnd, step, body = None, parts[0], None, parts[1]
        elif kind == "DoStmt":
            init, cnd, step, body = None, s["inner"][1], None, s["inner"][0]
        else:
            init, var, cnd, step, body = s["inner"]
            if var:
                self.bad("for with a condition variable", s)
            init, cnd, step = init or None, cnd or None, step or None
            if init is not None and init.get("kind") == "DeclStmt":
                # for (T *x = e; c; s) S   ==   { T *x = e; for (; c; s) S }
                inner_for = dict(s)
                inner_for["inner"] = [{}, var, s["inner"][2], s["inner"][3], body]
                block = {"kind": "CompoundStmt", "id": str(s.get("id")) + "/block", "inner": [init, inner_for]}
                self.tr.lines.map.setdefault(block["id"], self.tr.lines.map.get(s.get("id")))
                return self.stmts([block], E, kafter, {"brk": None, "cont": None, "ret": None}, live_after)
        if init is not None:
            return self.effect(init, E, lambda E1: self.loop_core(s, kind, cnd, step, body, E1, kafter, live_after))
        return self.loop_core(s, kind, cnd, step, body, E, kafter, live_after)

    def loop_core(self, s, kind, cnd, step, body, E, kafter, live_after):
        tr = self.tr
        if E["inloop"]:
            self.bad("nested loop", s)
        pieces = [x for x in (cnd, step, body) if x is not None]
        stateful = any(tr.writes_state(x, E["cell"]) for x in pieces)      # the loop carries the state st and hands it back
        if stateful and not E["st"]:
            self.bad("write through a pointer inside a loop of a function translated as read-only (internal)", s)
        inside = set()          # variables declared inside the loop are its own business (DeclStmt binds them on every iteration)

        def decls(n):
            if isinstance(n, dict):
                if n.get("kind") == "VarDecl":
                    inside.add(n["name"])
                for c in n.get("inner", []) or []:
                    decls(c)
        for x in pieces:
            decls(x)
        used = tr.refs(pieces) - inside
        for v in used:
            if v == E["root"] or v in E["next"] or v in E["cell"]:
                if stateful:
                    continue
                self.bad("the loop uses `%s` (tree object / node** parameter / variable whose address is taken) without carrying the state" % v, s)
            if v not in E["env"]:
                self.bad("the loop uses %s, which is not a node pointer" % v, s)
        carried = [v for v in self.order if v in used and E["env"].get(v) is not None]
        outs = [v for v in self.order if v in tr.assigned(pieces) and v in live_after and v in E["env"]]
        needs_fuel0 = tr.calls(pieces, lambda f: f in tr.done and tr.done[f]["fuel"])
        key = (s.get("id"), tuple(carried), tuple(outs))
        if key not in self.loops:
            self.nloops += 1
            name = "%s_loop%d" % (self.name, self.nloops)
            self.loops[key] = name
            saved = self.counter
            self.counter = {}
            EL = dict(E)
            EL["env"] = {v: (v + "'0" if v in carried else None) for v in E["env"]}
            EL["inloop"] = True
            EL["stateful"] = stateful
            EL["st"] = ("st'0" if stateful else E["st"]) if E["st"] else None
            EL["fuel"] = "fuel0"
            fixed = ("" if stateful else " rd") + (" fuel0" if needs_fuel0 else "")

            def exit_(E1):
                vals = [E1["st"]] if stateful else []
                for v in outs:
                    if E1["env"].get(v) is None:
                        self.bad("%s may be uninitialised after the loop" % v, s)
                    vals.append(E1["env"][v])
                return self.ok(vals)

            def again(E1):
                vals = [E1["st"]] if stateful else []
                for v in carried:
                    if E1["env"].get(v) is None:
                        self.bad("%s may be uninitialised at the next iteration" % v, s)
                    vals.append(E1["env"][v])
                return "%s%s fuel'%s" % (name, fixed, "".join(" " + x for x in vals))

            spend = lambda txt: "match fuel with\n| O => OutOfFuel\n| S fuel' =>\n%s\nend" % ind(txt, 4)
            live_in = tr.refs(pieces) | live_after
            if kind == "DoStmt":
                test = lambda E1: self.cond(cnd, E1, lambda: again(E1), lambda: exit_(E1))
                CL = {"brk": exit_, "cont": test, "ret": None}
                it = spend(self.stmts([body], EL, test, CL, live_in))
            else:
                nxt = (lambda E1: self.effect(step, E1, again)) if step is not None else again
                CL = {"brk": exit_, "cont": nxt, "ret": None}
                run = lambda: self.stmts([body], EL, nxt, CL, live_in)
                if cnd is None:
                    it = spend(run())
                elif tr.fuel_at == "body":
                    it = self.cond(cnd, EL, lambda: spend(run()), lambda: exit_(EL))
                else:
                    it = spend(self.cond(cnd, EL, run, lambda: exit_(EL)))
            ty = self.res_type((["tstate"] if stateful else []) + ["option id" for _ in outs])
            params = ("" if stateful else " (rd : id -> option node)") + (" (fuel0 : nat)" if needs_fuel0 else "") + " (fuel : nat)" \
                + (" (st'0 : tstate)" if stateful else "") + "".join(" (%s'0 : option id)" % v for v in carried)
            self.defs.append("Fixpoint %s%s {struct fuel} : %s :=\n%s." % (name, params, ty, ind(it)))
            self.counter = saved
        name = self.loops[key]
        fuel = self.use_fuel(E)
        call = "%s%s%s %s%s%s" % (name, "" if stateful else " " + self.rd_term(E), " " + fuel if needs_fuel0 else "", fuel,
                                  " " + E["st"] if stateful else "", "".join(" " + E["env"][v] for v in carried))
        news = [self.fresh(v) for v in outs]
        E2 = dict(E)
        E2["env"] = dict(E["env"])
        for v, t in zip(outs, news):
            E2["env"][v] = t
        pat = list(news)
        if stateful:
            E2["st"] = self.fresh("st")
            pat = [E2["st"]] + pat
        # variables assigned in the loop but not handed back are not to be used afterwards
        for v in tr.assigned(pieces):
            if v not in outs and v in E2["env"]:
                E2["env"][v] = None
        return "%s (%s) (fun %s =>\n%s)" % ("bind_log" if self.log else "bind", call, self.pattern(pat), kafter(E2))

    # ---------------------------------------------------------------- the function
    def run(self):
        tr, conf = self.tr, self.conf
        params = [c for c in self.node.get("inner", []) if c["kind"] == "ParmVarDecl"]
        body = [c for c in self.node["inner"] if c["kind"] == "CompoundStmt"][0]
        rt = norm_type(self.node["type"]["qualType"].split("(")[0])
        if rt == tr.T_NODE:
            ret = "ptr"
        elif rt == "void":
            ret = "void"
        else:
            self.bad("return type `%s`" % rt, self.node)
        env, root, nexts, sig_params = {}, None, set(), []
        for p in params:
            t = norm_type(qual(p))
            if t == tr.T_NODE:
                env[p["name"]] = p["name"] + "'0"
                self.order.append(p["name"])
                sig_params.append((p["name"], "node"))
            elif t == tr.T_TREE and root is None:
                root = p["name"]
                sig_params.append((p["name"], "tree"))
            elif t == tr.T_NODEPP and not nexts:
                nexts.add(p["name"])
                sig_params.append((p["name"], "next"))
            else:
                self.bad("parameter %s of type `%s`" % (p.get("name"), qual(p)), p)
        cells = tr.address_taken(body)
        if len(cells) > 1:
            self.bad("the address of more than one variable is taken (%s)" % ", ".join(sorted(cells)), self.node)
        for c in cells:
            if c in env or c == root or c in nexts:
                self.bad("the address of the parameter %s is taken" % c, self.node)
        if cells and nexts:
            self.bad("a node** parameter and a variable whose address is taken (one `next` cell is modelled)", self.node)
        self.log = tr.calls(body, lambda f: f == tr.visit)
        state = bool(nexts) or bool(cells) or tr.writes_state(body, cells)
        if ret == "void" and not state and not self.log:
            self.bad("void function without effect on the modelled state", self.node)
        self.has_loop = False
        self.counter = {}
        E = {"env": env, "st": "st'0" if state else None, "root": root, "next": nexts, "cell": cells, "inloop": False, "stateful": False,
             "fuel": "fuel"}

        def payload(v, E1):
            return ([v] if ret == "ptr" else []) + ([E1["st"]] if state else [])

        def kret(v, E1):
            if (v is None) != (ret == "void"):
                self.bad("return with/without a value", self.node)
            return self.ok(payload(v, E1))
        kend = (lambda E1: self.ok(payload(None, E1))) if ret == "void" \
            else (lambda E1: self.bad("control reaches the end of a non-void function", self.node))
        C = {"brk": None, "cont": None, "ret": kret}
        term = self.stmts(body.get("inner", []) or [], E, kend, C, set())
        nodeparams = "".join(" (%s'0 : option id)" % n for n, kd in sig_params if kd == "node")
        fuel = " (fuel : nat)" if self.has_loop else ""
        items = (["option id"] if ret == "ptr" else []) + (["tstate"] if state else [])
        rtype = self.res_type(items)
        if self.log and not items:
            # nothing but the visits to hand back: the list itself
            rtype, term = "res (list id)", "res_map fst (\n%s)" % ind(term)
        if state:
            head = "Definition %s%s (st'0 : tstate)%s : %s :=" % (self.name, fuel, nodeparams, rtype)
        else:
            rootp = " (root_node : option id)" if root else ""
            head = "Definition %s (rd : id -> option node)%s%s%s : %s :=" % (self.name, fuel, rootp, nodeparams, rtype)
        self.sig = {"mode": "state" if state else "reader", "fuel": self.has_loop, "params": sig_params, "ret": ret, "loops": self.nloops,
                    "log": self.log}
        return "\n\n".join(self.defs + [head + "\n" + ind(term) + "."])


MACRO_PRELUDE = """(* GENERATED by tools/c2nav.py from harness/C03/macro_unit.c against the current headers - do not edit. *)
From Coq Require Import List PArith ZArith FMapPositive Bool.
From LibaV Require Import C03.IterDefs.
From Gen Require Import NavGen.
Import ListNotations.

(* vocabulary of the functions that visit elements: a result carries the list of the elements visited so far *)
(* visit(p); rest  -  p is put in front of what the rest visits; visiting a null pointer is a fault *)
Definition emit {A : Type} (p : option id) (r : res (list id * A)) : res (list id * A) :=
  match p with
  | None => Stuck
  | Some x => match r with Ok (l, a) => Ok (x :: l, a) | Stuck => Stuck | OutOfFuel => OutOfFuel end
  end.
(* a loop that visits, followed by the rest *)
Definition bind_log {A B : Type} (r : res (list id * A)) (k : A -> res (list id * B)) : res (list id * B) :=
  match r with
  | Ok (l, a) => match k a with Ok (l2, b) => Ok (l ++ l2, b) | Stuck => Stuck | OutOfFuel => OutOfFuel end
  | Stuck => Stuck
  | OutOfFuel => OutOfFuel
  end.
(* free(p): the node leaves the heap; free(NULL) does nothing; freeing what is not allocated (a second free) is a fault *)
Definition free_ptr (st : tstate) (p : option id) : res tstate :=
  match p with
  | None => Ok st
  | Some x => match rdh (th st) x with None => Stuck | Some _ => Ok (free_node x st) end
  end.

"""


def unit_functions(ast, tree):
    """the functions u_a_<tree>_* / u_A_<TREE>_* the unit file defines, in file order"""
    pre = ("u_a_%s_" % tree, "u_A_%s_" % tree.upper())
    return [n["name"] for n in ast.get("inner", []) if n.get("kind") == "FunctionDecl" and n.get("name", "").startswith(pre)
            and any(c.get("kind") == "CompoundStmt" for c in n.get("inner", []))]


def translate_unit(unit, include, cfg, sigs, trees=("avl", "rbt")):
    """Module Gen.NavGenMacros: the functions of the macro unit file (one per iteration macro of the headers), translated
    against the signatures `sigs` = {tree: signatures of the functions of src/<tree>.c translated before}.  In this unit a
    while/for loop consumes its unit of fuel on ENTRY TO THE BODY (after the test), as IterDefs.iterate does: the loop
    `for (cur = first; cur; cur = step(cur))` run with fuel n on a sequence of exactly n elements ends with Ok, not OutOfFuel.
    Calls inside a loop get the function's own fuel (parameter fuel0 of the loop), as the model's `iterate (next rd fuel) fuel`.
    -> (text, {function: error}, {tree: [unit functions]})"""
    from pathlib import Path
    text, errs, names = MACRO_PRELUDE, {}, {}
    try:
        ast = load_ast(Path(unit).resolve(), Path(include).resolve(), Path(cfg).resolve())
    except Unsupported as e:
        return text, {str(unit): str(e)}, names
    for t in trees:
        tr = Tr(ast, t, done=sigs.get(t) or {}, fuel_at="body")
        names[t] = unit_functions(ast, t)
        out = []
        for nm in names[t]:
            try:
                out.append("(* %s *)\n%s" % (nm, tr.translate(nm)))
            except Unsupported as e:
                errs[nm] = str(e)
            except (KeyError, IndexError, TypeError, ValueError) as e:
                errs[nm] = "unexpected AST shape in %s (%s: %s)" % (nm, type(e).__name__, e)
        text += "(* ---------------------------------------------------------------- a/%s.h *)\n\n%s\n\n" % (t, "\n\n".join(out))
    return text, errs, names


def header_loop_macros(include, tree):
    """the function-like macros of include/a/<tree>.h whose replacement starts with `for` (the iteration macros), by name"""
    import re
    from pathlib import Path
    txt = (Path(include) / "a" / (tree + ".h")).read_text().replace("\\\n", " ")
    return [m.group(1) for m in re.finditer(r"^[ \t]*#[ \t]*define[ \t]+(\w+)\([^)]*\)[ \t]*for\b", txt, flags=re.M)]


def translate_tree(path, include, cfg, tree, names=None, sigs=None):
    """-> (Gallina text of the functions of one tree, {function: error}, description of the accessor that was recognised);
    sigs (a dict) receives the signatures of the translated functions"""
    names = names or nav_functions(tree)
    try:
        ast = load_ast(path, include, cfg)
    except Unsupported as e:
        return "", {"src/%s.c (all %d functions)" % (tree, len(names)): str(e)}, None
    tr = Tr(ast, tree)
    out, errs = [], {}
    try:
        tr.check_accessor()
    except Unsupported as e:
        errs[TREES[tree]["parent_fn"]] = str(e)
    for nm in names:
        try:
            out.append("(* %s *)\n%s" % (nm, tr.translate(nm)))
        except Unsupported as e:
            errs[nm] = str(e)
        except (KeyError, IndexError, TypeError, ValueError) as e:      # an AST shape this translator does not know
            errs[nm] = "unexpected AST shape in %s (%s: %s)" % (nm, type(e).__name__, e)
    if sigs is not None:
        sigs.update(tr.done)
    return "\n\n".join(out) + "\n", errs, tr.accessor_form


def translate(repo, cfg, trees=("avl", "rbt"), sigs=None):
    """the whole module Gen.NavGen for one configuration header; sigs (a dict) receives {tree: signatures}"""
    from pathlib import Path
    repo = Path(repo).resolve()
    cfg = Path(cfg).resolve()
    text, errs, forms = PRELUDE, {}, {}
    for t in trees:
        src = repo / "src" / (t + ".c")
        sg = {}
        body, e, form = translate_tree(src, repo / "include", cfg, t, sigs=sg)
        if sigs is not None:
            sigs[t] = sg
        text += "(* ---------------------------------------------------------------- src/%s.c *)\n\n%s\n" % (t, body)
        errs.update(e)
        forms[t] = form
    return text, errs, forms


if __name__ == "__main__":
    # c2nav.py <repo> <configuration header> [avl|rbt ...]          the module NavGen
    # c2nav.py <repo> <configuration header> --unit <macro_unit.c>  the module NavGenMacros
    if "--unit" in sys.argv:
        from pathlib import Path
        sg = {}
        t, e, f = translate(sys.argv[1], sys.argv[2], sigs=sg)
        t, e2, f = translate_unit(sys.argv[4], Path(sys.argv[1]).resolve() / "include", sys.argv[2], sg)
        e.update(e2)
    else:
        t, e, f = translate(sys.argv[1], sys.argv[2], tuple(sys.argv[3:]) or ("avl", "rbt"))
    print(t)
    for k, v in f.items():
        print("(* %s: parent accessor = %s *)" % (k, v))
    for k, v in e.items():
        print("(* ERROR %s: %s *)" % (k, v))
