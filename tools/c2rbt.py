#!/usr/bin/env python3
"""c2rbt: translate the pointer-surgery code of src/rbt.c (+ the accessor a_rbt_parent of include/a/rbt.h) from the clang JSON
AST into Gallina heap programs over the vocabulary of coq/C02/RbtTieLemmas.v (property C02).  The output is a module
`Gen.RbtGen`, regenerated from the CURRENT sources on every run, in both node layouts, and proved by harness/C02/TieRbt*.v to
implement the tree-level model coq/C02/RbtDefs.v on every heap that lays the tree out.  (The red-black counterpart of
tools/c2avl.py, from which it is derived.)

The heap.  `state` = (hp : id -> option pcell, rootp : option id): a partial map from node ids (positive) to cells
(cl, cr, cp : option id = left / right / parent, None = null;  cc : Z = the colour as the C stores it, 0 red, 1 black) plus the
one cell of the tree object (`root->node`).  Every access is checked: `rd st F p` / `wr_l`, `wr_r`, `wr_p`, `wr_c st p v` are None
when p is null or not allocated, and `wr_c` is None as well when the colour written is not 0 or 1.  `bind` sequences.

Values.  `a_rbt_node *` (const or not) -> option id;  `unsigned int` / `int` -> Z (see "Integers");  `a_rbt *` must be the
function's own tree parameter and denotes the root slot of the state.  Variables are renamed at every binding: the value a C
variable `x` got from its k-th binding is `x'k` (`x'0` = the parameter / the value carried into a loop iteration); temporaries
are `t'k`, states `st'k`.

What a function becomes.
    no write in it (and in what it calls), returns T       Definition f (st'0 : state) <params> : option T
    writes, void                                            Definition f (st'0 : state) <params> : option state
    writes, returns T                                       Definition f (st'0 : state) <params> : option (T * state)
Calls to functions translated earlier stay calls.  Statements: declarations with or without initialiser, assignment, if / else,
return (also early), blocks, calls, `__builtin_assume(c)` / `if (!(c)) __builtin_unreachable();` (what A_ASSUME expands to:
None when c is false - the C is undefined there), and loops `for (init; [c]; [inc]) S`, `while (c) S`, `do S while (c);` with
`break` and `continue` (see Fn.loop: a Fixpoint on a fuel argument, one unit per iteration, out of fuel = None; the function
then takes `(fuel : nat)` first, and so does every function that calls it).  Expressions are translated in continuation style,
each read where the C evaluates it (a field the C reads twice is read twice); the statements after an `if` appear in both arms.
`__builtin_expect(c, k)` in a condition is c.

Plain layout (A_SIZE_POINTER <= 1): the fields left, right, parent, color are read with `rd st cl|cr|cp|cc p` and written with
`wr_l|wr_r|wr_p|wr_c`.

Packed layout (A_SIZE_POINTER > 1): the word `parent_` holds  parent + colour  (colour in bit 0).  The model keeps the two
components; the translator recognises, FROM THE AST, exactly these uses of the word and nothing else (any other use:
Unsupported, function + line).  Each mapping is an arithmetic fact about the word  w = p + k  with p a multiple of 2 (node
pointers are 2-aligned: the layout's own requirement, rbt.h), k = 0 or 1, proved in RbtTieLemmas.v (section PackedWord, 64-bit
words):
    (a_rbt_node *)(x->parent_ & ~(a_uptr)1)            rd st cp x                 [pw_parent;  ~1 must be taken at word width]
    (unsigned int)(x->parent_ & 1)                      rd st cc x                 [pw_tag]
    (a_rbt_node *)(x->parent_)      (A_RBT_PARENT)      k <- rd st cc x; if k = 0 then rd st cp x else None
                                                                                  [pw_whole_red: the whole word is the parent exactly when
                                                                                   the node is red; pw_whole_black: otherwise it is odd - no
                                                                                   node pointer, every use of it is undefined: an error]
    x->parent_ = (a_uptr)P + K   (also `|`)             wr_p x P; wr_c x K         [pw_make: needs 0 <= K <= 1, i.e. the check wr_c makes;
                                                                                   pw_make_bad: any other K changes the pointer bits]
    x->parent_ = (a_uptr)P + (x->parent_ & 1)           wr_p x P                   [pw_set_parent: colour kept; same x on both sides]
    x->parent_ = (a_uptr)P                              wr_p x P; wr_c x 0         [pw_init: a 2-aligned pointer has the colour bit 0]
    x->parent_ |= 1                                     wr_c x 1                   [pw_set_black]
    x->parent_ = y->parent_                             p <- rd cp y; k <- rd cc y; wr_p x p; wr_c x k
                                                                                  [both components copied: printed as the plain layout's
                                                                                   x->parent = y->parent; x->color = y->color; but with both
                                                                                   reads first, as the C reads the word once]
A local variable of the word's type (`a_uptr parent_ = node->parent_;`, in a_rbt_remove) is the pair of its components:
    w = x->parent_                                      p <- rd cp x; k <- rd cc x
    x->parent_ = w                                      wr_p x p; wr_c x k
    (w & 1)      as a condition                         k <> 0
In the plain layout the corresponding variable is the colour alone (`unsigned int color`).

Integers.  `unsigned int` (colours) and `int` (comparison results) expressions are literals, variables, fields, calls and
comparisons only: no arithmetic is translated, so no wrap-around question arises.

Links by address, comparator (a_rbt_insert, a_rbt_search).  A local `a_rbt_node **link` is a `slot` (the address of a link:
`&root->node` = SRoot, `&p->left` = SLeft p, `&p->right` = SRight p; formed from a null p: an error), `*link` / `*link = v` are
`rd_slot` / `wr_slot`.  A parameter `int (*cmp)(void const *, void const *)` is a Gallina function `option id -> option id ->
Z` - a pure function of two pointers: it looks at the user's enclosing structures, never at the tree; a `void const *`
parameter is an opaque value that is only handed to the comparator.

Anything else (nested loops, goto, switch, address-of, other fields, other types, uninitialised reads, calls of functions not
translated earlier ...) raises Unsupported with function and line - nothing is approximated silently."""
import json
import subprocess
import sys

PRELUDE = """(* GENERATED by tools/c2rbt.py from the current sources - do not edit. *)
From Coq Require Import ZArith PArith Bool.
From LibaV Require Import C02.RbtDefs C02.RbtTieLemmas.
Local Open Scope Z_scope.

"""

NODE, TREE = "a_rbt_node", "a_rbt"
T_NODE, T_TREE, T_NODEPP = NODE + "*", TREE + "*", NODE + "**"
T_CMP = "int(*)(void*,void*)"
T_OPAQUE = "void*"
WORD_TYPES = ("unsignedlong", "unsignedlonglong", "a_uptr", "uintptr_t")
INT_TYPES = ("unsignedint", "int")
FIELDS = {"left": ("cl", "wr_l", "ptr"), "right": ("cr", "wr_r", "ptr"), "parent": ("cp", "wr_p", "ptr"), "color": ("cc", "wr_c", "int")}
WORD = "parent_"
ROOT_FIELD = "node"
GTY = {"ptr": "option id", "int": "Z", "cmp": "option id -> option id -> Z", "opaque": "option id", "slot": "slot"}

# translation order (callees first); a_rbt_parent comes from the header
HELPERS = ["a_rbt_parent", "a_rbt_color", "a_rbt_new_child", "a_rbt_set_parent_color", "a_rbt_set_parent", "a_rbt_set_black",
           "a_rbt_set_parents"]
STAGE2 = ["a_rbt_insert_adjust"]
STAGE3 = ["a_rbt_remove_adjust", "a_rbt_remove"]
STAGE4 = ["a_rbt_init", "a_rbt_insert", "a_rbt_search"]
FUNCTIONS = HELPERS + STAGE2 + STAGE3 + STAGE4


class Unsupported(Exception):
    pass


class _Impure(Exception):
    """raised inside pure_int / pure_bool when the expression would read the heap or call a function"""


def load_ast(path, include, cfg):
    cmd = ["clang", "-std=c11", "-I", str(include), '-DA_HAVE_H="%s"' % cfg, "-fsyntax-only", "-Xclang", "-ast-dump=json", str(path)]
    p = subprocess.run(cmd, stdout=subprocess.PIPE, stderr=subprocess.PIPE, text=True)
    if p.returncode != 0 or not p.stdout:
        raise Unsupported("clang failed on %s: %s" % (path, " ".join(p.stderr.split())[-400:]))
    return json.loads(p.stdout)


class Lines:
    """clang's JSON dump omits `line` in a location when it equals the line of the location printed before it: resolve the
    line of every node by a pass in document order"""

    def __init__(self):
        self.map = {}
        self.last = None

    def one(self, l):
        if not l:
            return None
        if "spellingLoc" in l or "expansionLoc" in l:
            self.one(l.get("spellingLoc"))
            return self.one(l.get("expansionLoc"))
        if l.get("line"):
            self.last = l["line"]
        return self.last

    def fill(self, n):
        if not isinstance(n, dict):
            return
        a = self.one(n.get("loc"))
        rng = n.get("range") or {}
        b = self.one(rng.get("begin"))
        self.one(rng.get("end"))
        if "id" in n:
            self.map.setdefault(n["id"], b or a)
        for c in n.get("inner", []) or []:
            self.fill(c)


def skip(n):
    """drop parentheses and value-preserving implicit casts (never an explicit cast, never a conversion)"""
    while isinstance(n, dict):
        k = n.get("kind")
        if k == "ParenExpr":
            n = n["inner"][0]
        elif k == "ImplicitCastExpr" and n.get("castKind") in ("LValueToRValue", "NoOp", "FunctionToPointerDecay", "BuiltinFnToFnPtr"):
            n = n["inner"][0]
        else:
            break
    return n


def qual(n):
    t = n.get("type") or {}
    return t.get("desugaredQualType") or t.get("qualType") or ""


def norm_type(q):
    toks = q.replace("*", " * ").split()
    return "".join(t for t in toks if t not in ("const", "struct", "union", "volatile", "restrict", "__restrict"))


def is_word_type(n):
    t = n.get("type") or {}
    return norm_type(t.get("qualType") or "") in WORD_TYPES or norm_type(t.get("desugaredQualType") or "") in WORD_TYPES


def ind(txt, by=2):
    pad = " " * by
    return "\n".join(pad + l if l else l for l in txt.split("\n"))


def same_lvalue_base(a, b):
    """both are the same variable (the only form in which the C names one node twice in a word update)"""
    a, b = skip(a), skip(b)
    return a.get("kind") == "DeclRefExpr" and b.get("kind") == "DeclRefExpr" and \
        a["referencedDecl"].get("id") == b["referencedDecl"].get("id") and a["referencedDecl"].get("id") is not None


def callee_name(n):
    return skip(n["inner"][0]).get("referencedDecl", {}).get("name")


class Tr:
    def __init__(self, ast):
        self.funcs = {}
        for n in ast.get("inner", []):
            if n.get("kind") == "FunctionDecl" and any(c.get("kind") == "CompoundStmt" for c in n.get("inner", [])):
                self.funcs[n["name"]] = n
        self.lines = Lines()
        self.done = {}          # name -> sig
        self.packed_facts = {}  # name -> list of packed-word facts used
        self.assumes = {}       # name -> list of "line: condition" of the A_ASSUMEs translated

    def writes(self, n):
        """does the subtree assign through a pointer or call a writer translated earlier?"""
        if isinstance(n, dict):
            if n.get("kind") in ("BinaryOperator", "CompoundAssignOperator") and (n.get("opcode") == "=" or n.get("kind") == "CompoundAssignOperator"):
                if skip(n["inner"][0]).get("kind") != "DeclRefExpr":
                    return True
            if n.get("kind") == "UnaryOperator" and n.get("opcode") in ("++", "--"):
                return True
            if n.get("kind") == "CallExpr":
                nm = callee_name(n)
                if nm in self.done and self.done[nm]["writes"]:
                    return True
            return any(self.writes(c) for c in n.get("inner", []) or [])
        return False

    def translate(self, name):
        if name not in self.funcs:
            raise Unsupported("function %s not found with a body" % name)
        F = Fn(self, self.funcs[name])
        text = F.run()
        self.done[name] = F.sig
        self.packed_facts[name] = sorted(F.facts)
        self.assumes[name] = list(F.assumed)
        return text


class Fn:
    def __init__(self, tr, node):
        self.tr, self.node, self.name = tr, node, node["name"]
        tr.lines.fill(node)
        self.counter = {}
        self.sig = None
        self.facts = set()
        self.assumed = []
        self.pure = 0

    def where(self, n):
        return "%s:%s" % (self.name, self.tr.lines.map.get(n.get("id")))

    def bad(self, what, n):
        raise Unsupported("%s at %s" % (what, self.where(n)))

    def fresh(self, base):
        k = self.counter.get(base, 0) + 1
        self.counter[base] = k
        return "%s'%d" % (base, k)

    # E = {"env": {C variable: (type, term) ; term None = uninitialised;  type "word": term = (pointer term, colour term)},
    #      "st": current state variable, "root": tree parameter, "brk" / "cont": what break / continue do here (or None)}
    def with_var(self, E, nm, ty, term):
        E2 = dict(E)
        E2["env"] = dict(E["env"])
        E2["env"][nm] = (ty, term)
        return E2

    def with_st(self, E, s):
        E2 = dict(E)
        E2["st"] = s
        return E2

    def read(self, fld, p, E, k, name="t"):
        if self.pure:
            raise _Impure()
        t = self.fresh(name)
        return "bind (rd %s %s %s) (fun %s =>\n%s)" % (E["st"], fld, p, t, k(t))

    # ---------------------------------------------------------------- the packed word
    def word_field(self, n):
        """n is `x->parent_` of word type: return the node expression x, else None"""
        m = skip(n)
        if m.get("kind") == "MemberExpr" and m.get("isArrow") and m.get("name") == WORD and is_word_type(m) \
                and norm_type(qual(skip(m["inner"][0]))) == T_NODE:
            return m["inner"][0]
        return None

    def word_var(self, n, E):
        """n is a local variable of the word's type: its name, else None"""
        m = skip(n)
        if m.get("kind") == "DeclRefExpr" and is_word_type(m):
            nm = m["referencedDecl"]["name"]
            if nm in E["env"] and E["env"][nm][0] == "word":
                return nm
        return None

    def literal(self, n, through_casts=True):
        """integer literal, possibly under integral casts: (value, widest type seen) or None"""
        n = skip(n)
        wide = False
        while through_casts and n.get("kind") in ("CStyleCastExpr", "ImplicitCastExpr") and n.get("castKind") == "IntegralCast":
            wide = wide or is_word_type(n)
            n = skip(n["inner"][0])
        if n.get("kind") == "IntegerLiteral":
            return int(n["value"]), wide
        return None

    def tag_of(self, n):
        """n is `x->parent_ & 1` (at word width): return x, else None"""
        m = skip(n)
        if m.get("kind") == "BinaryOperator" and m.get("opcode") == "&" and is_word_type(m):
            x = self.word_field(m["inner"][0])
            lit = self.literal(m["inner"][1])
            if x is not None and lit is not None:
                if lit[0] != 1:
                    self.bad("`%s & %d`: the colour occupies bit 0 of the word" % (WORD, lit[0]), m)
                return x
        return None

    def tag_of_var(self, n, E):
        """n is `w & 1` with w a local word variable: its name, else None"""
        m = skip(n)
        if m.get("kind") == "BinaryOperator" and m.get("opcode") == "&" and is_word_type(m):
            w = self.word_var(m["inner"][0], E)
            lit = self.literal(m["inner"][1])
            if w is not None and lit is not None:
                if lit[0] != 1:
                    self.bad("`%s & %d`: the colour occupies bit 0 of the word" % (w, lit[0]), m)
                return w
        return None

    # ---------------------------------------------------------------- node-pointer expressions
    def ptr(self, n, E, k):
        n0 = n
        n = skip(n)
        kind = n.get("kind")
        if kind in ("ImplicitCastExpr", "CStyleCastExpr") and n.get("castKind") == "NullToPointer":
            z = n
            while isinstance(z, dict) and z.get("kind") in ("ImplicitCastExpr", "CStyleCastExpr", "ParenExpr"):
                z = z["inner"][0]
            if z.get("kind") == "IntegerLiteral" and z.get("value") == "0":
                return k("None")
            self.bad("null pointer constant of an unknown form", n)
        if kind == "ImplicitCastExpr" and n.get("castKind") == "BitCast" and norm_type(qual(n)) == T_NODE:
            # `p == (void *)0`: the null pointer constant of type `void *`, converted to the node pointer type
            z = n["inner"][0]
            while isinstance(z, dict) and z.get("kind") in ("ParenExpr",):
                z = z["inner"][0]
            if z.get("kind") == "CStyleCastExpr" and z.get("castKind") == "NullToPointer":
                w = z
                while isinstance(w, dict) and w.get("kind") in ("CStyleCastExpr", "ParenExpr"):
                    w = w["inner"][0]
                if w.get("kind") == "IntegerLiteral" and w.get("value") == "0":
                    return k("None")
        if kind == "ImplicitCastExpr":
            self.bad("pointer conversion %s" % n.get("castKind"), n)
        if norm_type(qual(n)) != T_NODE:
            self.bad("expression of type `%s` where a `%s *` is expected" % (qual(n), NODE), n0)
        if kind == "DeclRefExpr":
            nm = n["referencedDecl"]["name"]
            if nm not in E["env"] or E["env"][nm][0] != "ptr":
                self.bad("variable %s is not a node pointer known here" % nm, n)
            if E["env"][nm][1] is None:
                self.bad("read of the uninitialised variable %s" % nm, n)
            return k(E["env"][nm][1])
        if kind == "MemberExpr":
            if not n.get("isArrow"):
                self.bad("member access without ->", n)
            b = skip(n["inner"][0])
            bt = norm_type(qual(b))
            if bt == T_TREE:
                if b.get("kind") != "DeclRefExpr" or b["referencedDecl"]["name"] != E["root"] or n["name"] != ROOT_FIELD:
                    self.bad("access to a tree object other than the function's own `root->%s`" % ROOT_FIELD, n)
                return k("(rootp %s)" % E["st"])
            if bt != T_NODE:
                self.bad("member of a `%s`" % qual(b), n)
            f = FIELDS.get(n["name"])
            if not f or f[2] != "ptr":
                self.bad("field `%s` read as a node pointer" % n["name"], n)
            return self.ptr(b, E, lambda p: self.read(f[0], p, E, k))
        if kind == "CStyleCastExpr" and n.get("castKind") == "IntegralToPointer":
            a = skip(n["inner"][0])
            # (a_rbt_node *)(x->parent_ & ~(a_uptr)1)
            if a.get("kind") == "BinaryOperator" and a.get("opcode") == "&" and is_word_type(a):
                x = self.word_field(a["inner"][0])
                m = skip(a["inner"][1])
                if x is not None and m.get("kind") == "UnaryOperator" and m.get("opcode") == "~":
                    lit = self.literal(m["inner"][0])
                    if lit is not None:
                        if not lit[1]:
                            self.bad("`~%d` is complemented at the width of int, not of the word `%s`" % (lit[0], WORD), m)
                        if lit[0] != 1:
                            self.bad("the parent pointer is taken as `%s & ~%d`; the colour occupies bit 0" % (WORD, lit[0]), m)
                        self.facts.add("pw_parent")
                        return self.ptr(x, E, lambda p: self.read("cp", p, E, k))
            # (a_rbt_node *)(x->parent_): the whole word; a node pointer only while the colour bit is 0
            x = self.word_field(a)
            if x is not None:
                self.facts.add("pw_whole_red")

                def whole(p):
                    return self.read("cc", p, E, lambda c: "if (%s =? 0)\nthen\n%s\nelse\n  None" % (c, ind(self.read("cp", p, E, k))))
                return self.ptr(x, E, whole)
            self.bad("integer converted to a node pointer in a form other than `(%s *)(x->%s & ~(a_uptr)1)` or `(%s *)(x->%s)`"
                     % (NODE, WORD, NODE, WORD), n)
        if kind == "UnaryOperator" and n.get("opcode") == "*":
            b = skip(n["inner"][0])
            if b.get("kind") == "DeclRefExpr" and E["env"].get(b["referencedDecl"]["name"], (None,))[0] == "slot":
                sv = E["env"][b["referencedDecl"]["name"]][1]
                if sv is None:
                    self.bad("read through the uninitialised %s" % b["referencedDecl"]["name"], n)
                if self.pure:
                    raise _Impure()
                t = self.fresh("t")
                return "bind (rd_slot %s %s) (fun %s =>\n%s)" % (E["st"], sv, t, k(t))
            self.bad("dereference of something other than a local `%s **`" % NODE, n)
        if kind == "CallExpr":
            return self.call(n, E, "ptr", lambda v, E1: k(v) if E1["st"] == E["st"] else
                             self.bad("call of a writing function inside an expression", n))
        if kind == "ConditionalOperator":
            c, a, b = n["inner"]
            return self.cond(c, E, lambda: self.ptr(a, E, k), lambda: self.ptr(b, E, k))
        self.bad("pointer expression %s" % kind, n)

    # ---------------------------------------------------------------- `a_rbt_node **`: the address of a link
    def slot(self, n, E, k):
        n = skip(n)
        if n.get("kind") == "DeclRefExpr" and E["env"].get(n["referencedDecl"]["name"], (None,))[0] == "slot":
            v = E["env"][n["referencedDecl"]["name"]][1]
            if v is None:
                self.bad("read of the uninitialised variable %s" % n["referencedDecl"]["name"], n)
            return k(v)
        if n.get("kind") == "UnaryOperator" and n.get("opcode") == "&":
            m = skip(n["inner"][0])
            if m.get("kind") == "MemberExpr" and m.get("isArrow"):
                b = skip(m["inner"][0])
                bt = norm_type(qual(b))
                if bt == T_TREE and b.get("kind") == "DeclRefExpr" and b["referencedDecl"]["name"] == E["root"] and m["name"] == ROOT_FIELD:
                    return k("SRoot")
                if bt == T_NODE and m["name"] in ("left", "right"):
                    # the address is formed from a node pointer that must be valid (null: an error, as a dereference)
                    ctor = "slot_l" if m["name"] == "left" else "slot_r"
                    t = self.fresh("t")
                    return self.ptr(b, E, lambda p: "bind (%s %s) (fun %s =>\n%s)" % (ctor, p, t, k(t)))
        self.bad("address expression other than `&root->%s`, `&p->left`, `&p->right`" % ROOT_FIELD, n)

    # ---------------------------------------------------------------- integer expressions (colours, comparison results)
    def is_int(self, n):
        return norm_type(qual(n)) in INT_TYPES

    def int(self, n, E, k):
        n = skip(n)
        kind = n.get("kind")
        if not self.is_int(n):
            self.bad("expression of type `%s` where an unsigned int / int is expected" % qual(n), n)
        if kind == "IntegerLiteral":
            return k(n["value"])
        if kind == "ImplicitCastExpr" and n.get("castKind") == "IntegralCast":
            # a non-negative int literal converted to unsigned int (or back): the same number
            z = skip(n["inner"][0])
            if z.get("kind") == "IntegerLiteral" and self.is_int(z) and 0 <= int(z["value"]) < 2 ** 31:
                return k(z["value"])
            self.bad("integer conversion of something other than a small literal", n)
        if kind == "DeclRefExpr":
            nm = n["referencedDecl"]["name"]
            if nm not in E["env"] or E["env"][nm][0] != "int":
                self.bad("variable %s is not an integer known here" % nm, n)
            if E["env"][nm][1] is None:
                self.bad("read of the uninitialised variable %s" % nm, n)
            return k(E["env"][nm][1])
        if kind == "MemberExpr":
            if not n.get("isArrow"):
                self.bad("member access without ->", n)
            b = skip(n["inner"][0])
            f = FIELDS.get(n["name"])
            if norm_type(qual(b)) != T_NODE or not f or f[2] != "int":
                self.bad("integer member `%s` of a `%s`" % (n.get("name"), qual(b)), n)
            return self.ptr(b, E, lambda p: self.read(f[0], p, E, k))
        if kind == "CStyleCastExpr" and n.get("castKind") == "IntegralCast":
            # (unsigned int)(x->parent_ & 1): the colour
            x = self.tag_of(n["inner"][0])
            if x is not None:
                self.facts.add("pw_tag")
                return self.ptr(x, E, lambda p: self.read("cc", p, E, k))
            self.bad("integer cast in a form other than `(unsigned int)(x->%s & 1)`" % WORD, n)
        if kind == "CallExpr" and self.is_cmp_call(n, E):
            return self.cmp_call(n, E, k)
        if kind == "CallExpr":
            return self.call(n, E, "int", lambda v, E1: k(v) if E1["st"] == E["st"] else
                             self.bad("call of a writing function inside an expression", n))
        self.bad("integer expression %s%s (no arithmetic is translated)" % (kind, " " + n.get("opcode") if n.get("opcode") else ""), n)

    def is_cmp_call(self, n, E):
        cal = skip(n["inner"][0])
        return cal.get("kind") == "DeclRefExpr" and E["env"].get(cal["referencedDecl"].get("name"), (None,))[0] == "cmp"

    def cmp_call(self, n, E, k):
        """cmp(a, b): a and b are node pointers (converted to `const void *`) or the opaque context parameter"""
        f = E["env"][skip(n["inner"][0])["referencedDecl"]["name"]][1]
        if f is None:
            self.bad("the comparator has no value here", n)
        args = n["inner"][1:]
        if len(args) != 2:
            self.bad("comparator called with %d arguments" % len(args), n)

        def arg(a, kk):
            a = skip(a)
            while a.get("kind") == "ImplicitCastExpr" and a.get("castKind") in ("BitCast", "NoOp") and norm_type(qual(a)) == T_OPAQUE:
                a = skip(a["inner"][0])
            if a.get("kind") == "DeclRefExpr" and E["env"].get(a["referencedDecl"]["name"], (None,))[0] == "opaque":
                if E["env"][a["referencedDecl"]["name"]][1] is None:
                    self.bad("%s has no value here" % a["referencedDecl"]["name"], n)
                return kk(E["env"][a["referencedDecl"]["name"]][1])
            return self.ptr(a, E, kk)
        return arg(args[0], lambda x: arg(args[1], lambda y: k("(%s %s %s)" % (f, x, y))))

    CMP = {"<": "<?", "<=": "<=?", ">": ">?", ">=": ">=?", "==": "=?"}

    # ---------------------------------------------------------------- conditions
    def cond(self, n, E, kt, kf):
        m = skip(n)
        kind = m.get("kind")
        if kind == "UnaryOperator" and m.get("opcode") == "!":
            return self.cond(m["inner"][0], E, kf, kt)
        if kind == "BinaryOperator" and m.get("opcode") == "&&":
            return self.cond(m["inner"][0], E, lambda: self.cond(m["inner"][1], E, kt, kf), kf)
        if kind == "BinaryOperator" and m.get("opcode") == "||":
            return self.cond(m["inner"][0], E, kt, lambda: self.cond(m["inner"][1], E, kt, kf))
        if kind == "BinaryOperator" and m.get("opcode") in ("==", "!=", "<", "<=", ">", ">="):
            a, b = m["inner"]
            ta, tb = norm_type(qual(skip(a))), norm_type(qual(skip(b)))
            if ta in INT_TYPES and tb == ta:
                op = m["opcode"]
                if op == "!=":
                    op, kt, kf = "==", kf, kt
                return self.int(a, E, lambda x: self.int(b, E, lambda y: "if (%s %s %s)\nthen\n%s\nelse\n%s" % (x, self.CMP[op], y, ind(kt()), ind(kf()))))
            if m["opcode"] in ("==", "!=") and ta not in INT_TYPES and tb not in INT_TYPES:
                if m["opcode"] == "!=":
                    kt, kf = kf, kt
                # `p == (void *)0`: clang converts the node pointer to `void *` for the comparison; the value is the same
                def unvoid(e):
                    e1 = skip(e)
                    if e1.get("kind") == "ImplicitCastExpr" and e1.get("castKind") == "BitCast" and norm_type(qual(e1)) == T_OPAQUE \
                            and norm_type(qual(skip(e1["inner"][0]))) == T_NODE:
                        return e1["inner"][0]
                    return e
                a, b = unvoid(a), unvoid(b)
                return self.ptr(a, E, lambda x: self.ptr(b, E, lambda y: "if oid_eqb %s %s\nthen\n%s\nelse\n%s" % (x, y, ind(kt()), ind(kf()))))
            self.bad("comparison %s between `%s` and `%s`" % (m["opcode"], qual(skip(a)), qual(skip(b))), m)
        if kind == "BinaryOperator" and m.get("opcode") in ("=", ","):
            self.bad("assignment inside a condition", m)
        if kind == "ImplicitCastExpr" and m.get("castKind") in ("PointerToBoolean", "IntegralToBoolean"):
            return self.cond(m["inner"][0], E, kt, kf)
        if kind == "CallExpr" and callee_name(m) == "__builtin_expect":
            # __builtin_expect(c, k) is c
            a = skip(m["inner"][1])
            while a.get("kind") in ("ImplicitCastExpr", "CStyleCastExpr") and a.get("castKind") == "IntegralCast":
                a = skip(a["inner"][0])
            return self.cond(a, E, kt, kf)
        w = self.tag_of_var(m, E)
        if w is not None:
            # (w & 1) as a condition, w a local copy of a word: its colour component is not 0
            self.facts.add("pw_tag")
            if E["env"][w][1] is None:
                self.bad("read of the uninitialised variable %s" % w, m)
            return "if (%s =? 0)\nthen\n%s\nelse\n%s" % (E["env"][w][1][1], ind(kf()), ind(kt()))
        if self.is_int(m):
            return self.int(m, E, lambda x: "if (%s =? 0)\nthen\n%s\nelse\n%s" % (x, ind(kf()), ind(kt())))
        return self.ptr(n, E, lambda x: "if nonnull %s\nthen\n%s\nelse\n%s" % (x, ind(kt()), ind(kf())))

    # ---------------------------------------------------------------- effects
    def effect(self, n, E, k):
        m = n
        voided = False
        while isinstance(m, dict) and (m.get("kind") == "ParenExpr" or (m.get("kind") == "CStyleCastExpr" and m.get("castKind") == "ToVoid")):
            voided = voided or m.get("kind") == "CStyleCastExpr"
            m = m["inner"][0]
        kind = m.get("kind")
        if kind == "IntegerLiteral":
            return k(E)
        if voided and skip(m).get("kind") in ("DeclRefExpr", "MemberExpr"):
            # `(void)x;` / `(void)x->f;`: evaluated (the reads are made) and discarded
            ty = norm_type(qual(skip(m)))
            if ty == T_NODE:
                return self.ptr(m, E, lambda v: k(E))
            if ty in INT_TYPES:
                return self.int(m, E, lambda v: k(E))
        if kind == "BinaryOperator" and m.get("opcode") == ",":
            return self.effect(m["inner"][0], E, lambda E1: self.effect(m["inner"][1], E1, k))
        if kind == "BinaryOperator" and m.get("opcode") == "=":
            return self.assign(m, E, k)
        if kind == "CompoundAssignOperator":
            return self.compound(m, E, k)
        if kind == "CallExpr":
            nm = callee_name(m)
            if nm == "__builtin_assume":
                return self.assume(m, m["inner"][1], E, k)
            if nm == "__builtin_unreachable":
                # reaching it is undefined behaviour
                return "None"
            return self.call(m, E, None, lambda v, E1: k(E1))
        self.bad("expression statement %s%s" % (kind, " " + m.get("opcode") if m.get("opcode") else ""), m)

    def assume(self, m, c, E, k):
        """A_ASSUME(c): where c is false the C is undefined - an error of the program"""
        self.assumed.append("line %s" % self.tr.lines.map.get(m.get("id")))
        return self.cond(c, E, lambda: k(E), lambda: "None")

    def bind_state(self, term, E, k):
        s = self.fresh("st")
        return "bind (%s) (fun %s =>\n%s)" % (term, s, k(self.with_st(E, s)))

    def store(self, fld, b, rhs, E, k):
        """x->fld = rhs (value first, then the address: both sides are free of side effects here)"""
        f = FIELDS[fld]
        ev = self.ptr if f[2] == "ptr" else self.int
        return ev(rhs, E, lambda v: self.ptr(b, E, lambda p: self.bind_state("%s %s %s %s" % (f[1], E["st"], p, v), E, k)))

    def assign(self, m, E, k):
        lhs, rhs = skip(m["inner"][0]), m["inner"][1]
        if skip(rhs).get("kind") == "BinaryOperator" and skip(rhs).get("opcode") == "=":
            self.bad("chained assignment", m)
        lk = lhs.get("kind")
        if lk == "DeclRefExpr":
            nm = lhs["referencedDecl"]["name"]
            if nm not in E["env"]:
                self.bad("assignment to %s, which is not a local variable known here" % nm, m)
            ty = E["env"][nm][0]
            if ty == "word":
                return self.word_load(rhs, E, nm, lambda v: k(self.with_var(E, nm, ty, v)), m)
            if ty == "slot":
                return self.slot(rhs, E, lambda v: k(self.with_var(E, nm, ty, v)))
            if ty in ("cmp", "opaque"):
                self.bad("assignment to the parameter %s" % nm, m)
            if skip(rhs).get("kind") == "CallExpr" and not (ty == "int" and self.is_cmp_call(skip(rhs), E)):
                # x = f(...): f may write (the state after the call is the state the assignment leaves)
                return self.call(skip(rhs), E, ty, lambda v, E1: k(self.with_var(E1, nm, ty, v)), name=nm)
            if ty == "ptr":
                return self.ptr_named(rhs, E, nm, lambda v: k(self.with_var(E, nm, ty, v)))
            return self.int_named(rhs, E, nm, lambda v: k(self.with_var(E, nm, ty, v)))
        if lk == "MemberExpr" and lhs.get("isArrow"):
            b = skip(lhs["inner"][0])
            bt = norm_type(qual(b))
            if bt == T_TREE:
                if b.get("kind") != "DeclRefExpr" or b["referencedDecl"]["name"] != E["root"] or lhs["name"] != ROOT_FIELD:
                    self.bad("write to a tree object other than the function's own `root->%s`" % ROOT_FIELD, m)

                def setroot(v):
                    s = self.fresh("st")
                    return "let %s := set_root %s %s in\n%s" % (s, E["st"], v, k(self.with_st(E, s)))
                return self.ptr(rhs, E, setroot)
            if bt == T_NODE and lhs["name"] in FIELDS:
                return self.store(lhs["name"], b, rhs, E, k)
            if bt == T_NODE and lhs["name"] == WORD and is_word_type(lhs):
                return self.word_store(m, lhs, b, rhs, E, k)
            self.bad("write to the field `%s`" % lhs.get("name"), m)
        if lk == "UnaryOperator" and lhs.get("opcode") == "*":
            c = skip(lhs["inner"][0])
            if c.get("kind") == "DeclRefExpr" and E["env"].get(c["referencedDecl"]["name"], (None,))[0] == "slot":
                # *link = v  (v may be the value of a writing call: the store is made in the state the call leaves)
                nm = c["referencedDecl"]["name"]

                def put(v, E1):
                    sv = E1["env"][nm][1]
                    return self.bind_state("wr_slot %s %s %s" % (E1["st"], sv, v), E1, k)
                if E["env"][nm][1] is None:
                    self.bad("write through the uninitialised %s" % nm, m)
                if skip(rhs).get("kind") == "CallExpr":
                    return self.call(skip(rhs), E, "ptr", put)
                return self.ptr(rhs, E, lambda v: put(v, E))
        self.bad("assignment to this kind of lvalue", m)

    def word_load(self, rhs, E, nm, k, m):
        """w = x->parent_ for a local word variable w: the pair of the components"""
        x = self.word_field(rhs)
        if x is None:
            self.bad("the word variable %s is assigned something other than `x->%s`" % (nm, WORD), m)
        self.facts.add("pw_unique")
        return self.ptr(x, E, lambda q: self.read("cp", q, E, lambda v: self.ptr(x, E, lambda q1: self.read("cc", q1, E, lambda c: k((v, c)), nm + "_c")), nm + "_p"))

    def word_store(self, m, lhs, b, rhs, E, k):
        """x->parent_ = (a_uptr)P + K   /   x->parent_ = (a_uptr)P + (x->parent_ & 1)   /   x->parent_ = y->parent_   /   x->parent_ = w"""
        r = skip(rhs)

        def put(v, c):
            return self.ptr(b, E, lambda p: self.bind_state("wr_p %s %s %s" % (E["st"], p, v), E,
                            lambda E1: self.ptr(b, E1, lambda p1: self.bind_state("wr_c %s %s %s" % (E1["st"], p1, c), E1, k))))
        y = self.word_field(rhs)
        if y is not None:
            # x->parent_ = y->parent_: both components copied (the word is read once, before the write)
            self.facts.add("pw_unique")
            return self.ptr(y, E, lambda q: self.read("cp", q, E, lambda v: self.ptr(y, E, lambda q1: self.read("cc", q1, E, lambda c: put(v, c)))))
        w = self.word_var(rhs, E)
        if w is not None:
            if E["env"][w][1] is None:
                self.bad("read of the uninitialised variable %s" % w, m)
            self.facts.add("pw_unique")
            return put(*E["env"][w][1])
        form = "`x->%s = (a_uptr)P + K`, `x->%s = (a_uptr)P + (x->%s & 1)`, `x->%s = (a_uptr)P`, `x->%s = y->%s` or `x->%s = <word variable>`" % ((WORD,) * 7)
        if r.get("kind") == "CStyleCastExpr" and r.get("castKind") == "PointerToIntegral" and is_word_type(r) \
                and norm_type(qual(skip(r["inner"][0]))) == T_NODE:
            # x->parent_ = (a_uptr)P: the pointer alone, i.e. with the colour bit 0 (a_rbt_init: a new node is red)
            self.facts.add("pw_init")
            return self.ptr(r["inner"][0], E, lambda v: put(v, "0"))
        if r.get("kind") != "BinaryOperator" or r.get("opcode") not in ("+", "|") or not is_word_type(r):
            self.bad("the word `%s` is assigned something other than %s" % (WORD, form), m)
        pp, tg = skip(r["inner"][0]), skip(r["inner"][1])
        if pp.get("kind") != "CStyleCastExpr" or pp.get("castKind") != "PointerToIntegral" or not is_word_type(pp) \
                or norm_type(qual(skip(pp["inner"][0]))) != T_NODE:
            self.bad("the word `%s` is assigned something other than %s" % (WORD, form), m)
        P = pp["inner"][0]
        x2 = self.tag_of(tg)
        if x2 is not None:
            if not same_lvalue_base(b, x2):
                self.bad("`x->%s = (a_uptr)P + (y->%s & 1)` with y not the variable x" % (WORD, WORD), m)
            self.facts.add("pw_set_parent")
            return self.ptr(P, E, lambda v: self.ptr(b, E, lambda p: self.bind_state("wr_p %s %s %s" % (E["st"], p, v), E, k)))
        if tg.get("kind") in ("CStyleCastExpr", "ImplicitCastExpr") and tg.get("castKind") == "IntegralCast" and is_word_type(tg) \
                and norm_type(qual(skip(tg["inner"][0]))) == "unsignedint":
            self.facts.add("pw_make")
            return self.ptr(P, E, lambda v: self.int(tg["inner"][0], E, lambda c: put(v, c)))
        self.bad("the word `%s` is assigned something other than %s" % (WORD, form), m)

    def compound(self, m, E, k):
        """x->parent_ |= 1"""
        lhs, rhs = skip(m["inner"][0]), m["inner"][1]
        if m.get("opcode") != "|=" or lhs.get("kind") != "MemberExpr" or not lhs.get("isArrow") or lhs.get("name") != WORD \
                or not is_word_type(lhs) or norm_type(qual(skip(lhs["inner"][0]))) != T_NODE:
            self.bad("compound assignment %s in a form other than `x->%s |= 1`" % (m.get("opcode"), WORD), m)
        lit = self.literal(rhs)
        if lit is None or lit[0] != 1:
            self.bad("`x->%s |= e` with e not the literal 1" % WORD, m)
        self.facts.add("pw_set_black")
        b = skip(lhs["inner"][0])
        return self.ptr(b, E, lambda p: self.bind_state("wr_c %s %s 1" % (E["st"], p), E, k))

    def ptr_named(self, rhs, E, nm, k):
        """the value of a read / call that is bound to a variable takes the variable's name"""
        return self.named(self.ptr, rhs, E, nm, k)

    def int_named(self, rhs, E, nm, k):
        return self.named(self.int, rhs, E, nm, k)

    def named(self, ev, rhs, E, nm, k):
        r = skip(rhs)
        if r.get("kind") == "CallExpr" and not self.is_cmp_call(r, E):
            return self.call(r, E, "ptr" if ev == self.ptr else "int", lambda v, E1: k(v) if E1["st"] == E["st"] else
                             self.bad("call of a writing function in an initialiser", r), name=nm)
        return ev(rhs, E, k)

    def call(self, m, E, want, k, name="t"):
        """k : (value term | None, E') -> text"""
        if self.pure:
            raise _Impure()
        nm = callee_name(m)
        sig = self.tr.done.get(nm)
        if sig is None:
            self.bad("call to %s, which has not been translated" % nm, m)
        if want is not None and sig["ret"] != want:
            self.bad("call to %s (returns %s) where a value of kind %s is needed" % (nm, sig["ret"], want), m)
        args = m["inner"][1:]
        if len(args) != len(sig["params"]):
            self.bad("call to %s with %d arguments" % (nm, len(args)), m)
        vals = []
        if sig.get("fuel"):
            self.has_loop = True  # the callee's loops run on the caller's fuel

        def go(i):
            if i == len(args):
                app = "%s%s %s%s" % (nm, " fuel" if sig.get("fuel") else "", E["st"], "".join(" " + v for v in vals))
                if not sig["writes"]:
                    if sig["ret"] == "void":
                        self.bad("call to %s, which has no effect" % nm, m)
                    t = self.fresh(name)
                    return "bind (%s) (fun %s =>\n%s)" % (app, t, k(t if want else None, E))
                s = self.fresh("st")
                E2 = self.with_st(E, s)
                if sig["ret"] == "void":
                    return "bind (%s) (fun %s =>\n%s)" % (app, s, k(None, E2))
                t = self.fresh(name) if want else "_"
                return "bind (%s) (fun '(%s, %s) =>\n%s)" % (app, t, s, k(t if want else None, E2))
            kind = sig["params"][i][1]
            a = skip(args[i])
            if kind == "tree":
                if a.get("kind") != "DeclRefExpr" or a["referencedDecl"]["name"] != E["root"]:
                    self.bad("call to %s with a tree other than the caller's own" % nm, m)
                return go(i + 1)
            if kind in ("cmp", "opaque"):
                if a.get("kind") != "DeclRefExpr" or E["env"].get(a["referencedDecl"]["name"], (None,))[0] != kind:
                    self.bad("call to %s: argument %d is not the caller's own %s parameter" % (nm, i + 1, kind), m)
                vals.append(E["env"][a["referencedDecl"]["name"]][1])
                return go(i + 1)
            ev = self.ptr if kind == "ptr" else self.int
            return ev(args[i], E, lambda v: (vals.append(v), go(i + 1))[1])
        return go(0)

    # ---------------------------------------------------------------- statements
    def stmts(self, lst, E, k, kret):
        if not lst:
            return k(E)
        s, rest = lst[0], lst[1:]
        knext = lambda E1: self.stmts(rest, E1, k, kret)
        kind = s.get("kind")
        if kind in ("WhileStmt", "DoStmt", "ForStmt"):
            return self.loop(s, E, knext, kret)
        if kind == "CompoundStmt":
            inner = s.get("inner", []) or []
            declared = [d["name"] for x in inner if x.get("kind") == "DeclStmt" for d in x.get("inner", []) if d.get("kind") == "VarDecl"]
            for d in declared:
                if d in E["env"]:
                    self.bad("declaration of %s shadows an outer variable" % d, s)

            def leave(E1):
                E2 = dict(E1)
                E2["env"] = {v: t for v, t in E1["env"].items() if v not in declared}
                return knext(E2)
            return self.stmts(inner, E, leave, kret)
        if kind == "NullStmt":
            return knext(E)
        if kind == "DeclStmt":
            decls = list(s.get("inner", []))

            def go(i, E1):
                if i == len(decls):
                    return knext(E1)
                d = decls[i]
                if d.get("kind") != "VarDecl":
                    self.bad("declaration %s" % d.get("kind"), s)
                t = norm_type(qual(d))
                ty = "ptr" if t == T_NODE else "int" if t in INT_TYPES else "slot" if t == T_NODEPP else "word" if is_word_type(d) else None
                if ty is None:
                    self.bad("local variable %s of type `%s`" % (d.get("name"), qual(d)), s)
                if d.get("storageClass"):
                    self.bad("%s local variable" % d["storageClass"], s)
                init = [c for c in d.get("inner", []) if c.get("kind", "").endswith(("Expr", "Operator", "Literal"))]
                if not init:
                    return go(i + 1, self.with_var(E1, d["name"], ty, None))
                if ty == "word":
                    return self.word_load(init[0], E1, d["name"], lambda v: go(i + 1, self.with_var(E1, d["name"], ty, v)), s)
                if ty == "slot":
                    return self.slot(init[0], E1, lambda v: go(i + 1, self.with_var(E1, d["name"], ty, v)))
                ev = self.ptr_named if ty == "ptr" else self.int_named
                return ev(init[0], E1, d["name"], lambda v: go(i + 1, self.with_var(E1, d["name"], ty, v)))
            return go(0, E)
        if kind == "IfStmt":
            parts = s["inner"]
            if s.get("hasInit") or s.get("hasVar"):
                self.bad("if with a declaration", s)
            thn = [parts[1]]
            els = [parts[2]] if len(parts) > 2 else []
            return self.cond(parts[0], E, lambda: self.stmts(thn, E, knext, kret), lambda: self.stmts(els, E, knext, kret))
        if kind == "ReturnStmt":
            return kret(s, E)
        if kind == "BreakStmt":
            if not E.get("brk"):
                self.bad("break outside a loop", s)
            return E["brk"](E)
        if kind == "ContinueStmt":
            if not E.get("cont"):
                self.bad("continue outside a loop", s)
            return E["cont"](E)
        if kind in ("SwitchStmt", "GotoStmt", "LabelStmt"):
            self.bad("statement %s" % kind, s)
        if kind.endswith(("Expr", "Operator", "Literal")):
            return self.effect(s, E, knext)
        self.bad("statement %s" % kind, s)

    # ---------------------------------------------------------------- loops
    def has_kind(self, n, kinds):
        if isinstance(n, dict):
            return n.get("kind") in kinds or any(self.has_kind(c, kinds) for c in n.get("inner", []) or [])
        return False

    def loop(self, s, E, knext, kret):
        """`for (init; [c]; [inc]) S` / `while (c) S` / `do S while (c);` becomes (the init part first, in the enclosing code)
               Fixpoint <f>_loop<n> (fuel : nat) (st'0 : state) (<carried variables>) {struct fuel} : <result type of f> :=
                 match fuel with O => None | S fuel' => <one iteration: ... the recursive call on fuel' | the rest of f> end.
           One unit of fuel per iteration, taken at its head (before the condition of a for / while, before the body of a
           do-while); running out of fuel is None.  `continue` (and the end of the body) is the inc part, if any, then the recursive
           call (for a do-while: the condition first); `break` and a false condition run everything f does after the loop, which is
           part of the Fixpoint; a `return` in the body returns from f.  Carried: the variables with a value on entry that an
           iteration may read before it assigns them or that the code after the loop reads (found by translating with the variable
           left without a value)."""
        kind = s["kind"]
        init = inc = None
        if kind == "WhileStmt":
            if len(s["inner"]) != 2:
                self.bad("while with a declaration", s)
            cnd, body = s["inner"]
        elif kind == "DoStmt":
            body, cnd = s["inner"]
        else:
            if len(s["inner"]) != 5:
                self.bad("for statement of an unknown shape", s)
            init, var, cnd, inc, body = s["inner"]
            if var:
                self.bad("for with a condition declaration", s)
            init, cnd, inc = init or None, cnd or None, inc or None       # clang prints an absent part as {}
            if init is not None and not init.get("kind", "").endswith(("Expr", "Operator", "Literal")):
                self.bad("for whose first part is a %s" % init.get("kind"), s)
        if init is not None:
            # the init part runs once, before the loop proper
            s2 = dict(s)
            s2["inner"] = [{}, {}, cnd or {}, inc or {}, body]
            s2["id"] = str(s.get("id")) + "/noinit"
            self.tr.lines.map.setdefault(s2["id"], self.tr.lines.map.get(s.get("id")))
            return self.effect(init, E, lambda E1: self.loop(s2, E1, knext, kret))
        if self.has_kind(body, ("WhileStmt", "DoStmt", "ForStmt")):
            self.bad("nested loop", s)
        if E.get("inloop"):
            self.bad("a second loop on a path that has already run one", s)
        cand = [v for v in E["env"] if E["env"][v][1] is not None]
        # continuation style reaches a loop once per path that leads to it: one Fixpoint per (loop, set of variables with a value)
        memo = self.__dict__.setdefault("loops", {})
        key = (s.get("id"), tuple(cand))
        if key in memo:
            name, carried = memo[key]
            return "%s fuel %s%s" % (name, E["st"], "".join(" " + self.carry_vals(E, v) for v in carried))
        self.nloops = getattr(self, "nloops", 0) + 1
        name = "%s_loop%d" % (self.name, self.nloops)

        def build(carried):
            saved = self.counter
            self.counter = {}
            EL = dict(E)
            EL["env"] = {v: ((t[0], self.carry_names(t[0], v)) if v in carried else (t[0], None)) for v, t in E["env"].items()}
            EL["st"] = "st'0"
            EL["inloop"] = True

            def again(E1):
                vals = []
                for v in carried:
                    if E1["env"][v][1] is None:
                        self.bad("%s may be without a value at the next iteration" % v, s)
                    vals.append(self.carry_vals(E1, v))
                return "%s fuel' %s%s" % (name, E1["st"], "".join(" " + x for x in vals))

            def leave(E1):
                E2 = dict(E1)
                E2["brk"], E2["cont"] = E.get("brk"), E.get("cont")
                return knext(E2)

            def step(E1):
                # the end of the body / continue: inc, then (do-while) the condition, then the next iteration
                after = (lambda E2: self.cond(cnd, E2, lambda: again(E2), lambda: leave(E2))) if kind == "DoStmt" else again
                return self.effect(inc, E1, after) if inc is not None else after(E1)

            EB = dict(EL)
            EB["brk"], EB["cont"] = leave, step
            try:
                if kind == "DoStmt" or cnd is None:
                    it = self.stmts([body], EB, step, kret)
                else:
                    it = self.cond(cnd, EL, lambda: self.stmts([body], EB, step, kret), lambda: leave(EL))
            finally:
                self.counter = saved
            return it

        carried = list(cand)
        for v in list(cand):
            trial = [x for x in carried if x != v]
            facts, hl, na = set(self.facts), self.has_loop, len(self.assumed)
            try:
                build(trial)
                carried = trial                    # neither an iteration nor the code after the loop reads v before assigning it
            except Unsupported:
                pass
            self.facts, self.has_loop = facts, hl
            del self.assumed[na:]
        na = len(self.assumed)
        it = build(carried)
        self.assumed[na:] = sorted(set(self.assumed[na:]), key=lambda x: int(x.split()[1]) if x.split()[1].isdigit() else 0)
        params = "".join(self.carry_params(E["env"][v][0], v) for v in carried)
        self.defs.append("Fixpoint %s (fuel : nat) (st'0 : state)%s {struct fuel} : %s :=\n  match fuel with\n  | O => None\n  | S fuel' =>\n%s\n  end."
                         % (name, params, self.rty, ind(it, 4)))
        self.has_loop = True
        memo[key] = (name, carried)
        return "%s fuel %s%s" % (name, E["st"], "".join(" " + self.carry_vals(E, v) for v in carried))

    @staticmethod
    def carry_names(ty, v):
        return (v + "_p'0", v + "_c'0") if ty == "word" else v + "'0"

    @staticmethod
    def carry_params(ty, v):
        if ty == "word":
            return " (%s_p'0 : option id) (%s_c'0 : Z)" % (v, v)
        return " (%s'0 : %s)" % (v, GTY[ty])

    @staticmethod
    def carry_vals(E, v):
        ty, t = E["env"][v]
        return "%s %s" % t if ty == "word" else t

    # ---------------------------------------------------------------- the function
    def run(self):
        params = [c for c in self.node.get("inner", []) if c["kind"] == "ParmVarDecl"]
        body = [c for c in self.node["inner"] if c["kind"] == "CompoundStmt"][0]
        rt = norm_type(self.node["type"]["qualType"].split("(")[0])
        ret = {T_NODE: "ptr", "int": "int", "unsignedint": "int", "void": "void"}.get(rt)
        if ret is None:
            self.bad("return type `%s`" % rt, self.node)
        env, root, sig_params = {}, None, []
        for p in params:
            t = norm_type(qual(p))
            if t == T_NODE:
                env[p["name"]] = ("ptr", p["name"] + "'0")
                sig_params.append((p["name"], "ptr"))
            elif t in INT_TYPES:
                env[p["name"]] = ("int", p["name"] + "'0")
                sig_params.append((p["name"], "int"))
            elif t == T_TREE and root is None:
                root = p["name"]
                sig_params.append((p["name"], "tree"))
            elif qual(p).replace("const", "").replace(" ", "") == T_CMP:
                # a comparator: a pure function of two pointers (it looks at the user's enclosing structures, never at the tree)
                env[p["name"]] = ("cmp", p["name"] + "'0")
                sig_params.append((p["name"], "cmp"))
            elif t == T_OPAQUE:
                # an opaque pointer that is only handed to the comparator
                env[p["name"]] = ("opaque", p["name"] + "'0")
                sig_params.append((p["name"], "opaque"))
            else:
                self.bad("parameter %s of type `%s`" % (p.get("name"), qual(p)), p)
        writes = self.tr.writes(body)
        if ret == "void" and not writes:
            self.bad("void function without effect on the modelled state", self.node)
        E = {"env": env, "st": "st'0", "root": root, "brk": None, "cont": None}
        self.defs, self.has_loop = [], False
        if not writes:
            self.rty = "option (%s)" % GTY[ret]
        elif ret == "void":
            self.rty = "option state"
        else:
            self.rty = "option (%s * state)" % GTY[ret]

        def kret(s, E1):
            has = bool(s.get("inner"))
            if has != (ret != "void"):
                self.bad("return with/without a value", s)
            if ret == "void":
                return "Some %s" % E1["st"]
            ev = self.ptr if ret == "ptr" else self.int
            return ev(s["inner"][0], E1, lambda v: "Some (%s, %s)" % (v, E1["st"]) if writes else "Some %s" % v)

        kend = (lambda E1: "Some %s" % E1["st"]) if ret == "void" else \
            (lambda E1: self.bad("control reaches the end of a non-void function", self.node))
        term = self.stmts(body.get("inner", []) or [], E, kend, kret)
        ps = "".join(" (%s'0 : %s)" % (n, GTY[kd]) for n, kd in sig_params if kd != "tree")
        self.sig = {"writes": writes, "params": sig_params, "ret": ret, "fuel": self.has_loop}
        fuel = " (fuel : nat)" if self.has_loop else ""
        return "\n\n".join(self.defs + ["Definition %s%s (st'0 : state)%s : %s :=\n%s." % (self.name, fuel, ps, self.rty, ind(term))])


def translate(repo, cfg, names=None):
    """-> (text of the module Gen.RbtGen for one configuration header, {function: error}, {function: [packed-word facts used]},
           {function: [A_ASSUME sites translated]})"""
    from pathlib import Path
    repo = Path(repo).resolve()
    cfg = Path(cfg).resolve()
    names = list(names or FUNCTIONS)
    try:
        ast = load_ast(repo / "src" / "rbt.c", repo / "include", cfg)
    except Unsupported as e:
        return PRELUDE, {"src/rbt.c (all %d functions)" % len(names): str(e)}, {}, {}
    tr = Tr(ast)
    out, errs = [], {}
    for nm in names:
        try:
            out.append("(* %s *)\n%s" % (nm, tr.translate(nm)))
        except Unsupported as e:
            errs[nm] = str(e)
        except (KeyError, IndexError, TypeError, ValueError, AttributeError) as e:      # an AST shape this translator does not know
            errs[nm] = "unexpected AST shape in %s (%s: %s)" % (nm, type(e).__name__, e)
    return (PRELUDE + "\n\n".join(out) + "\n", errs, {k: v for k, v in tr.packed_facts.items() if v},
            {k: v for k, v in tr.assumes.items() if v})


if __name__ == "__main__":
    # c2rbt.py <repo> <configuration header> [function ...]
    t, e, f, a = translate(sys.argv[1], sys.argv[2], sys.argv[3:] or None)
    print(t)
    for k, v in f.items():
        print("(* %s: packed-word facts used: %s *)" % (k, ", ".join(v)))
    for k, v in a.items():
        print("(* %s: A_ASSUME translated at: %s *)" % (k, ", ".join(v)))
    for k, v in e.items():
        print("(* ERROR %s: %s *)" % (k, v))
