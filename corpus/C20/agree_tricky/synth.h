#ifndef SYNTH_H
#define SYNTH_H
#include <stddef.h>
typedef double a_real;
typedef size_t a_size;
typedef _Bool a_bool;
typedef struct a_inner
{
    unsigned char tag;
    a_real val;
} a_inner;
typedef struct a_outer a_outer;
struct a_outer
{
    a_inner pid;
    a_real const *me;
    unsigned int *idx;
    a_real (*opr)(a_real, a_real);
    unsigned short table[0x10];
    unsigned short (*eval[2])(unsigned short const *, void const *, a_size, unsigned short);
    char alpha_[4];
    a_bool ok;
    unsigned int nrule;
    signed char last;
};
union a_pun
{
    a_real r;
    unsigned char b[9];
};
extern a_real a_outer_run(a_outer *ctx, a_real set, a_size n);
extern void a_outer_alpha(a_outer const *ctx, char alpha[5]);
extern a_real (*a_outer_opr(unsigned int opr))(a_real, a_real);
extern void *a_outer_buf(a_outer const *ctx);
extern a_bool a_outer_cmp(a_outer const *lhs, a_outer const *rhs);
extern unsigned int const a_outer_count;
extern a_real a_mf_one(a_real x, a_real a);
static inline a_real a_not_exported(a_real x) { return x; }
#endif
