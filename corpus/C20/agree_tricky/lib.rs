#![allow(non_camel_case_types, dead_code)]
//! corpus case: declarations that DO agree, using every construct of the lib.rs subset
#[cfg(not(feature = "float"))]
pub type real = f64;
#[cfg(feature = "float")]
pub type real = f32;
pub use core::ffi::c_int;
pub use core::ffi::c_uint;

/// inner record with internal padding
#[repr(C)]
pub struct inner {
    /// tag
    pub tag: u8,
    val: real,
}

/// outer record: nested by value, arrays, pointers, function pointers, bool, trailing padding
#[repr(C)]
pub struct outer {
    pub pid: inner,
    me: *const real,
    idx: *mut c_uint,
    opr: extern "C" fn(real, real) -> real,
    pub table: [u16; 0x10],
    eval: [unsafe extern "C" fn(*const u16, *const u8, usize, u16) -> u16; 2],
    pub alpha: [u8; 4],
    pub ok: bool,
    nrule: c_uint,
    last: i8,
}

/// not a mirror of anything and not repr(C): ignored
pub struct helper {
    x: u32,
}

extern "C" {
    fn a_outer_run(ctx: *mut outer, set: real, n: usize) -> real;
    fn a_outer_alpha(ctx: *const outer, alpha: &mut [u8; 5]);
    fn a_outer_opr(opr: c_uint) -> extern "C" fn(real, real) -> real;
    fn a_outer_buf(ctx: *const outer) -> *mut u8;
    fn a_outer_cmp(lhs: *const outer, rhs: *const outer) -> bool;
    static a_outer_count: c_uint;
}

/// nested module with its own private foreign items
pub mod mf {
    use crate::real;
    extern "C" {
        fn a_mf_one(x: real, a: real) -> real;
    }
    /// wrapper
    pub fn one(x: real, a: real) -> real {
        unsafe { a_mf_one(x, a) }
    }
}

impl outer {
    /// body with braces, strings and lifetimes the item skipper must survive: "}" '{' 'a
    pub fn name<'a>(&'a self) -> &'a str {
        let _c = '}';
        "outer { }"
    }
}
