#ifndef SYNTH_H
#define SYNTH_H
#include <stddef.h>
typedef double a_real;
typedef size_t a_size;
typedef struct a_regress_linear { a_real *coef_p; a_size coef_n; a_real bias; } a_regress_linear;
typedef struct a_version { unsigned int major; unsigned int minor; char alpha_[4]; } a_version;
typedef struct a_pid { a_real ki; a_real kp; a_real out; a_real extra; } a_pid;
typedef struct a_lpf { float alpha; unsigned int pad; float output; } a_lpf;
extern a_real a_regress_linear_mgd(a_regress_linear *ctx, a_size n, a_real const *x, a_real delta);
extern unsigned int a_version_tostr(a_version const *ctx, void *pdata, a_size nbyte);
extern a_real a_real_sum(a_size n, a_real const *p);
#endif
