#![allow(non_camel_case_types, dead_code)]
//! corpus case: the defects found in lib.rs (fixed by proposed_fixes/C20-1, C20-2) in miniature, and
//! the silent failure modes the property is about
pub use core::ffi::c_int;
pub use core::ffi::c_uint;
pub type real = f64;

#[repr(C)]
pub struct regress_linear {
    coef_p: *mut real,
    coef_n: usize,
    pub bias: real,
}
#[repr(C)]
pub struct version {
    pub major: c_uint,
    pub minor: c_uint,
    pub alpha: [u8; 4],
}
/// C header swapped kp/ki (same type: only the names can tell) and grew a field at the end
#[repr(C)]
pub struct pid {
    pub kp: real,
    pub ki: real,
    pub out: real,
}
/// C header inserted a 4-byte member before `output`: offsets move
#[repr(C)]
pub struct lpf {
    pub alpha: f32,
    pub output: f32,
}
extern "C" {
    fn a_regress_linear_mgd(ctx: *mut regress_linear, n: usize, x: *const real, delta: real);
    fn a_version_tostr(ctx: *const version, p: *mut u8, n: usize) -> c_int;
    fn a_version_gone(ctx: *const version) -> c_uint;
    fn a_real_sum(n: usize, p: *const f32) -> real;
}
