"""C10: complex arithmetic and functions (src/complex.c, include/a/complex.h, constants of include/a/math.h).

Proof over R (coq/Properties_C10.v) about the hand-written model coq/C10/CxDefs.v (always-compiled functions, inline
header functions and every fallback body, parametrised by the A_HAVE_C* binding).
Tie 1 (structure): the SAME Gallina terms instantiated with binary64 primitive floats (vm_compute), libm replaced on both
        sides by identical substitute functions (--wrap), compared bit for bit with complex.c built from the current
        tree in the all-fallback, all-libm and mixed configurations.
Tie 2 (accuracy; rounding theorems exist for the field arithmetic and the modulus only, coq/C10/CxRound*.v - the
        transcendental functions' accuracy is sampled, partial): the C built against the real libm, in the
        all-libm / all-fallback / complex-fallback configurations, double and float (thorough: every one-switch build),
        compared at points of all quadrants, both axes, tiny..large magnitudes with a 45-digit mpmath oracle
        (harness/C10/oracle.py): |out - exact| <= K eps max(1,cond) |exact|, K = 16.  This oracle is the search oracle:
        it is the property evaluated on the C output; failing points are shrunk and written to the replay file."""
import math
import os
import random
import re
import struct
from concurrent.futures import ThreadPoolExecutor

import fcorr
import vlib

META = {
    "text": "Rocq theorems over the reals about a hand-written model of complex.c/complex.h (always-compiled code, inline "
            "scalar forms, every fallback body, any A_HAVE_C* binding): field operations equal Coquelicot's Cmult/Cdiv/Cinv, "
            "scalar forms equal the operation with (y,0)/(0,y), inverse pairs compose to the identity, the sqrt fallback is the "
            "principal root in all quadrants and on both axes, exp/log/pow/polar identities, the five irrational constants are "
            "within 2^-53 relative of their exact values, forward trig/hyperbolic fallbacks equal their exponential definitions, "
            "reciprocal and inverse families have the documented structure, atan/asin/acos fallback residual identities. "
            "Tie 1: bit-exact binary64 run of the same terms vs the C (libm substituted on both sides) in fallback, libm and mixed "
            "configurations. Tie 2: sampled accuracy of the real builds (double/float, libm/fallback) against a 45-digit oracle. "
            "Rounding model (coq/C10/CxRound.v, CxRound64.v; 36 theorems c10_*_rounding_* and companions): forward error bounds of the FIELD "
            "arithmetic for the same model terms run at a rounded-real instance (every + - * / followed by rnd) for EVERY rnd with "
            "|rnd v - v| <= eps|v| + eta (standard model with gradual underflow; IEEE binary64 round-to-nearest-even is an instance "
            "by Flocq, eps=2^-53, eta=2^-1075): add/sub/add_real/add_imag/sub_real/sub_imag/mul_real/mul_imag/div_real/div_imag "
            "componentwise eps|exact|+eta (copied component exact; neg, conj exact); mul componentwise (2eps+eps^2)(|ac|+|bd|)+"
            "(3+2eps)eta and normwise sqrt2((2eps+eps^2)|x||z|+(3+2eps)eta); abs2 likewise; inv |fl-1/z| <= 11eps/|z|+2eta(1+1/|z|); "
            "div componentwise 14eps(|ac|+|bd|)/|z|^2+eta(5+2|x/z|) and normwise |fl-x/z| <= 19eps|x/z|+eta(7+3|x/z|), for any "
            "modulus function accurate to 2eps|z| at z (covers a 1-ulp libm hypot and the correctly rounded one), under rnd 1=1, "
            "eps<=1/64, z<>0 and the range hypotheses eta<=eps|z|, eta|z|<=eps (2^-1022<=|z|<=2^1022 in binary64); general form "
            "for a modulus of any relative accuracy theta<=1/2; with the fallback modulus a_real_norm2 (the rounded C11 body, "
            "accuracy from C11's norm2 theorem) the constants are 26 (inv), 29/41 (div), eps<=1/128; modulus: eps|z|+eta when "
            "correctly rounded, 7/2(eps+eta)|z|+eta for the fallback; binary64 corollaries; non-vacuity theorems (identity "
            "rounding, the inexact rounding v->9/8v where the mul bound is attained, binary64 at z=3+4i).",
    "note": "Partial: 'within a small multiple of machine precision for all finite arguments' is a theorem only for the field "
            "arithmetic (add/sub/mul/div/inv, scalar forms, abs2, modulus) and only in the rounded-real model: overflow is outside "
            "the model (rnd is unbounded), div/inv need |z| in [eta/eps, eps/eta] and rnd 1=1, the libm hypot enters as a "
            "hypothesis (accurate to 2eps at the argument) or as the idealised correctly rounded function of Rnd_ops, the "
            "constants (11/14/19, fallback 26/29/41) are explicit but not sharp, and the step from the rounded-real term to the "
            "binary64 run of the C is the per-operation Flocq link of Common/RoundFlocq.v, not composed along the function. For "
            "sqrt/exp/log/pow and all trigonometric/hyperbolic functions and inverses the accuracy clause is established at the "
            "sampled points only (K=16) and no theorem carries rounding. Trusted: Coq kernel/vm_compute with "
            "primitive floats, real-number axioms listed by Print Assumptions, the 'same term, different instance' argument, the "
            "hand transcription (validated bit for bit on the generated cases only), mpmath as reference, R-instance semantics of "
            "libm names (ROps.v, CxReal.v).",
    "technique": "Rocq proof over R (field/nra/Coquelicot/Interval) + bit-exact primitive-float model vs C correspondence + "
                 "high-precision sampled accuracy oracle + forward rounding-error bounds in the standard model (rounded-real "
                 "instance, Flocq binary64 instance) for the field arithmetic",
}

H = vlib.VERIF / "harness" / "C10"
K_TOL = 16
CSW = ["CSQRT", "CEXP", "CLOG", "CSIN", "CCOS", "CTAN", "CSINH", "CCOSH", "CTANH",
       "CASIN", "CACOS", "CATAN", "CASINH", "CACOSH", "CATANH", "CPOW"]
COQ_SW = {s: "C" + s[1:2] + s[2:].lower() for s in CSW}      # CSQRT -> CSqrt
RSW = ["ASINH", "ACOSH", "ATANH", "EXPM1", "LOG1P", "ATAN2", "HYPOT"]
RSW_USED = ["ACOSH", "ATANH", "LOG1P", "ATAN2", "HYPOT"]     # the real helpers complex.c calls
REPO_SRCS = ["complex.c", "math.c", "a.c"]
EXTRA_WRAP = ["-Wl,--wrap=" + w for w in
              ["acosh", "atanh", "asinh", "csqrt", "cexp", "clog", "csin", "ccos", "ctan", "csinh", "ccosh", "ctanh",
               "casin", "cacos", "catan", "casinh", "cacosh", "catanh", "cpow"]]

# name -> kind.  c1: complex->complex  c2: (complex,complex)  cr: (complex,real)  rc: real->complex  r1: complex->real
# rr: (real,real)->complex.  Every c1/c2/cr function also exists in place as <name>_ (same model function).
KIND = {}
for _n in ("conj neg inv proj sqrt exp log log2 log10 sin cos tan sec csc cot asin acos atan asec acsc acot sinh cosh tanh sech "
           "csch coth asinh acosh atanh asech acsch acoth").split():
    KIND[_n] = "c1"
for _n in "add sub mul div pow logb".split():
    KIND[_n] = "c2"
for _n in "add_real add_imag sub_real sub_imag mul_real mul_imag div_real div_imag pow_real".split():
    KIND[_n] = "cr"
for _n in "sqrt_real asin_real acos_real asec_real acsc_real acosh_real atanh_real".split():
    KIND[_n] = "rc"
for _n in "logabs abs2 abs arg".split():
    KIND[_n] = "r1"
KIND["polar"] = "rr"
KIND["rect"] = "rr"
PAIRS = {"exp_log": "c1", "log_exp": "c1", "inv_inv": "c1", "sqrt_sqr": "c1",
         "mul_div_real": "cr", "div_mul_real": "cr", "mul_div_imag": "cr", "div_mul_imag": "cr"}
NARGS = {"c1": 2, "c2": 4, "cr": 3, "rc": 1, "r1": 2, "rr": 2}
# which switches decide the code path of a function (used to select functions for the one-switch builds)
USES = {
    "sqrt": ["CSQRT"], "sqrt_sqr": ["CSQRT"], "exp": ["CEXP"], "log": ["CLOG", "LOG1P", "ATAN2"], "log2": ["CLOG", "LOG1P", "ATAN2"],
    "log10": ["CLOG", "LOG1P", "ATAN2"], "logb": ["CLOG", "LOG1P", "ATAN2", "HYPOT"], "exp_log": ["CEXP", "CLOG", "LOG1P", "ATAN2"],
    "log_exp": ["CEXP", "CLOG", "LOG1P", "ATAN2"], "pow": ["CPOW", "LOG1P", "ATAN2"], "pow_real": ["LOG1P", "ATAN2"],
    "logabs": ["LOG1P"], "arg": ["ATAN2"], "abs": ["HYPOT"], "div": ["HYPOT"], "inv": ["HYPOT"], "inv_inv": ["HYPOT"],
    "sin": ["CSIN"], "csc": ["CSIN", "HYPOT"], "cos": ["CCOS"], "sec": ["CCOS", "HYPOT"], "tan": ["CTAN"], "cot": ["CTAN", "HYPOT"],
    "sinh": ["CSINH"], "csch": ["CSINH", "HYPOT"], "cosh": ["CCOSH"], "sech": ["CCOSH", "HYPOT"], "tanh": ["CTANH"],
    "coth": ["CTANH", "HYPOT"],
    "asin": ["CASIN", "HYPOT", "LOG1P", "ACOSH"], "acsc": ["CASIN", "HYPOT", "LOG1P", "ACOSH"],
    "acos": ["CACOS", "HYPOT", "LOG1P", "ACOSH"], "asec": ["CACOS", "HYPOT", "LOG1P", "ACOSH"],
    "atan": ["CATAN", "HYPOT", "LOG1P", "ATAN2"], "acot": ["CATAN", "HYPOT", "LOG1P", "ATAN2"],
    "asinh": ["CASINH", "CASIN", "HYPOT", "LOG1P", "ACOSH"], "acsch": ["CASINH", "CASIN", "HYPOT", "LOG1P", "ACOSH"],
    "acosh": ["CACOSH", "CACOS", "HYPOT", "LOG1P", "ACOSH"], "asech": ["CACOSH", "CACOS", "HYPOT", "LOG1P", "ACOSH"],
    "atanh": ["CATAN", "HYPOT", "LOG1P", "ATAN2", "ATANH"], "acoth": ["CATAN", "HYPOT", "LOG1P", "ATAN2", "ATANH"],
    "asin_real": ["ACOSH"], "acos_real": ["ACOSH"], "asec_real": ["ACOSH"], "acsc_real": ["ACOSH"], "acosh_real": ["ACOSH"],
    "atanh_real": ["ATANH"],
}


def hx(x):
    return fcorr.argbits(x)


def f32(x):
    """round to binary32 (the float builds receive exactly representable inputs)"""
    try:
        return struct.unpack("<f", struct.pack("<f", x))[0]
    except OverflowError:
        return math.copysign(math.inf, x)


# ------------------------------------------------------------------------------------------------ builds
def build(ctx, tag, on, real=8, subst=False, ron=None):
    """complex.c from the current tree with exactly the complex switches `on` (and real-helper switches `ron`) defined."""
    ron = RSW if ron is None else ron
    ov = {s: (1 if s in on else 0) for s in CSW}
    ov.update({s: (1 if s in ron else 0) for s in RSW})
    # express the configuration relative to the all-on header to keep the generated file name short
    ov = {k: v for k, v in ov.items() if v == 0}
    srcs = [H / "drv.c"]
    extra = []
    if subst:
        srcs += [fcorr.LIBM_SUBST, H / "csubst.c"]
        extra = fcorr.WRAP_FLAGS + EXTRA_WRAP
    return ctx.cc("drv_" + tag, srcs, repo_srcs=REPO_SRCS, mode="num", have=1, real=real, overrides=ov, extra=extra)


# ------------------------------------------------------------------------------------------------ tie 1
def t1_value(r):
    k = r.choice("mmmmmmmsbbieeuz")
    if k in "msbie":
        return fcorr.rand_double(r, k)
    if k == "u":                      # around the unit boundaries of the case splits
        return r.choice([1.0, -1.0]) * (1.0 + r.choice([0.0, 1e-16, -1e-16, 2.3e-16, 1e-3, -1e-3, 0.5, -0.3589]))
    return r.choice([0.0, -0.0, math.inf, -math.inf, math.nan, 0.6417, 1.5, 0.1, 5e-324, 1.7e308])


def t1_args(r, kind):
    n = NARGS[kind]
    a = [t1_value(r) for _ in range(n)]
    c = r.random()
    if kind in ("c1", "r1", "c2", "cr") and c < 0.12:
        a[1] = r.choice([0.0, -0.0])                       # real axis
    elif kind in ("c1", "r1", "c2", "cr") and c < 0.24:
        a[0] = r.choice([0.0, -0.0])                       # imaginary axis
    elif kind in ("c1", "r1", "c2", "cr") and c < 0.30:
        a[1] = math.copysign(a[0], r.choice([1, -1])) if a[0] == a[0] else a[1]   # |x| = |y|
    elif kind in ("c1", "r1") and c < 0.34:
        a[0] = a[1] = r.choice([0.0, -0.0])
    if kind == "c2" and r.random() < 0.08:
        a[2] = a[3] = 0.0                                  # pow(z, 0), division by zero
    if kind == "cr" and r.random() < 0.05:
        a[2] = 0.0
    return a


def tie1(ctx):
    r = random.Random(ctx.subseed("tie1"))
    per = 14 if ctx.quick else 220
    rr = random.Random(ctx.subseed("tie1-mixed"))
    configs = [("fallback", []), ("libm", list(CSW))]
    half = [s for s in CSW if rr.random() < 0.5]
    configs.append(("mixedA", half))
    configs.append(("mixedB", [s for s in CSW if s not in half]))
    if not ctx.quick:
        for s in CSW:
            configs.append(("only_" + s, [s]))
            configs.append(("no_" + s, [t for t in CSW if t != s]))
    names = []
    for n, k in KIND.items():
        names.append((n, n, k))
        if k in ("c1", "c2", "cr"):
            names.append((n + "_", n, k))
    corpus = load_corpus()
    total, mism, first = 0, 0, []
    nontrivial = set()

    def run_cfg(cfg):
        tag, on = cfg
        rc_ = random.Random(ctx.subseed("tie1/" + tag))
        cases = []
        for (fn, args) in corpus:
            base = fn[:-1] if fn.endswith("_") else fn
            if base in KIND:
                cases.append((fn, base, args))
        np_ = per if len(configs) <= 4 or tag in ("fallback", "libm") else max(4, per // 8)
        for cname, base, k in names:
            for _ in range(np_):
                cases.append((cname, base, t1_args(rc_, k)))
        cbin = build(ctx, "t1_" + tag, on, subst=True)
        c_out = fcorr.run_c(cbin, ["%s %s" % (c[0], " ".join(hx(v) for v in c[2])) for c in cases])
        cfgl = "[" + "; ".join(COQ_SW[s] for s in on) + "]"
        m_out = fcorr.run_model(ctx, "t1_" + tag, ["C10.CxDefs", "C10.CxFloat"],
                                ['run %s "%s"%%string %s' % (cfgl, c[1], fcorr.coq_list(c[2])) for c in cases])
        bad = [(i, cases[i], c_out[i], m_out[i]) for i in range(len(cases)) if c_out[i] != m_out[i]]
        return tag, on, cases, bad

    ok, outs, failed = ctx.coq_build(["C10/CxFloat.v"])
    if not ok:
        raise vlib.CheckError("model does not compile: %s %s" % (failed, "\n".join(outs.values())[-800:]))
    suspects = []
    with ThreadPoolExecutor(max_workers=4) as ex:
        for tag, on, cases, bad in ex.map(run_cfg, configs):
            total += len(cases)
            for c in cases:
                if any(v != 0 for v in c[2]):
                    nontrivial.add((tag, c[0]) + tuple(hx(v) for v in c[2]))
            mism += len(bad)
            for i, c, co, mo in bad:
                if len(first) < 4:
                    first.append("config %s: a_complex_%s(%s): C %s, model %s" % (tag, c[0], ", ".join(repr(v) for v in c[2]), co, mo))
                suspects.append((tag, on, c[0], c[2]))
    for f in first:
        ctx.tie_broken("correspondence C10 tie 1 (bit-exact binary64, libm substituted): " + f)
    if mism:
        fns = sorted(set(s[2] for s in suspects))
        ctx.log("tie 1: %d mismatching cases in functions %s" % (mism, fns))
    ctx.count(evaluations=total, nontrivial=len(nontrivial))
    ctx.cov["tie1"] = {"cases": total, "configurations": [c[0] for c in configs], "mismatches": mism,
                       "functions": len(names), "points_per_function_and_main_configuration": per}
    return suspects


# ------------------------------------------------------------------------------------------------ tie 2
MAGS = {"tiny": (-9, -5), "small": (-3, -1), "unit": None, "mod": None, "large": (3, 8)}


def mag(r, cls):
    if cls == "unit":
        return r.uniform(0.4, 2.2)
    if cls == "mod":
        return r.uniform(2.0, 30.0)
    if cls == "extreme":
        return r.uniform(1, 9.9) * 10.0 ** r.choice([-160, -120, 120, 150])
    lo, hi = MAGS[cls]
    return r.uniform(1, 9.99) * 10.0 ** r.randint(lo, hi)


def cpoint(r, cls, where):
    """where: 1..4 quadrant, 'x+','x-','y+','y-' half axes"""
    m = mag(r, cls)
    if where in (1, 2, 3, 4):
        t = r.uniform(0.08, 1.49)            # keep both components within a factor ~12 of the modulus
        x, y = m * math.cos(t), m * math.sin(t)
        if where in (2, 3):
            x = -x
        if where in (3, 4):
            y = -y
        return x, y
    return {"x+": (m, 0.0), "x-": (-m, 0.0), "y+": (0.0, m), "y-": (0.0, -m)}[where]


EXPLIKE_RE = {"exp", "sinh", "cosh", "tanh", "sech", "csch", "coth", "log_exp"}      # overflow governed by Re z
EXPLIKE_IM = {"sin", "cos", "tan", "sec", "csc", "cot"}                            # overflow governed by Im z


def clamp_for(fn, x, y, real):
    lim = 80.0 if real == 4 else 600.0
    if fn in EXPLIKE_RE and abs(x) > lim:
        x = math.copysign(lim * 0.97, x)
    if fn in EXPLIKE_IM and abs(y) > lim:
        y = math.copysign(lim * 0.97, y)
    if fn == "log_exp":
        # principal strip -pi < Im z <= pi
        y = math.remainder(y, 2 * math.pi) * 0.98
    if fn in EXPLIKE_RE and abs(y) > 1e5:
        y = math.copysign(1e5, y) * 0.77
    if fn in EXPLIKE_IM and abs(x) > 1e5:
        x = math.copysign(1e5, x) * 0.77
    return x, y


def special_points(fn):
    """points aimed at the case splits of the fallback bodies and of the proofs"""
    P = []
    if fn in ("asin", "acos", "asinh", "acosh", "acsc", "asec", "acsch", "asech"):
        # x = 1, x just below/above 1, b around 0.6417 (x/a), a around 1.5
        for x in (1.0, 0.9999999, 1.0000001, 0.5, 0.9, 1.2, 1.45, 2.0, 0.6417):
            for y in (1e-9, 1e-3, 0.3, 1.0, 1.1, 2.5, -1e-9, -0.3, -2.5):
                P.append((x, y))
                P.append((-x, y))
    if fn in ("atan", "atanh", "acot", "acoth"):
        for x in (0.0, 1e-12, 1e-3, 0.05, 0.3, 1.0, 3.0, -1e-3, -0.3, -3.0):
            for y in (0.02, 0.049, 0.051, 0.5, 0.999, 1.001, 2.0, 20.0, -0.05, -0.5, -0.999, -1.001, -2.0, -20.0):
                P.append((x, y))
    if fn in ("tan", "cot"):
        for x in (0.3, 1.5, -2.0, 3.0):
            for y in (0.999999, 1.0, 1.000001, -0.999999, -1.0, -1.000001, 5.0, 20.0, -40.0):
                P.append((x, y))
    if fn in ("tanh", "coth"):
        for y in (0.3, 1.5, -2.0, 3.0):
            for x in (0.999999, 1.0, 1.000001, -0.999999, -1.0, -1.000001, 5.0, 20.0, -40.0):
                P.append((x, y))
    if fn in ("sqrt", "sqrt_sqr", "logabs", "log", "log2", "log10", "exp_log"):
        for x, y in ((1.0, 1.0), (-1.0, 1.0), (-1.0, -1.0), (1.0, -1.0), (3.0, 4.0), (-3.0, 4.0), (-3.0, -4.0), (3.0, -4.0),
                     (1e-3, 1.0), (-1e-3, 1.0), (-1e-3, -1.0), (1.0, 1e-3), (-1.0, 1e-3), (-1.0, -1e-3), (8.0, 0.0), (0.0, 8.0),
                     (0.0, -8.0), (-4.0, 0.0), (0.999, 0.01), (1.001, -0.01), (0.6, 0.8)):
            P.append((x, y))
    if fn in ("sin", "cos", "sinh", "cosh", "sec", "csc", "sech", "csch"):
        P += [(0.0, 0.0), (1.0, 0.0), (0.0, 1.0), (-2.0, 0.0), (0.0, -2.0)]
    if fn in ("arg", "log", "log2", "log10", "logabs", "sqrt", "sqrt_sqr", "exp_log", "pow", "pow_real", "logb", "inv", "div", "abs",
              "asin", "acos", "atan", "asinh", "acosh", "atanh"):
        # both signed zeros as real part on the imaginary axis and as imaginary part on the positive real axis: neither is a
        # branch cut, so the sign of the zero must not show in the value (the library itself produces -0.0, e.g. z * i)
        P += [(-0.0, 2.0), (-0.0, -2.0), (0.0, 2.0), (0.0, -2.0), (-0.0, 0.5), (2.0, -0.0), (2.0, 0.0), (0.5, -0.0)]
    return P


def t2_cases(ctx, real, per, tagseed, only=None, extreme=False):
    r = random.Random(ctx.subseed("tie2/%s/%d" % (tagseed, real)))
    rnd = f32 if real == 4 else (lambda v: v)
    cases = []
    classes = ["tiny", "small", "unit", "unit", "mod", "large"] + (["extreme"] if extreme else [])
    wheres = [1, 2, 3, 4, 1, 2, 3, 4, "x+", "x-", "y+", "y-"]
    allf = dict(KIND)
    allf.update(PAIRS)
    for fn, kind in allf.items():
        if only is not None and fn not in only:
            continue
        pts = []
        if kind in ("c1", "r1", "c2", "cr"):
            sp = special_points(fn)
            r.shuffle(sp)
            pts += sp if per >= 100 else sp[: max(4, per // 2)]
            for k in range(per):
                w = wheres[k % len(wheres)]
                cls = classes[(k // len(wheres) + k) % len(classes)]
                if cls == "extreme" and fn not in ("mul", "div", "add", "sub", "inv", "inv_inv", "abs", "logabs", "arg", "sqrt",
                                                   "sqrt_sqr", "log", "log2", "log10", "mul_real", "div_real", "mul_imag", "div_imag"):
                    cls = "mod"
                x, y = cpoint(r, cls, w)
                pts.append(clamp_for(fn, x, y, real))
        for p in pts if kind in ("c1", "r1") else []:
            cases.append((fn, [rnd(p[0]), rnd(p[1])]))
            if fn in KIND and kind == "c1" and r.random() < 0.25:
                cases.append((fn + "_", [rnd(p[0]), rnd(p[1])]))
        if kind == "cr":
            for p in pts:
                if fn == "pow_real":
                    m = math.hypot(*p)
                    p = p if 1e-3 < m < 1e3 else cpoint(r, "unit", r.choice(wheres))
                    y = r.choice([0.5, -0.5, 2.0, 3.0, -1.0, 0.0, 1.0, r.uniform(-4, 4), r.uniform(-4, 4)])
                else:
                    y = r.choice([1, -1]) * mag(r, r.choice(["tiny", "small", "unit", "mod", "large"]))
                cases.append((fn, [rnd(p[0]), rnd(p[1]), rnd(y)]))
                if fn in KIND and r.random() < 0.5:
                    cases.append((fn + "_", [rnd(p[0]), rnd(p[1]), rnd(y)]))
        if fn in ("div_real", "mul_real", "div_imag", "mul_imag") and real != 4:
            # directed: a scalar so small (a subnormal number) that its reciprocal overflows, with operands scaled so that the exact
            # quotient / product is an ordinary number - "real- and imaginary-scalar field arithmetic for all finite arguments"
            for sc, zs in ((2.0 ** -1060, 2.0 ** -1044), (-(2.0 ** -1070), 2.0 ** -1050), (2.0 ** -1030, 2.0 ** -1020)):
                for bx, by in ((3.0, -4.0), (1.0, 0.0), (0.0, -2.0), (-5.0, 12.0)):
                    if fn.startswith("div"):
                        cases.append((fn, [rnd(bx * zs), rnd(by * zs), rnd(sc)]))
                    else:
                        cases.append((fn, [rnd(bx / zs * 2.0 ** -1074), rnd(by / zs * 2.0 ** -1074), rnd(sc * 2.0 ** 1000)]))
        if fn in ("div", "inv"):
            # directed (seeded change C10-20): divisors whose squared modulus underflows / overflows in THIS configuration's format
            # while the divisor, the dividend and the quotient are ordinary numbers of the format - in every width
            for e in ((-64, -66, -68, -70, -73, -75, 62, 66) if real == 4 else (-512, -520, -530, -537, -540, 511, 520)):
                for bx, by in ((3.0, 4.0), (1.0, 0.0), (0.0, -2.0), (-5.0, 12.0), (1.0, 1.0)):
                    z0, z1 = rnd(bx * 2.0 ** e), rnd(by * 2.0 ** e)
                    if fn == "inv":
                        cases.append((fn, [z0, z1]))
                    else:
                        cases.append((fn, [1.0, 2.0, z0, z1]))
                        cases.append((fn, [-3.0, 0.5, z0, z1]))
        if fn in ("pow_real", "pow") and real != 4:
            # directed: bases of very small and very large modulus (|z|^2 under- or overflows, z itself is an ordinary finite
            # non-zero number) with exponents that keep the result in range - "all finite arguments away from poles"
            for sc in (1e-170, 1e-200, 1e-300, 1e170, 1e250):
                for bx, by in ((3.0, 4.0), (0.0, 1.0), (-5.0, 12.0), (1.0, 0.0), (-1.0, -1.0)):
                    for ex in (0.5, -0.5, 1.0, -1.0, 0.25):
                        if fn == "pow_real":
                            cases.append((fn, [rnd(bx * sc), rnd(by * sc), rnd(ex)]))
                        else:
                            cases.append((fn, [rnd(bx * sc), rnd(by * sc), rnd(ex), 0.0]))
        if kind == "c2":
            for p in pts:
                if fn == "pow":
                    m = math.hypot(*p)
                    p = p if 1e-3 < m < 1e3 else cpoint(r, "unit", r.choice(wheres))
                    q = r.choice([(2.0, 0.0), (0.5, 0.0), (0.0, 1.0), (-1.0, 0.0), (0.0, 0.0)] +
                                 [cpoint(r, r.choice(["small", "unit"]), r.choice(wheres)) for _ in range(6)])
                elif fn == "logb":
                    q = cpoint(r, r.choice(["small", "unit", "mod", "large"]), r.choice(wheres))
                else:
                    q = cpoint(r, r.choice(["tiny", "small", "unit", "mod", "large"]), r.choice(wheres))
                cases.append((fn, [rnd(p[0]), rnd(p[1]), rnd(q[0]), rnd(q[1])]))
                if r.random() < 0.25:
                    cases.append((fn + "_", [rnd(p[0]), rnd(p[1]), rnd(q[0]), rnd(q[1])]))
        if kind == "rc":
            xs = [0.0, 0.5, -0.5, 1.0, -1.0, 0.999999, -0.999999, 1.000001, -1.000001, 2.0, -2.0, 1e-7, -1e-7, 1e5, -1e5, 0.25, 30.0, -30.0]
            while len(xs) < per:
                xs.append(r.choice([1, -1]) * mag(r, r.choice(["tiny", "small", "unit", "unit", "mod", "large"])))
            for x in xs[: max(per, 18)]:
                cases.append((fn, [rnd(x)]))
        if kind == "rr":
            for _ in range(per):
                rho = mag(r, r.choice(["tiny", "small", "unit", "mod", "large"])) * r.choice([1, 1, 1, -1])
                th = r.choice([0.0, math.pi / 2, -math.pi / 2, math.pi, r.uniform(-math.pi, math.pi), r.uniform(-math.pi, math.pi),
                               r.uniform(-50, 50)])
                cases.append((fn, [rnd(rho), rnd(th)]))
    return cases


def oracle(lines, shard=1500):
    """run harness/C10/oracle.py (mpmath, tooling interpreter) over the lines; returns one verdict per line"""
    chunks = [lines[i:i + shard] for i in range(0, len(lines), shard)]

    def one(ch):
        rc, out, err = vlib.sh2(["python3-vt", str(H / "oracle.py")], stdin="\n".join(ch) + "\n", timeout=1500)
        res = out.splitlines()
        if rc != 0 or len(res) != len(ch):
            raise vlib.CheckError("accuracy oracle failed rc=%d (%d/%d lines): %s" % (rc, len(res), len(ch), err[-600:]))
        return res
    res = []
    with ThreadPoolExecutor(max_workers=vlib.NPROC) as ex:
        for r_ in ex.map(one, chunks):
            res.extend(r_)
    return res


def evaluate(cbin, real, cases):
    """run the C on (fn, args) cases and judge every output; returns list of (verdict, c_output)"""
    c_out = fcorr.run_c(cbin, ["%s %s" % (fn, " ".join(hx(v) for v in a)) for fn, a in cases])
    lines = ["%d %d %s %s : %s" % (real, K_TOL, fn, " ".join(hx(v) for v in a), " ".join(o))
             for (fn, a), o in zip(cases, c_out)]
    return list(zip(oracle(lines), c_out))


def simpler(v):
    """candidate simplifications of one argument, simplest first"""
    c = [0.0, 1.0, -1.0, 2.0, -2.0, 0.5, -0.5]
    if v != 0 and math.isfinite(v):
        e = math.floor(math.log10(abs(v)))
        for d in (0, 1, 2, 4):
            c.append(round(v, d - e))
        c.append(float(round(v)))
    out = []
    for x in c:
        if x != v and x not in out:
            out.append(x)
    return out


def shrink(cbin, real, fn, args):
    cur = list(args)
    for _ in range(3):
        cands = []
        for i in range(len(cur)):
            for s in simpler(cur[i]):
                t = list(cur)
                t[i] = f32(s) if real == 4 else s
                if t != cur:
                    cands.append(t)
        if not cands:
            break
        res = evaluate(cbin, real, [(fn, t) for t in cands])
        better = [t for t, (v, o) in zip(cands, res) if v.startswith("FAIL")]
        if not better:
            break
        cur = min(better, key=lambda t: sum(len(repr(x)) for x in t))
    return cur


def tie2(ctx, suspects):
    """accuracy of the real builds.  suspects: (config, on, fn, args) from tie 1 mismatches, replayed first."""
    plan = []      # (tag, on, ron, real, per, only, extreme)
    per = 12 if ctx.quick else 200
    for real in (8, 4):
        plan.append(("libm", list(CSW), RSW, real, per, None, False))
        plan.append(("fallback", [], [], real, per, None, False))
    plan.append(("cfallback", [], RSW, 8, per, None, False))          # complex fallbacks over libm real helpers
    # long double build (A_SIZE_REAL = 16): the a_real-typed constants and literals must carry 64 mantissa bits
    plan.append(("libm", list(CSW), RSW, 16, max(4, per // 2), None, False))
    plan.append(("cfallback", [], RSW, 16, max(4, per // 2), None, False))
    if not ctx.quick:
        plan.append(("cfallback", [], RSW, 4, per // 4, None, False))
        for s in CSW:
            only = set(f for f, u in USES.items() if s in u)
            plan.append(("only_" + s, [s], [], 8, 24, only, False))
            plan.append(("no_" + s, [t for t in CSW if t != s], RSW, 8, 24, only, False))
        for s in RSW_USED:
            only = set(f for f, u in USES.items() if s in u)
            plan.append(("ronly_" + s, [], [s], 8, 24, only, False))
            plan.append(("rno_" + s, list(CSW), [t for t in RSW if t != s], 8, 24, only, False))
    corpus = load_corpus()
    stats = {"evaluations": 0, "ok": 0, "skipped": 0, "failures": 0}
    per_cfg = {}
    worst = {}
    fails = []

    def run_plan(p):
        tag, on, ron, real, n, only, extreme = p
        cbin = build(ctx, "t2_%s_r%d" % (tag, real), on, real=real, ron=ron)
        cases = [(fn, [f32(v) if real == 4 else v for v in a]) for fn, a in corpus if only is None or fn in only]
        cases += [(fn, a) for (t, o, fn, a) in suspects if t == tag and real == 8]
        cases += t2_cases(ctx, real, n, tag, only=only, extreme=extreme)
        return p, cbin, cases, evaluate(cbin, real, cases)

    with ThreadPoolExecutor(max_workers=3) as ex:
        results = list(ex.map(run_plan, plan))
    seen_keys = set()
    for (tag, on, ron, real, n, only, extreme), cbin, cases, res in results:
        cfgname = "%s/%s" % (tag, {8: "double", 4: "float", 16: "long double"}[real])
        st = per_cfg.setdefault(cfgname, {"evaluations": 0, "ok": 0, "skipped": 0, "failures": 0})
        for (fn, a), (v, o) in zip(cases, res):
            st["evaluations"] += 1
            if v.startswith("ok"):
                st["ok"] += 1
                q = float(v.split()[1])
                base = fn[:-1] if fn.endswith("_") else fn
                if q > worst.get(base, (0,))[0]:
                    worst[base] = (q, cfgname, [repr(x) for x in a])
            elif v.startswith("skip"):
                st["skipped"] += 1
            else:
                st["failures"] += 1
                fails.append((tag, real, fn, a, v, o, cbin))
    for k in stats:
        stats[k] = sum(s[k] for s in per_cfg.values())
    # report: one replay per (function, configuration class), shrunk
    nrep = 0
    for tag, real, fn, a, v, o, cbin in fails:
        base = fn[:-1] if fn.endswith("_") else fn
        cls = "fallback" if (tag.startswith("fallback") or tag.startswith("cfallback") or tag.startswith("only_") or tag.startswith("ronly_")) else "libm"
        key = "%s/%s" % (base, cls)
        if key in seen_keys or nrep >= 10:
            continue
        seen_keys.add(key)
        nrep += 1
        if v.startswith("error"):
            ctx.tie_broken("accuracy oracle error on a_complex_%s%r: %s" % (fn, tuple(a), v))
            continue
        small = shrink(cbin, real, fn, a)
        (v2, o2), = evaluate(cbin, real, [(fn, small)])
        if not v2.startswith("FAIL"):
            small, v2, o2 = a, v, o
        t = v2.split()
        got = [fcorr.fval(b) for b in o2]
        what = ("a_complex_%s(%s) = (%s) in configuration %s/%s; exact value (%s, %s); error %s eps*|exact| with condition number %s "
                "(tolerance %d eps max(1,cond))" % (fn, ", ".join(repr(x) for x in small), ", ".join(repr(g) for g in got), tag,
                                                     {8: "double", 4: "float", 16: "long double"}[real], t[3], t[4], t[1], t[2], K_TOL))
        ctx.report(key, what, {"function": "a_complex_" + fn, "args": [repr(x) for x in small], "args_hex": [hx(x) for x in small],
                               "configuration": {"A_HAVE_C*": on_of(tag), "tag": tag, "A_SIZE_REAL": real},
                               "observed": [repr(g) for g in got], "expected": [t[3], t[4]],
                               "first_found_at": [repr(x) for x in a],
                               "how": "build harness/C10/drv.c with tools/vlib.py Ctx.cc (see checks/C10.py build()), feed the line "
                                      "'%s %s'" % (fn, " ".join(hx(x) for x in small))})
    ctx.count(evaluations=stats["evaluations"], nontrivial=stats["ok"] + stats["failures"])
    ctx.cov["tie2"] = {"K": K_TOL, "tolerance": "|out-exact| <= K*eps*max(1,cond)*|exact| (normwise), eps = 2^-52 / 2^-23",
                       "totals": stats, "per_configuration": per_cfg,
                       "worst_err_over_tol_per_function": {k: {"ratio": round(v[0], 4), "cfg": v[1], "args": v[2]}
                                                           for k, v in sorted(worst.items(), key=lambda kv: -kv[1][0])[:12]}}
    return fails


def on_of(tag):
    if tag.startswith("only_"):
        return [tag[5:]]
    if tag.startswith("no_"):
        return [s for s in CSW if s != tag[3:]]
    if tag in ("libm",) or tag.startswith("rno_"):
        return list(CSW)
    return []


# ------------------------------------------------------------------------------------------------ constants
CONSTS = {
    "A_E": "e", "A_LOG2E": "1/ln(2)", "A_LOG10E": "1/ln(10)", "A_LN2": "ln(2)", "A_LN1_2": "1/ln(2)", "A_LN10": "ln(10)",
    "A_LN1_10": "1/ln(10)", "A_PI": "pi", "A_TAU": "2*pi", "A_PI_2": "pi/2", "A_PI_4": "pi/4", "A_1_PI": "1/pi", "A_2_PI": "2/pi",
    "A_1_TAU": "1/(2*pi)", "A_2_SQRTPI": "2/sqrt(pi)", "A_SQRT2": "sqrt(2)", "A_SQRT1_2": "1/sqrt(2)", "A_SQRT3": "sqrt(3)",
    "A_SQRT1_3": "1/sqrt(3)", "A_RAD2DEG": "180/pi", "A_DEG2RAD": "pi/180",
}
MODEL_CONSTS = {"A_SQRT1_2": (6369051672525773, -53), "A_PI": (884279719003555, -48), "A_PI_2": (884279719003555, -49),
                "A_LN1_2": (3248660424278399, -51), "A_LN1_10": (3911776933737095, -53)}


def constants(ctx):
    """the literals of a/math.h against their documented meaning (the search oracle for the constant clauses) and against
    the values the model (and its theorems) use"""
    txt = (vlib.REPO / "include" / "a" / "math.h").read_text()
    lits = {}
    for m in re.finditer(r"^#define\s+(A_[A-Z0-9_]+)\s+([0-9.eE+-]+)\s*$", txt, flags=re.M):
        lits[m.group(1)] = m.group(2)
    prog = ["import mpmath as mp", "mp.mp.dps=40", "from mpmath import e,ln,pi,sqrt"]
    names = [n for n in CONSTS if n in lits]
    for n in names:
        prog.append("print(mp.nstr(abs(mp.mpf('%s')/(%s)-1),5))" % (lits[n], CONSTS[n]))
    rc, out, err = vlib.sh2(["python3-vt", "-c", "\n".join(prog)], timeout=120)
    if rc != 0:
        raise vlib.CheckError("constant oracle failed: " + err[-400:])
    n_bad = 0
    for n, v in zip(names, out.split()):
        if float(v) > 1e-19:
            n_bad += 1
            ctx.report("const/" + n, "%s is defined as %s in include/a/math.h but documented/used as %s: relative error %s"
                       % (n, lits[n], CONSTS[n], v), {"constant": n, "literal": lits[n], "meaning": CONSTS[n], "relative_error": v})
    for n, (m, e) in MODEL_CONSTS.items():
        if n not in lits or float(lits[n]) != math.ldexp(m, e):
            ctx.tie_broken("constant %s = %s in a/math.h is not the value %d*2^%d the model and the theorem %s use"
                           % (n, lits.get(n), m, e, "const_" + n[2:].lower()))
    ctx.cov["constants_checked"] = len(names)
    ctx.count(evaluations=len(names), nontrivial=len(names))
    return n_bad


# ------------------------------------------------------------------------------------------------ corpus
def load_corpus():
    """corpus/C10/*.txt: lines '<fn> <decimal or hex-float args>' - the witnesses of the repaired defects, run first forever"""
    cases = []
    d = vlib.VERIF / "corpus" / "C10"
    for f in sorted(d.glob("*.txt")):
        for ln in f.read_text().splitlines():
            ln = ln.split("#")[0].split()
            if len(ln) >= 2:
                cases.append((ln[0], [float.fromhex(t) if "0x" in t else float(t) for t in ln[1:]]))
    return cases


TIE_FILES = sorted(H.glob("TieCx*.v"))


def tie_names():
    """every function of complex.c / complex.h that has a tie theorem in harness/C10/TieCx.v"""
    import re
    return [n for f in TIE_FILES for n in re.findall(r"Theorem tie_(a_complex_\w+)", f.read_text())]


def translator_tie(ctx):
    # third tie: complex.c / complex.h are REGENERATED by the translator (all A_HAVE_C* off: every fallback body is compiled)
    # and re-tied to the proved model, one theorem per function, for every NumOps instance
    ctx.translate_and_tie([("src/complex.c", tie_names())], "GenCx", TIE_FILES, have=1, real=8,
                          overrides={k: 0 for k in CSW}, externs={"acosh": 1, "atanh": 1, "asinh": 1}, timeout=1500)


def run(ctx):
    import threading
    ctx.prove()
    th = threading.Thread(target=translator_tie, args=(ctx,))
    th.start()
    try:
        run_ties(ctx)
    finally:
        th.join()


def run_ties(ctx):
    ctx.assumptions += [
        "floating-point rounding is not part of the theorems: accuracy (K=%d) is sampled against a 45-digit mpmath reference" % K_TOL,
        "C built with gcc -O2 -ffp-contract=off from the current tree; A_HAVE_* configurations generated by tools/vlib.py",
        "tie 1 replaces libm by fixed substitute functions on both sides (harness/common/libm_subst.c, harness/C10/csubst.c)",
        "on a branch cut either one-sided limit is accepted by the accuracy oracle (the property excludes cuts and poles)"]
    constants(ctx)
    suspects = tie1(ctx)
    ctx.log("tie 1 done: %s" % ctx.cov["tie1"])
    tie2(ctx, suspects)
    ctx.log("tie 2 done: %s" % ctx.cov["tie2"]["totals"])
    ctx.cov["rule"] = ("tie 1: every function of a/complex.h (out-of-place and in-place forms) x structured doubles (axes, signed zeros, "
                       "|x|=|y|, unit boundaries, tiny/huge, inf/nan) x configurations, bit-exact; tie 2: every function x quadrants/half-axes x "
                       "magnitude classes tiny(1e-9..1e-5)/small/unit/moderate/large(1e3..1e8) + points at the case splits of the fallback bodies, "
                       "x configurations x double/float, judged by the mpmath oracle; distinct_nontrivial = distinct (configuration, function, "
                       "arguments) with a non-zero argument in tie 1 + judged (not skipped) evaluations in tie 2")
    t1 = ctx.cov["tie1"]
    ctx.sample({"tie1": "a_complex_sqrt(-3,-4) model vs C bit-exact in %d configurations" % len(t1["configurations"])})
    for k, v in list(ctx.cov["tie2"]["worst_err_over_tol_per_function"].items())[:3]:
        ctx.sample({"tie2_worst": k, "err_over_tol": v["ratio"], "cfg": v["cfg"], "args": v["args"]})
