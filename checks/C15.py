"""C15: polynomial trajectories (cubic/quintic/septic) and poly.c.

Proof over R (coq/Properties_C15.v).  Tie: the same Gallina model instantiated with Coq's primitive binary64 floats is
evaluated by vm_compute and compared BIT FOR BIT with the C built from the current tree (-O2 -ffp-contract=off).
Search oracle: the property itself on the C outputs - exact rational arithmetic (fractions) for the boundary conditions,
an independent float evaluation of 'derivative coefficients = k*c_k, Horner' for the derivative outputs."""
from fractions import Fraction

import fcorr
import vlib

META = {
    "text": "Rocq theorems over the reals for ALL durations ts<>0, boundary data, coefficient vectors, degrees and query "
            "times: cubic/quintic/septic generators reproduce every requested boundary value exactly at 0 and ts (field "
            "identities on the transcribed coefficient formulas); vel/acc/jer outputs and the c1/c2/c3 accessors are the "
            "successive derivatives (Coquelicot is_derive) of the position polynomial; a_poly_eval_ = Horner value = explicit "
            "sum for every length, evar = eval on the reversed list, swap = reversal (involution). Tie: bit-exact binary64 "
            "execution of the same Gallina terms vs the C on generated inputs. The floating-point rounding error at the end time of "
            "all three generators (cubic, quintic, septic) is proved in the rounding model (END-TO-END below) and, on the C run, "
            "measured against exact rationals. ROUNDING (C15_horner_rounding_bound*, "
            "C15_evar_/poly_wrappers_rounding_bound): for every coefficient count n+1 and all real c, x, the same Horner term "
            "with each operation followed by a rounding rnd differs from its exact value by at most ((1+eps)^(2n)-1) sum|c_i||x|^i "
            "+ 2 eta (1+eps)^(2n) sum_{j<n}|x|^j (<= gamma_2n form when 2n eps<1), proved in the standard rounding model "
            "|rnd x - x| <= eps|x| + eta with gradual underflow, overflow excluded; IEEE binary64 round-to-nearest-even satisfies "
            "that model with eps=2^-53, eta=2^-1075 by Flocq (C15_binary64_satisfies_model) - the step from the rounded-real "
            "term to the C's binary64 run remains unproved. END-TO-END (C15_traj3_end_rounding_bound[_binary64|_weighted], "
            "C15_traj3_coeff_rounding, C15_traj3_start_exact, C15_traj5_end_rounding_bound[_binary64]; coq/C15/TrajRound.v): in the same "
            "rounding model, for every rnd with eps<=2^-20, eta<=1, every ts<>0 and all real boundary data, the trajectory whose "
            "coefficients are COMPUTED by the trajpoly3_gen term with every operation (and integer constant) rounded and which is then "
            "evaluated at t=ts by the rounded Horner term satisfies |pos(ts)-p1| <= 120 eps S + 48 eta (1+1/|ts|)^3 (1+|ts|)^3 W and "
            "|vel(ts)-v1| <= 240 eps S/|ts| + 192 eta (1+1/|ts|)^3 (1+|ts|)^2 W with S=|p0|+|p1|+|ts|(|v0|+|v1|), W=1+|p1-p0|+|v0|+|v1| "
            "(sharper: 20 eps (|p0|+5|p1-p0|+|ts|(4|v0|+2|v1|)) and 20 eps (8|v0|+5|v1|+12|p1-p0|/|ts|)), pos(0)=rnd p0 and vel(0)=rnd v0 "
            "(exact for format numbers), and for the quintic (extra hypothesis rnd 2 = 2, true for binary64) position/velocity/"
            "acceleration at ts are within 1056 eps S5, 3960 eps S5/|ts|, 11880 eps S5/|ts|^2 (+ explicit eta terms), "
            "S5=S+|ts|^2(|a0|+|a1|); binary64 instances by Flocq; overflow excluded. SEPTIC (C15_traj7_end_rounding_bound[_binary64|"
            "_weighted], C15_traj7_coeff_rounding, C15_traj7_start_exact, C15_traj7_start_rounding_bound; coq/C15/TrajRound7.v): same "
            "model and reading, extra hypotheses rnd 2 = 2 and rnd 6 = 6 (the divisors of the constants (a_real)(1.0/2), (a_real)(1.0/6); "
            "true for binary64; the quotient 1/6 itself is rounded and its error is counted): with the eight coefficients computed by "
            "the trajpoly7_gen term (reciprocal of ts, its powers, all integer constants rounded) and position/velocity/acceleration/"
            "jerk evaluated at ts by the rounded Horner terms (rounded factors k, k(k-1), k(k-1)(k-2)), |pos(ts)-p1| <= 9030 eps S7, "
            "|vel(ts)-v1| <= 48160 eps S7/|ts|, |acc(ts)-a1| <= 216720 eps S7/|ts|^2, |jer(ts)-j1| <= 794640 eps S7/|ts|^3, each "
            "+ C eta (1+1/|ts|)^7 (1+|ts|)^m W7 with (C,m) = (1e6,7), (4e6,6), (3e7,5), (3e8,4), S7=S5+|ts|^3(|j0|+|j1|), "
            "W7=1+|p1-p0|+|v0|+|v1|+|a0|+|a1|+|j0|+|j1| (sharper: 43 eps times the all-signs-positive value of the exact formulas, "
            "e.g. |p0|+209|p1-p0|+|ts|(112|v0|+98|v1|)+|ts|^2(25|a0|+18|a1|)+|ts|^3(8/3|j0|+4/3|j1|) for the position; 43 = 42 roundings "
            "on the longest path + 1); per coefficient c2..c7 against the exact formula (20..29 eps times its magnitude); pos(0)=rnd p0, "
            "vel(0)=rnd v0 (exact for format numbers), |acc(0)-a0| <= 7 eps|a0|, |jer(0)-j0| <= 9 eps|j0| (+ eta terms; exactness of "
            "acc(0) in binary64 is not proved). Non-vacuity examples: identity rounding (end values exact), an inexact model keeping 2 "
            "and 6, binary64 with ts=2 and non-zero v, a, j data (four end values within 2^-30). "
            "Glue around the modelled core (differential tests, not theorems): the 23 C++ member functions of a_trajpoly3/5/7 (list read "
            "from the headers on every run; defaulted arguments omitted and spelled out) against the C functions they forward to, all "
            "state and output arrays compared bit for bit; and one driver generic in a_real built as float, double and long double with "
            "ASan+UBSan: cubic/quintic generators (ts a power of two, dyadic boundary data; expected coefficients from an exact solve of "
            "the boundary conditions), pos/vel/acc, c0/c1/c2 into exactly sized guarded arrays, a_poly_eval/evar/swap and xTx/xTy must "
            "print exactly the expected values in all three builds; the septic (factor 1/6) within 1e-5 of the size of its terms. "
            "LOOP TIE (harness/C15/TieLoop1.v, 9 theorems re-proved on every run): a_poly_eval_/evar_/swap_ and the wrappers of "
            "a/poly.h are regenerated from the current sources with their pointer loops as Fixpoints (tools/c2arr.py: both pointers "
            "offsets into one list, checked loads and stores) and proved equal to the hand model for every NumOps instance, EVERY "
            "coefficient count and every position of the coefficients inside a larger array, without size hypotheses; the empty "
            "range (undefined in C) is an error on both sides.",
    "note": "Trusted: Coq kernel/vm_compute (primitive floats), the standard real-number axioms (sig_forall_dec, sig_not_dec, "
            "functional_extensionality_dep, classic via Coquelicot) as listed by Print Assumptions; the 'same term, different "
            "NumOps instance' argument between R and binary64; the hand transcription coq/C15/PolyDefs.v, validated bit for bit "
            "against the C on the generated cases only; the translators (tools/c2coq.py, tools/c2arr.py) are trusted to read the C "
            "right - their output is proved equal to the model, not to the C; gcc -O2 -ffp-contract=off on x86-64 being IEEE binary64 op by op. The glue runs "
            "(tools/vglue.py, harness/glue/) are differential tests on generated inputs, not theorems; the float and long double builds "
            "are not modelled in Rocq (the septic there is only compared with the exact solution within a float-sized tolerance). "
            "The septic end-to-end bound assumes rnd 2 = 2 and rnd 6 = 6 in the abstract model (discharged for binary64 by Flocq); like "
            "the cubic and quintic ones it speaks about the rounded-real term (overflow excluded), and the C run is connected to that "
            "term only through the bit-exact primitive-float comparison on the generated cases.",
    "technique": "Rocq proof over R (field, auto_derive, list induction) + coefficient formulas regenerated from src/trajpoly*.c by a translator and re-tied by conversion on every run, the Horner evaluators and the coefficient swap regenerated with their loops as Fixpoints and proved equal to the model for every coefficient count, and unrolled for 0..6 coefficients and proved equal to the wrapper model + bit-exact primitive-float model vs C correspondence",
}

H = vlib.VERIF / "harness" / "C15"
NB = {3: 5, 5: 7, 7: 9}      # number of gen arguments


def gen_cases(ctx):
    r = ctx.rng.__class__(ctx.subseed("c15"))
    n = 150 if ctx.quick else 3000
    cases = []   # (c_line, coq_expr, meta)
    for deg in (3, 5, 7):
        for k in range(n):
            mag = r.choice([1e-6, 1e-3, 1.0, 1.0, 1.0, 1e3, 1e6])
            ts = abs(fcorr.rand_double(r, "m")) * mag + mag * 0.01
            if k % 10 == 0:
                ts = float(r.randint(1, 16))
            args = [ts] + [fcorr.rand_double(r, r.choice("mmmi")) * r.choice([1, 1, 1, 100, 0.01]) for _ in range(NB[deg] - 1)]
            if k % 7 == 0:       # zero boundary derivatives (the repo test's situation)
                args = args[:3] + [0.0] * (len(args) - 3)
            if k % 11 == 0:      # exactly representable everything: integer data, power-of-two duration
                args = [float(2 ** r.randint(-3, 4))] + [float(r.randint(-9, 9)) for _ in range(NB[deg] - 1)]
            cases.append(("gen%d " % deg + " ".join(fcorr.argbits(x) for x in args),
                          "trajpoly%d_gen F64_ops %s" % (deg, " ".join(fcorr.coqf(x) for x in args)),
                          ("gen", deg, args)))
    # directed: every pattern of zero / non-zero boundary values (a shortcut taken for "rest to rest" style requests must test all
    # the values it relies on): cubic 2^4, quintic 2^6, septic 2^8 patterns in thorough, a seeded third of them in quick
    import itertools
    for deg in (3, 5, 7):
        pats = list(itertools.product((0, 1), repeat=NB[deg] - 1))
        if ctx.quick and len(pats) > 64:
            pats = [q for q in pats if r.random() < 0.34 or sum(q) in (0, len(q))]     # all-zero and all-non-zero always
        for pat in pats:
            args = [float(r.choice([1, 2, 4]))] + [float(r.choice([-3, -2, -1, 1, 2, 3, 5])) if b else 0.0 for b in pat]
            cases.append(("gen%d " % deg + " ".join(fcorr.argbits(x) for x in args),
                          "trajpoly%d_gen F64_ops %s" % (deg, " ".join(fcorr.coqf(x) for x in args)),
                          ("gen", deg, args)))
    for deg in (3, 5, 7):
        for k in range(n):
            c = [fcorr.rand_double(r) for _ in range(deg + 1)]
            x = r.choice([0.0, 1.0, -1.0, fcorr.rand_double(r), fcorr.rand_double(r, "m")])
            cl = fcorr.coq_list(c)
            parts = ["[optf (traj_pos F64_ops %s %s); optf (traj_vel F64_ops %s %s); optf (traj_acc F64_ops %s %s)%s]"
                     % (cl, fcorr.coqf(x), cl, fcorr.coqf(x), cl, fcorr.coqf(x),
                        ("; optf (traj_jer F64_ops %s %s)" % (cl, fcorr.coqf(x))) if deg == 7 else ""),
                     "c1_of F64_ops %s" % cl, "c2_of F64_ops %s" % cl]
            if deg == 7:
                parts.append("c3_of F64_ops %s" % cl)
            parts.append(cl)
            cases.append(("ev%d " % deg + " ".join(fcorr.argbits(v) for v in c + [x]), " ++ ".join(parts), ("ev", deg, c, x)))
    for k in range(n + 12):
        ln = r.choice([1, 1, 2, 3, 4, 5, 8, 9, 16, 17])
        c = [fcorr.rand_double(r) for _ in range(ln)]
        x = fcorr.rand_double(r)
        if k >= n:           # directed: the zero polynomial and polynomials with zero leading / trailing coefficients
            ln = [1, 2, 4, 9][(k - n) % 4]
            c = [0.0] * ln
            if (k - n) // 4 == 1 and ln > 1:
                c[0] = 3.0
            if (k - n) // 4 == 2 and ln > 1:
                c[-1] = -2.0
            x = 2.0
        cases.append(("peval " + " ".join(fcorr.argbits(v) for v in c + [x]),
                      "[optf (poly_eval F64_ops %s %s)]" % (fcorr.coq_list(c), fcorr.coqf(x)), ("peval", c, x)))
        cases.append(("pevar " + " ".join(fcorr.argbits(v) for v in c + [x]),
                      "[optf (poly_evar F64_ops %s %s)]" % (fcorr.coq_list(c), fcorr.coqf(x)), ("pevar", c, x)))
        cases.append(("pswap " + " ".join(fcorr.argbits(v) for v in c),
                      "poly_swap %s" % fcorr.coq_list(c), ("pswap", c)))
        # the public wrappers, lengths 0, 1, 2 over-represented
        cw = c[:r.choice([0, 1, 1, 2, ln])]
        cases.append(("pevalw " + " ".join(fcorr.argbits(v) for v in cw + [x]),
                      "[poly_eval_w F64_ops %s %s]" % (fcorr.coq_list(cw), fcorr.coqf(x)), ("pevalw", cw, x)))
        cases.append(("pevarw " + " ".join(fcorr.argbits(v) for v in cw + [x]),
                      "[poly_evar_w F64_ops %s %s]" % (fcorr.coq_list(cw), fcorr.coqf(x)), ("pevarw", cw, x)))
        cases.append(("pswapw" + "".join(" " + fcorr.argbits(v) for v in cw),
                      "poly_swap_w %s" % fcorr.coq_list(cw), ("pswapw", cw)))
    return cases


def horner(c, x):
    y = c[-1]
    for ci in reversed(c[:-1]):
        y = y * x + ci
    return y


def deriv_coeffs(c, order):
    out = list(c)
    for _ in range(order):
        out = [out[i] * i for i in range(1, len(out))]
    return out


def oracle(meta, out):
    """The property on the C output; returns None or a description.  out: list of floats."""
    kind = meta[0]
    if kind == "gen":
        deg, args = meta[1], meta[2]
        if any(v != v or abs(v) == float("inf") for v in out):
            return None  # overflow for extreme data is outside "finite boundary values ... rounding error"
        ts = Fraction(args[0])
        want0 = [args[1], args[3]] + ([args[5]] if deg >= 5 else []) + ([args[7]] if deg >= 7 else [])
        want1 = [args[2], args[4]] + ([args[6]] if deg >= 5 else []) + ([args[8]] if deg >= 7 else [])
        c = [Fraction(v) for v in out]
        scale = max([abs(Fraction(a)) * ts ** (i // 2) for i, a in enumerate(args[1:])] + [Fraction(1, 10 ** 300)])
        for order in range(len(want0)):
            d = c
            for _ in range(order):
                d = [d[i] * i for i in range(1, len(d))]
            v0 = d[0]
            v1 = sum(ci * ts ** i for i, ci in enumerate(d))
            tol = Fraction(1, 10 ** 9) * scale / ts ** order
            if abs(v0 - Fraction(want0[order])) > tol:
                return "trajpoly%d: derivative %d at 0 is %s, requested %s" % (deg, order, float(v0), want0[order])
            if abs(v1 - Fraction(want1[order])) > tol:
                return "trajpoly%d: derivative %d at ts=%s is %s, requested %s (tol %.3g)" % (deg, order, args[0], float(v1), want1[order], float(tol))
        return None
    if kind == "ev":
        deg, c, x = meta[1], meta[2], meta[3]
        nout = 3 + (1 if deg == 7 else 0)
        exp = [horner(deriv_coeffs(c, k), x) for k in range(nout)]
        c1 = [c[1]] + [c[k] * k for k in range(2, deg + 1)]
        c2 = [c[2] * 2] + [c[k] * k * (k - 1) for k in range(3, deg + 1)]
        exp += c1 + c2
        if deg == 7:
            exp += [c[3] * 3 * 2] + [c[k] * k * (k - 1) * (k - 2) for k in range(4, deg + 1)]
        exp += c
        for i, (e, o) in enumerate(zip(exp, out)):
            if not (e == o or (e != e and o != o) or abs(e - o) <= 1e-9 * max(abs(e), abs(o), 1e-300)):
                return "trajpoly%d evaluation output %d is %r, derivative/Horner definition gives %r" % (deg, i, o, e)
        return None
    if kind in ("peval", "pevar", "pevalw", "pevarw"):
        c, x = meta[1], meta[2]
        e = horner(c if kind.startswith("peval") else c[::-1], x) if c else 0.0
        o = out[0]
        ok = e == o or (e != e and o != o) or abs(e - o) <= 1e-9 * max(abs(e), abs(o), 1e-300)
        return None if ok else "a_poly_%s gives %r for %d coefficients, Horner value %r" % (kind[1:].replace("w", "") + ("" if kind.endswith("w") else "_"), o, len(c), e)
    if kind in ("pswap", "pswapw"):
        return None if [fcorr.bits(v) for v in out] == [fcorr.bits(v) for v in meta[1][::-1]] else "a_poly_swap_ is not the reversal"
    return None


def run(ctx):
    ctx.prove()
    # second tie: generators and derivative builders are REGENERATED from the current sources and re-tied to the proved model
    ctx.translate_and_tie([("src/trajpoly%d.c" % d, ["a_trajpoly%d_gen" % d, "a_trajpoly%d_c1" % d, "a_trajpoly%d_c2" % d]
                            + (["a_trajpoly7_c3"] if d == 7 else [])) for d in (3, 5, 7)], "GenPoly", H / "TiePoly.v")
    # third tie: the Horner evaluators and the coefficient swap, UNROLLED for 0..6 coefficients (cores of poly.c inlined into the
    # wrappers of poly.h), proved equal to the wrapper model for all coefficients and arguments
    ctx.translate_and_tie([("src/poly.c", (H / "tie_names.txt").read_text().split())], "GenPolyN", H / "TiePolyN.v")
    # fourth tie: the same functions with their pointer loops as Fixpoints (tools/c2arr.py), proved equal to the model for EVERY
    # coefficient count and every position inside a larger array (harness/C15/TieLoop1.v)
    import varr
    varr.arr_translate_and_tie(ctx, "C15")
    ctx.assumptions += ["floating-point rounding at the end time is measured (tolerance 1e-9 * data scale), not proved",
                        "C built with gcc -O2 -ffp-contract=off: binary64 operation by operation"]
    cbin = ctx.cc("drv", [H / "drv.c"], repo_srcs=["trajpoly3.c", "trajpoly5.c", "trajpoly7.c", "poly.c", "a.c"], mode="num")
    cases = gen_cases(ctx)
    ok, outs, failed = ctx.coq_build(["C15/PolyDefs.v", "Common/FloatOps.v"])
    if not ok:
        raise vlib.CheckError("model does not compile: %s" % failed)
    crashes = []
    c_out = fcorr.run_c(cbin, [c[0] for c in cases], crashes=crashes)
    for idx, msg in crashes:
        if msg.startswith("skipped"):
            continue
        ctx.report("%s/sanitizer" % cases[idx][2][0], "the C aborted on this case: " + msg,
                   {"case": cases[idx][0], "inputs": [repr(x) for x in cases[idx][2][1:]], "stderr": msg})
    crashed = set(i for i, _ in crashes)
    m_out = fcorr.run_model(ctx, "c15cases", ["C15.PolyDefs"], [c[1] for c in cases])
    nd = 0
    for i, (cl, ce, meta) in enumerate(cases):
        if i not in crashed and c_out[i] != m_out[i]:
            nd += 1
            if nd <= 3:
                ctx.tie_broken("correspondence C15 (bit-exact binary64): case %r: C %s, model %s" % (cl.split()[0] + " #%d" % i, c_out[i], m_out[i]))
    nrep = 0
    kinds = {}
    for i, (cl, ce, meta) in enumerate(cases):
        kinds[meta[0]] = kinds.get(meta[0], 0) + 1
        if i in crashed:
            continue
        why = oracle(meta, [fcorr.fval(b) for b in c_out[i]])
        if why and nrep < 4:
            nrep += 1
            ctx.report("%s/%s" % (meta[0], cl.split()[0]), why, {"case": cl, "inputs": [repr(x) for x in meta[1:]], "c_output": c_out[i],
                                                                   "how": "echo '<case>' | build/C15/drv"})
    ctx.count(evaluations=len(cases), nontrivial=len(set(c[0] for c in cases)))
    ctx.cov["rule"] = ("generated from VERIF_SEED: durations over 1e-6..1e6, boundary data moderate/integer/zero-derivative, "
                       "coefficient vectors and query times incl. 0 and +-1, poly lengths 1..17; distinct = distinct case lines "
                       "(all are non-trivial: random non-zero data)")
    ctx.cov["case_kinds"] = kinds
    ctx.cov["correspondence_mismatches"] = nd
    for c in cases[:: max(1, len(cases) // 4)][:4]:
        ctx.sample({"case": c[0][:200], "model_expr": c[1][:200]})
    __import__("vglue").glue(ctx, "C15")   # glue around the modelled core: C++ member wrappers + float / long double builds (differential tests, tools/vglue.py)
