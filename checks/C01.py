"""C01 -- AVL tree (src/avl.c): proofs + correspondence of the extracted Gallina model with the C.

  prove      : coq/Properties_C01.v (theorems for all histories) and everything it requires
  tie        : harness/C01/avl_drv.c (real a_avl_* from $VERIF_REPO/src/avl.c, ASan+UBSan) versus
               harness/C01/avl_mdrv.ml (extracted C01/AvlDefs.v: step, heap_of) on the same histories;
               after EVERY op both print return value, root, node count and the left/right/parent/factor
               record of every node whose record changed (delta of the full heap; equivalent to comparing
               the full heap after every op since both start from the empty tree)
  tie 2      : translator tools/c2avl.py (wired by tools/vavl.py): the rebalancing primitives of avl.c (a_avl_new_child, a_avl_child,
               a_avl_set_child, a_avl_set_parent_factor, a_avl_set_parent, a_avl_factor, a_avl_set_factor, a_avl_rotate,
               a_avl_rotate2, a_avl_handle_growth, a_avl_insert_adjust with its loop, a_avl_handle_shrink, a_avl_handle_remove,
               a_avl_remove with its loops, a_avl_insert with its descent, a_avl_search) and a_avl_parent / a_avl_init of avl.h
               regenerated as checked heap programs from the current sources in both node layouts and proved
               (harness/C01/TieAvl.v, TieAvlRemove.v, TieAvlInsert.v + coq/C01/AvlTieLemmas*.v) to implement AvlDefs.child /
               set_child / add_factor / rotate / rotate2 / handle_growth / ins / handle_shrink / the successor splice / rem /
               search on every heap that lays the tree out
  oracle     : the property itself evaluated on the C output (BST by in-order walk, recomputed heights vs
               stored factors, |factor|<=1, parent back-links, reachability, element map vs a Python dict,
               return values, "duplicate insert / search / absent remove change nothing"); a sanitizer
               abort counts as a failure.  Used to turn a broken tie into a concrete, shrunk failing
               history, and run on a sample of every run as a self-test of the oracle.
"""
import itertools
import json
import os
import random
import time
from concurrent.futures import ThreadPoolExecutor
from pathlib import Path

try:
    from tools import vlib, vavl
except ImportError:                      # pragma: no cover
    import vlib
    import vavl

HARN = vlib.VERIF / "harness" / "C01"
CORPUS = vlib.VERIF / "corpus" / "C01"

ALL_TAGS = (["LinkRoot", "Dup", "Absent", "SpliceChild", "SpliceDeep", "Unlink(-1)", "Unlink(0)", "Unlink(1)"] +
            ["%s(%d)" % (n, s) for n in ("LinkStop", "LinkGrow", "G0", "Gstop", "Grot1", "S0", "Sdec", "Srot1bal", "Srot1")
             for s in (-1, 1)] +
            ["%s(%d,%d)" % (n, s, e) for n in ("Grot2", "Srot2") for s in (-1, 1) for e in (-1, 0, 1)])


# ----------------------------------------------------------------------------- generators
class Hist:
    """Builder for one history; ids are fresh per insert (1,2,3,...)."""

    def __init__(self, name):
        self.name = name
        self.ops = []
        self.nid = 0
        self.res = {}            # resident key -> id (the abstract map; used only to aim the generator)

    def ins(self, k):
        self.nid += 1
        self.ops.append("I %d %d" % (self.nid, k))
        if k not in self.res:
            self.res[k] = self.nid

    def reins(self, k):
        """offer the resident node object itself a second time"""
        if k in self.res:
            self.ops.append("J %d %d" % (self.res[k], k))

    def rem(self, k):
        self.ops.append("R %d" % k)
        self.res.pop(k, None)

    def find(self, k):
        self.ops.append("S %d" % k)


def gen_perms(n, rem_orders, rng, out):
    keys = list(range(1, n + 1))
    allp = list(itertools.permutations(keys))
    for a, p in enumerate(allp):
        qs = allp if rem_orders is None else [allp[rng.randrange(len(allp))] for _ in range(rem_orders)]
        for b, q in enumerate(qs):
            h = Hist("perm%d/%d/%d" % (n, a, b))
            for k in p:
                h.ins(k)
            if b == 0:
                for k in q:
                    h.reins(k)           # every resident object of this shape offered again, in the removal order
            for k in q:
                h.rem(k)
            out.append(h)


def gen_allseq(K, L, out):
    syms = [("I", k) for k in range(1, K + 1)] + [("R", k) for k in range(1, K + 1)]
    for n, seq in enumerate(itertools.product(syms, repeat=L)):
        h = Hist("seq%d_%d/%d" % (K, L, n))
        for c, k in seq:
            if c == "I":
                h.ins(k)
            else:
                h.rem(k)
        out.append(h)


def gen_random(rng, name, length, krange, style):
    h = Hist(name)

    def some_resident():
        # O(1) amortised random resident key
        if not h.res:
            return rng.randrange(krange)
        if len(h.res) < 64 or rng.random() < 0.05:
            return rng.choice(list(h.res))
        for _ in range(20):
            k = rng.randrange(krange)
            if k in h.res:
                return k
        return next(iter(h.res))

    for i in range(length):
        if style == "mix":
            pi, pr = 0.45, 0.40
        elif style == "growdrain":
            pi, pr = (0.80, 0.12) if i < length * 0.55 else (0.12, 0.80)
        elif style == "saw":
            ph = (i // max(1, length // 8)) % 2
            pi, pr = (0.75, 0.15) if ph == 0 else (0.15, 0.75)
        else:
            pi, pr = 0.5, 0.5
        x = rng.random()
        if x < pi:
            y = rng.random()
            if y < 0.04:
                h.reins(some_resident())        # the resident object itself, offered again
            elif y < 0.10:
                h.ins(some_resident())          # duplicate insert on purpose
            else:
                h.ins(rng.randrange(krange))
        elif x < pi + pr:
            h.rem(some_resident() if rng.random() < 0.85 else rng.randrange(krange))
        else:
            h.find(some_resident() if rng.random() < 0.5 else rng.randrange(krange))
    return h


def gen_sequential(rng, name, n, order_in, order_out):
    h = Hist(name)
    keys = list(range(1, n + 1))
    ins = {"asc": keys, "desc": keys[::-1], "rand": rng.sample(keys, n),
           "zig": [keys[i // 2] if i % 2 == 0 else keys[n - 1 - i // 2] for i in range(n)]}[order_in]
    for k in ins:
        h.ins(k)
    rem = {"asc": keys, "desc": keys[::-1], "rand": rng.sample(keys, n), "same": list(ins)}[order_out]
    for k in rem:
        h.rem(k)
        if rng.random() < 0.05:
            h.find(k)
    return h


def avl_shape(rng, height, mode):
    """A tree shape (nested tuples (l, r) / None) of the given height that is AVL balanced.
    mode: 'fibl' / 'fibr' minimal trees leaning left / right, 'fibz' alternating, 'rand' random factors."""
    if height <= 0:
        return None
    if height == 1:
        return (None, None)
    if mode == "fibl":
        return (avl_shape(rng, height - 1, mode), avl_shape(rng, height - 2, mode))
    if mode == "fibr":
        return (avl_shape(rng, height - 2, mode), avl_shape(rng, height - 1, mode))
    if mode == "fibz":
        return (avl_shape(rng, height - 1, "fibzr"), avl_shape(rng, height - 2, "fibzr"))
    if mode == "fibzr":
        return (avl_shape(rng, height - 2, "fibz"), avl_shape(rng, height - 1, "fibz"))
    c = rng.random()
    sub = "rand" if rng.random() < 0.8 else rng.choice(["fibl", "fibr", "fibz"])
    if c < 0.25:
        return (avl_shape(rng, height - 1, sub), avl_shape(rng, height - 1, sub))
    if c < 0.625:
        return (avl_shape(rng, height - 1, sub), avl_shape(rng, height - 2, sub))
    return (avl_shape(rng, height - 2, sub), avl_shape(rng, height - 1, sub))


def shape_level_order_keys(shape):
    """Keys 10,20,... assigned in-order; returned in level order (level-order insertion of an AVL shape
    never rotates, so the tree built is exactly the shape), plus the in-order key list."""
    counter = [0]
    keyed = {}

    def assign(s, path):
        if s is None:
            return
        assign(s[0], path + "l")
        counter[0] += 10
        keyed[path] = counter[0]
        assign(s[1], path + "r")
    assign(shape, "")
    order = sorted(keyed, key=lambda p: (len(p), p))
    return [keyed[p] for p in order], sorted(keyed.values())


def gen_directed(rng, heights, n_rand_shapes, out):
    for hgt in heights:
        shapes = [("fibl", avl_shape(rng, hgt, "fibl")), ("fibr", avl_shape(rng, hgt, "fibr")),
                  ("fibz", avl_shape(rng, hgt, "fibz"))]
        for j in range(n_rand_shapes):
            shapes.append(("rand%d" % j, avl_shape(rng, hgt, "rand")))
        for nm, sh in shapes:
            lvl, inord = shape_level_order_keys(sh)
            # (1) every node removed once from a fresh copy (then a neighbour inserted, then removed again)
            targets = inord if len(inord) <= 40 or nm.startswith("fib") else rng.sample(inord, 40)
            for k in targets:
                h = Hist("shape/%s/h%d/del%d" % (nm, hgt, k))
                for x in lvl:
                    h.ins(x)
                h.rem(k)
                h.ins(k + rng.choice([-5, 0, 5]))
                h.rem(rng.choice(inord))
                out.append(h)
            # (2) drain from one side / random, (3) insert into every gap
            for mode in ("asc", "desc", "rand", "shallow"):
                h = Hist("shape/%s/h%d/drain-%s" % (nm, hgt, mode))
                for x in lvl:
                    h.ins(x)
                if mode == "asc":
                    order = inord
                elif mode == "desc":
                    order = inord[::-1]
                elif mode == "rand":
                    order = rng.sample(inord, len(inord))
                else:
                    order = lvl[::-1][len(lvl) // 2:] + lvl[::-1][:len(lvl) // 2]
                for x in order:
                    h.rem(x)
                out.append(h)
            gaps = [k - 5 for k in inord] + [inord[-1] + 5]
            for g in (gaps if len(gaps) <= 40 else rng.sample(gaps, 40)):
                h = Hist("shape/%s/h%d/ins%d" % (nm, hgt, g))
                for x in lvl:
                    h.ins(x)
                h.ins(g)
                h.ins(g + rng.choice([-1, 1, 2]))
                h.rem(g)
                out.append(h)


def load_corpus():
    out = []
    if CORPUS.is_dir():
        for f in sorted(CORPUS.glob("*.txt")):
            cur = None
            for ln in f.read_text().splitlines():
                ln = ln.strip()
                if not ln or ln.startswith("#"):
                    continue
                if ln.startswith("H"):
                    cur = Hist("corpus/%s/%s" % (f.name, ln[1:].strip()))
                    out.append(cur)
                elif cur is not None:
                    cur.ops.append(ln)
    return out


def gen_cases(ctx):
    q = ctx.quick
    hs = load_corpus()
    n_corpus = len(hs)
    rng = random.Random(ctx.subseed("perms"))
    for n in (1, 2, 3, 4):
        gen_perms(n, None, rng, hs)
    if q:
        gen_perms(5, 24, rng, hs)
        gen_perms(6, 2, rng, hs)
        gen_allseq(3, 5, hs)
        gen_allseq(4, 5, hs)
    else:
        gen_perms(5, None, rng, hs)
        gen_perms(6, 60, rng, hs)
        gen_perms(7, 12, rng, hs)
        gen_allseq(3, 6, hs)
        gen_allseq(4, 6, hs)
    rng = random.Random(ctx.subseed("directed"))
    if q:
        gen_directed(rng, [2, 3, 4, 5, 6, 7], 4, hs)
    else:
        gen_directed(rng, [2, 3, 4, 5, 6, 7, 8, 9, 10], 16, hs)
    rng = random.Random(ctx.subseed("random"))
    nshort, nlong = (600, 12) if q else (12000, 180)
    for i in range(nshort):
        kr = rng.choice([8, 8, 64, 64, 64, 1 << 20])
        hs.append(gen_random(rng, "rnd/%d/k%d" % (i, kr), rng.randint(20, 400), kr, rng.choice(["mix", "growdrain", "saw"])))
    for i in range(nlong):
        kr = [8, 64, 1 << 20, 1 << 20, 300, 5000][i % 6]
        hs.append(gen_random(rng, "long/%d/k%d" % (i, kr), 4096, kr, ["mix", "growdrain", "saw"][i % 3]))
    rng = random.Random(ctx.subseed("sequential"))
    for i, (a, b) in enumerate(itertools.product(["asc", "desc", "rand", "zig"], ["asc", "desc", "rand", "same"])):
        n = (rng.randint(30, 200) if q else rng.randint(200, 1500))
        hs.append(gen_sequential(rng, "seqn/%s-%s/%d" % (a, b, n), n, a, b))
    return hs, n_corpus


# ----------------------------------------------------------------------------- running
def hist_text(hs):
    parts = []
    for h in hs:
        parts.append("H " + h.name)
        parts.extend(h.ops)
    return "\n".join(parts) + "\n"


def run_c(cbin, text, full=False, timeout=600):
    env = {"ASAN_OPTIONS": "detect_leaks=1:abort_on_error=0:allocator_may_return_null=1", "UBSAN_OPTIONS": "print_stacktrace=1"}
    return vlib.sh2([str(cbin)] + (["full"] if full else []), stdin=text, timeout=timeout, env=env)


def run_m(mbin, text, full=False, timeout=600):
    return vlib.sh2([str(mbin)] + (["full"] if full else []), stdin=text, timeout=timeout)


def split_out(out):
    """Output lines grouped per history: list of lists (without the H line)."""
    groups = []
    for ln in out.splitlines():
        if ln.startswith("H "):
            groups.append([])
        elif groups:
            groups[-1].append(ln)
    return groups


# ----------------------------------------------------------------------------- the search oracle
def parse_line(ln):
    head, _, tail = ln.partition("|")
    f = head.split()
    tagc, ret = f[0], int(f[1])
    root = int(f[2].split("=")[1])
    n = int(f[3].split("=")[1])
    recs = {}
    for tok in tail.split():
        i, _, rest = tok.partition(":")
        recs[int(i)] = tuple(int(x) for x in rest.split(","))
        if len(recs[int(i)]) != 5:
            raise ValueError("short record")
    return tagc, ret, root, n, recs


def check_tree(state, root, n, spec):
    """The property's state part on a dumped heap: state id -> (key,l,r,p,f)."""
    if len(state) != n:
        return "node count %d but %d records" % (n, len(state))
    if root == 0:
        if state or spec:
            return "root is null but %d elements should be present" % len(spec)
        return None
    if root not in state:
        return "root points to node %d which is not in the tree" % root
    if state[root][3] != 0:
        return "root node %d has a non-null parent link %d" % (root, state[root][3])
    seen = set()
    inorder = []
    hts = {}
    stack = [(root, 0)]
    while stack:
        i, ph = stack.pop()
        k, l, r, p, f = state[i]
        if ph == 0:
            if i in seen:
                return "node %d reached twice (cycle or shared child)" % i
            seen.add(i)
            stack.append((i, 2))
            if r:
                if r not in state:
                    return "node %d: right link to %d which is not in the tree" % (i, r)
                if state[r][3] != i:
                    return "parent link: node %d is the right child of %d but its parent field is %d" % (r, i, state[r][3])
                stack.append((r, 0))
            stack.append((i, 1))
            if l:
                if l not in state:
                    return "node %d: left link to %d which is not in the tree" % (i, l)
                if state[l][3] != i:
                    return "parent link: node %d is the left child of %d but its parent field is %d" % (l, i, state[l][3])
                stack.append((l, 0))
        elif ph == 1:
            inorder.append((k, i))
        else:
            hl = hts.get(l, 0) if l else 0
            hr = hts.get(r, 0) if r else 0
            hts[i] = 1 + max(hl, hr)
            if not -1 <= f <= 1:
                return "node %d: stored factor %d outside -1..1" % (i, f)
            if hr - hl != f:
                return "node %d: stored factor %d but height(right)-height(left) = %d-%d" % (i, f, hr, hl)
    if len(seen) != len(state):
        return "nodes %s are in the container but not reachable from the root" % sorted(set(state) - seen)[:5]
    for a, b in zip(inorder, inorder[1:]):
        if not a[0] < b[0]:
            return "search-tree order: key %d (node %d) precedes key %d (node %d) in-order" % (a[0], a[1], b[0], b[1])
    if dict(inorder) != spec:
        return "element set differs from inserted-and-not-removed set: tree %s, expected %s" % (
            sorted(inorder)[:8], sorted(spec.items())[:8])
    return None


def oracle(ops, lines, every=1):
    """Evaluate the property on the C output of one history.  Returns None or (op index, message)."""
    state, spec, root = {}, {}, 0
    for j, op in enumerate(ops):
        if j >= len(lines):
            return j, "implementation aborted (sanitizer report or crash) during op %d: %s" % (j, op)
        ln = lines[j]
        if ln.startswith("E"):
            return j, "driver error: " + ln
        try:
            tagc, ret, nroot, n, recs = parse_line(ln)
        except Exception:
            if j == len(lines) - 1:          # partial last line: the process died while printing it
                return j, "implementation aborted (sanitizer report or crash) during op %d: %s" % (j, op)
            return j, "unparsable output line: " + ln[:80]
        f = op.split()
        before = dict(state)
        broot = root
        if f[0] in ("I", "J"):
            nid, k = int(f[1]), int(f[2])
            exp = spec.get(k, 0)
            if ret != exp:
                return j, "insert of key %d returned node %d, expected %s" % (k, ret, exp or "NULL")
            if exp == 0:
                spec[k] = nid
            unchanged = exp != 0
        elif f[0] == "R":
            k = int(f[1])
            exp = spec.get(k, 0)
            if ret != exp:
                return j, "lookup before remove of key %d returned node %d, expected %s" % (k, ret, exp or "NULL")
            if exp:
                del spec[k]
                state.pop(ret, None)
                before = None
            unchanged = exp == 0
        else:
            k = int(f[1])
            exp = spec.get(k, 0)
            if ret != exp:
                return j, "search of key %d returned node %d, expected %s" % (k, ret, exp or "NULL")
            unchanged = True
        state.update(recs)
        root = nroot
        if unchanged and (state != before or root != broot):
            return j, "operation '%s' must not change the tree but node records changed: %s" % (op, sorted(recs.items())[:4])
        if (not unchanged and every == 1) or j % every == 0 or j == len(ops) - 1:
            msg = check_tree(state, root, n, spec)
            if msg:
                return j, "after op %d (%s): %s" % (j, op, msg)
    return None


def c_fails(cbin, ops):
    """Run one history on the C and apply the oracle; returns None or (index, message)."""
    rc, out, err = run_c(cbin, "H x\n" + "\n".join(ops) + "\n", timeout=60)
    g = split_out(out)
    lines = g[0] if g else []
    res = oracle(ops, lines)
    if res is None and rc != 0:
        return len(lines), "implementation exited with status %d: %s" % (rc, " ".join(err.split())[:300])
    return res


def shrink(cbin, ops, upto):
    ops = ops[:upto + 1]
    def still_fails(cand):
        r = c_fails(cbin, cand)
        return r is not None and not r[1].startswith("driver error")     # a J whose I was removed is not a smaller failure
    small = vlib.ddmin(ops, still_fails, max_tests=300)
    return small


def report_failure(ctx, cbin, mbin, h, res, origin, config="packed"):
    res = c_fails(cbin, h.ops)          # confirm on a fresh process, alone
    if res is None:
        return False
    j, msg = res
    small = shrink(cbin, h.ops, j)
    res2 = c_fails(cbin, small)
    if res2 is None:
        small, res2 = h.ops[:j + 1], res
    _, c_full, c_err = run_c(cbin, "H x\n" + "\n".join(small) + "\n", full=True, timeout=60)
    _, m_full, _ = run_m(mbin, "H x\n" + "\n".join(small) + "\n", full=True, timeout=60)
    what = "a_avl [%s configuration] history of %d ops (%s): %s" % (
        config.split()[0], len(small), " ; ".join(small[:12]) + (" ..." if len(small) > 12 else ""), res2[1])
    ctx.report(key="avl/" + "_".join(res2[1].split()[:3])[:40], what=what,
               replay={"history": small, "failing_op_index": res2[0], "violation": res2[1],
                       "origin_history": h.name, "origin": origin, "configuration": config,
                       "c_output_full": c_full.splitlines(), "model_output_full": m_full.splitlines(),
                       "c_stderr": c_err[-1500:],
                       "how_to_replay": "printf 'H x\\n<ops one per line>\\n' | build/C01/avl_drv[_unpacked] full"},
               found_input=True)
    return True


# ----------------------------------------------------------------------------- the check
def build(ctx):
    cbin = ctx.cc("avl_drv", [HARN / "avl_drv.c"], repo_srcs=["avl.c"], mode="asan")
    ml = ctx.extract("C01/Extract.v", ["C01/extracted/avl_model.ml", "C01/extracted/avl_model.mli"])
    mbin = ctx.ocaml_build("avl_mdrv", ml[::-1] + [HARN / "avl_mdrv.ml"])
    return cbin, mbin


PACKED = "packed (A_SIZE_POINTER 8: factor in the low bits of parent_)"
UNPACKED = "unpacked (A_SIZE_POINTER 1: separate parent / factor fields)"


def build_unpacked(ctx):
    """Second configuration of the same sources: the #else /* !A_SIZE_POINTER */ arms of avl.h / avl.c
    (separate `parent` and `factor` fields), selected by A_SIZE_POINTER <= 3; a_uptr stays 64 bit.
    The later -DA_HAVE_H on the command line overrides the one ctx.cc generates."""
    cfg1 = ctx.build / "cfg_unpacked.h"
    txt1 = ctx.cfg_header().read_text().replace("#define A_SIZE_POINTER 8", "#define A_SIZE_POINTER 1")
    if "#define A_SIZE_POINTER 1" not in txt1:
        raise vlib.CheckError("cannot derive the unpacked configuration header")
    if not cfg1.exists() or cfg1.read_text() != txt1:
        cfg1.write_text(txt1)
    # ... built with plain char unsigned as well (the ARM / PowerPC default): small targets are where this layout is used, and a
    # narrow signed field declared `char` would only show there
    return ctx.cc("avl_drv_unpacked", [HARN / "avl_drv.c"], repo_srcs=["avl.c"], mode="asan",
                  defines=['A_HAVE_H="%s"' % cfg1], extra=["-funsigned-char"])


def run(ctx):
    if not ctx.quick:
        # thorough: rebuild this property's proof files from clean
        for vo in list((vlib.COQ / "C01").glob("*.vo")) + [vlib.COQ / "Properties_C01.vo"]:
            try:
                vo.unlink()
            except OSError:
                pass
    proved = ctx.prove()
    if proved and not ctx.quick:
        rc, o = vlib.sh(["coqchk", "-silent", "-o", "-Q", ".", "LibaV", "LibaV.Properties_C01"], cwd=vlib.COQ, timeout=900)
        if rc != 0 or "Axioms: <none>" not in " ".join(o.split()):
            ctx.tie_broken("coqchk on LibaV.Properties_C01 failed or reports axioms: " + " ".join(o.split())[-400:])
        else:
            ctx.cov["trusted_base"].append("coqchk -o LibaV.Properties_C01: re-checked by the standalone kernel, Axioms: <none>")
    if proved:
        # pointer level: the rebalancing primitives regenerated from the current avl.c / avl.h (both layouts) and proved to refine AvlDefs
        vavl.avl_translate_and_tie(ctx)
    cbin, mbin = build(ctx)
    configs = [(PACKED, cbin)]
    try:
        configs.append((UNPACKED, build_unpacked(ctx)))
    except vlib.CheckError as e:
        ctx.tie_broken("the unpacked configuration (A_SIZE_POINTER 1: separate parent/factor fields) of avl.c no longer "
                       "builds: " + str(e)[-600:])
    t0 = time.time()
    hs, n_corpus = gen_cases(ctx)
    nops = sum(len(h.ops) for h in hs)
    ctx.log("generated %d histories, %d ops (%d corpus histories) in %.1fs" % (len(hs), nops, n_corpus, time.time() - t0))

    # chunks of ~150k ops, run in parallel
    chunks, cur, cnt = [], [], 0
    for h in hs:
        cur.append(h)
        cnt += len(h.ops) + 1
        if cnt >= (25000 if ctx.quick else 150000):
            chunks.append(cur)
            cur, cnt = [], 0
    if cur:
        chunks.append(cur)

    def run_c_chunk(cb, chunk, text):
        # the C may abort (sanitizer) inside a history: keep its partial output, restart after it
        c_groups, crashed, start, restarts = [], [], 0, 0
        while start < len(chunk):
            rc, c_out, c_err = run_c(cb, text if start == 0 else hist_text(chunk[start:]))
            g = split_out(c_out)
            if rc == 0 and len(g) == len(chunk) - start:
                c_groups.extend(g)
                break
            bad_i = start + max(0, len(g) - 1)
            c_groups.extend(g if g else [[]])
            crashed.append((bad_i, rc, c_err[-600:]))
            start = bad_i + 1
            restarts += 1
            if restarts > 40:
                c_groups.extend([None] * (len(chunk) - start))     # not run
                break
        return c_groups, crashed

    def unpacked_wanted(ci, chunk):
        # thorough: every batch; quick: corpus + exhaustive small histories + every other remaining chunk
        if not ctx.quick or ci % 2 == 0:
            return True
        return any(h.name.split("/")[0].startswith(("corpus", "perm", "seq3", "seq4")) for h in chunk[:1] + chunk[-1:])

    def work(arg):
        ci, chunk = arg
        text = hist_text(chunk)
        rc2, m_out, m_err = run_m(mbin, text)
        per_cfg = []
        for label, cb in configs:
            if label == UNPACKED and not unpacked_wanted(ci, chunk):
                continue
            cg, crashed = run_c_chunk(cb, chunk, text)
            per_cfg.append((label, cb, cg, crashed))
        return chunk, per_cfg, rc2, m_out, m_err

    tags = {}
    distinct = nontrivial = 0
    bad = []                      # (history, reason) where C and model disagree / C aborted
    sizes = {}
    oracle_ops = 0
    t_or = 0.0
    not_run = [0]
    ops_by_cfg = {}
    with ThreadPoolExecutor(max_workers=max(2, min(12, vlib.NPROC))) as ex:
        for chunk, per_cfg, rc2, m_out, m_err in ex.map(work, list(enumerate(chunks))):
            for ln in m_err.splitlines():
                f = ln.split()
                if len(f) == 3 and f[0] == "TAG":
                    tags[f[1]] = tags.get(f[1], 0) + int(f[2])
                elif len(f) == 3 and f[0] == "DISTINCT":
                    distinct += int(f[1])
                    nontrivial += int(f[2])
            if rc2 != 0:
                raise vlib.CheckError("model driver failed: " + m_err[-500:])
            mg = split_out(m_out)
            for label, cb, cg_, crashed in per_cfg:
                crash_idx = dict((i, (rc, err)) for i, rc, err in crashed)
                short = label.split()[0]
                for idx, h in enumerate(chunk):
                    cl = cg_[idx] if idx < len(cg_) else None
                    ml_ = mg[idx] if idx < len(mg) else []
                    if cl is None:
                        not_run[0] += 1
                        continue
                    ops_by_cfg[label] = ops_by_cfg.get(label, 0) + len(h.ops)
                    if idx in crash_idx:
                        bad.append((h, "[%s] C driver aborted (status %d) at op %d: %s" % (
                            short, crash_idx[idx][0], len(cl), " ".join(crash_idx[idx][1].split())[:300]), cl, label, cb))
                    elif cl != ml_:
                        d = vlib.first_diff(cl, ml_)
                        bad.append((h, "[%s] op %d: C '%s' vs model '%s'" % (
                            short, d, (cl[d] if d < len(cl) else "<no output>")[:120],
                            (ml_[d] if d < len(ml_) else "<none>")[:120]), cl, label, cb))
            cg = per_cfg[0][2]
            # self-test of the oracle + direct evidence: the property evaluated on the C output of a sample
            t1 = time.time()
            stride = 1 if ctx.quick else 4
            for idx in range(0, len(chunk), stride):
                h = chunk[idx]
                if idx < len(cg) and cg[idx] is not None and len(h.ops) <= 600 and t_or < (12 if ctx.quick else 60):
                    res = oracle(h.ops, cg[idx])
                    oracle_ops += len(h.ops)
                    if res is not None and not any(b[0] is h for b in bad):
                        bad.append((h, "oracle: " + res[1], cg[idx], PACKED, cbin))
            t_or += time.time() - t1
            for idx, h in enumerate(chunk):
                if idx < len(cg) and cg[idx]:
                    try:
                        n = max(int(l.split()[3].split("=")[1]) for l in cg[idx][:: max(1, len(cg[idx]) // 16)] if l[0] in "irs")
                    except Exception:
                        n = 0
                    b = 1 << max(0, n - 1).bit_length()
                    sizes[b] = sizes.get(b, 0) + 1

    ctx.count(evaluations=nops, nontrivial=nontrivial)
    ctx.cov["rule"] = ("evaluations = API calls (insert/remove/search) executed on BOTH the C (ASan/UBSan) and the extracted model, "
                       "heap compared after each; distinct_nontrivial = distinct (pre-state shape with stored factors, op kind, "
                       "rank of the key among resident keys) triples -- counted by the model driver, per chunk of ~25k (quick) or ~150k (thorough) ops, so a "
                       "triple seen in two chunks counts twice -- on which the model fired at least one case other than "
                       "LinkRoot / LinkStop / Dup / Absent (i.e. a retrace of >= 1 level, a rotation, an unlink or a splice)")
    ctx.cov["distinct_state_op_triples"] = distinct
    ctx.cov["histories"] = len(hs)
    ctx.cov["exhaustive_spaces"] = (
        ["every insertion order x every removal order of n distinct keys, n <= 4",
         "every insertion order of 5 keys x 24 sampled removal orders; of 6 keys x 2",
         "every insert/remove sequence of length 5 over 3 keys and over 4 keys (fresh node per insert)"] if ctx.quick else
        ["every insertion order x every removal order of n distinct keys, n <= 5",
         "every insertion order of 6 keys x 60 sampled removal orders; of 7 keys x 12",
         "every insert/remove sequence of length 6 over 3 keys and over 4 keys (fresh node per insert)"])
    ctx.cov["corpus_histories"] = n_corpus
    ctx.cov["configurations"] = [c[0] for c in configs]
    ctx.cov["ops_compared_per_configuration"] = ops_by_cfg
    ctx.cov["model_branch_hits"] = dict(sorted(tags.items()))
    missing = [t for t in ALL_TAGS if not tags.get(t)]
    ctx.cov["model_branches_not_reached"] = missing
    ctx.cov["max_tree_size_histogram(<=2^k: histories)"] = dict(sorted(sizes.items()))
    ctx.cov["oracle_ops_checked_on_C_output"] = oracle_ops
    kinds = {}
    for h in hs:
        kinds[h.name.split("/")[0]] = kinds.get(h.name.split("/")[0], 0) + len(h.ops)
    ctx.cov["ops_by_generator"] = kinds
    for h in (hs[n_corpus:n_corpus + 2] + hs[len(hs) // 2:len(hs) // 2 + 2]):
        ctx.sample({"history": h.name, "ops": h.ops[:14], "n_ops": len(h.ops)})
    if missing:
        ctx.notes.append("model branches not reached in this run: " + ", ".join(missing))
        if not ctx.quick:
            ctx.tie_broken("generator no longer reaches model branches %s" % missing)
    ctx.log("ran %d ops; tags hit %d/%d; oracle on %d ops (%.1fs)" % (nops, len(ALL_TAGS) - len(missing), len(ALL_TAGS), oracle_ops, t_or))

    if not_run[0]:
        ctx.tie_broken("C driver aborted too often: %d histories were not run" % not_run[0])
    if bad:
        ctx.tie_broken("correspondence avl C-vs-model: %d histories differ; first: %s %s" % (len(bad), bad[0][0].name, bad[0][1]))
        # search: the property itself on the C output of the disagreeing histories (shortest first), then a fresh batch
        found = 0
        seen_msgs = set()
        for h, why, cl, label, cb in sorted(bad, key=lambda b: len(b[0].ops))[:60]:
            res = oracle(h.ops, cl)
            if res is None:
                res = c_fails(cb, h.ops)
            if res is not None:
                cat = label.split()[0] + " " + " ".join(res[1].split(":")[-1].split()[:4])
                if cat in seen_msgs and found >= 1:
                    continue
                seen_msgs.add(cat)
                if report_failure(ctx, cb, mbin, h, res, why, label):
                    found += 1
                if found >= 3:
                    break
        if not found:
            rng = random.Random(ctx.subseed("search"))
            t1 = time.time()
            i = 0
            while time.time() - t1 < (20 if ctx.quick else 90) and not found:
                kr = rng.choice([8, 64, 300, 1 << 20])
                h = gen_random(rng, "search/%d" % i, rng.randint(50, 1500), kr, rng.choice(["mix", "growdrain", "saw"]))
                i += 1
                for label, cb in configs:
                    res = c_fails(cb, h.ops)
                    if res is not None and report_failure(ctx, cb, mbin, h, res, "fresh random search batch", label):
                        found += 1
                        break
            ctx.log("search oracle: %d fresh histories, found %d" % (i, found))


def replay(ctx, path):
    """Re-run the history of a replay file on the current tree; the property's oracle decides
    (vcheck turns a ctx.report into exit status 1)."""
    obj = json.loads(Path(path).read_text())
    ops = obj["replay"]["history"]
    cbin, mbin = build(ctx)
    cfg = obj["replay"].get("configuration", "")
    res = None
    for label, cb in ([(UNPACKED, build_unpacked(ctx))] if cfg.startswith("unpacked") else
                      [(PACKED, cbin), (UNPACKED, build_unpacked(ctx))]):
        res = c_fails(cb, ops)
        if res is not None:
            cfg = label
            break
    ctx.count(evaluations=len(ops))
    ctx.cov["rule"] = "replay of one recorded history on the C implementation, judged by the search oracle"
    ctx.sample({"history": ops[:20]})
    if res is None:
        ctx.log("replay: the property holds on this history now")
        return 0
    ctx.report(key="avl/replay", what="replayed history of %d ops: %s" % (len(ops), res[1]),
               replay={"history": ops, "failing_op_index": res[0], "violation": res[1], "replayed_from": str(path),
                       "configuration": cfg},
               found_input=True)
    return 1


META = {
    "text": "Rocq theorems for ALL finite insert/remove/search histories from the empty tree over all key sets (keys Z; an "
            "order-only theorem shows only relative order matters): no model error reachable, BST, stored factor = "
            "h(right)-h(left) in -1..1 at every node, exact refinement of an abstract key->node map (duplicate insert returns "
            "the resident and leaves the tree equal, absent insert adds exactly it, remove deletes exactly it, search finds "
            "iff present), canonical heap has consistent parent links, logarithmic height. Tie 1: extracted model vs the real "
            "a_avl_insert/remove/search: left/right/parent/factor/root/return value compared after EVERY operation under "
            "ASan+UBSan in BOTH node layouts of avl.h/avl.c (packed parent_ word, A_SIZE_POINTER 8, and the unpacked "
            "#else arms with separate parent/factor fields, A_SIZE_POINTER 1), exhaustive small histories + directed shapes "
            "+ random; all 38 rebalancing case tags hit. Tie 2 (pointer level, re-proved on every run): tools/c2avl.py "
            "regenerates from the current avl.c/avl.h, in both layouts, the pointer surgery of insertion as checked heap "
            "programs (cells left/right/parent/factor + root slot; null/dangling access and a factor leaving -1..1 are "
            "errors; loops on a fuel argument): a_avl_parent, a_avl_new_child, a_avl_child, a_avl_set_child, "
            "a_avl_set_parent_factor, a_avl_set_parent, a_avl_factor, a_avl_set_factor, a_avl_rotate, a_avl_rotate2, "
            "a_avl_handle_growth, a_avl_insert_adjust, a_avl_handle_shrink, a_avl_handle_remove, a_avl_remove, a_avl_init, "
            "a_avl_insert, a_avl_search; 18 tie theorems x 2 layouts (harness/C01/TieAvl.v, TieAvlRemove.v, "
            "TieAvlInsert.v): the helpers are "
            "the field operations of AvlDefs.child/set_child/add_factor for every state and argument; for EVERY heap in which "
            "a tree with distinct node ids is laid out below the root slot or a child field of a parent cell, and both signs, "
            "the generated a_avl_rotate / a_avl_rotate2 (all three factor cases) / a_avl_handle_growth / a_avl_handle_shrink "
            "(all arms, with the *left flag) succeed, leave AvlDefs.rotate / rotate2 / handle_growth / handle_shrink of that "
            "tree laid out below the same slot (same return value) and change no cell outside the tree's nodes except the "
            "slot; a_avl_handle_remove leaves the successor splice laid out; and for EVERY heap that lays out a balanced "
            "search tree t (fuel linear in height t): the whole public a_avl_insert (descent with the comparator, a_avl_init, "
            "link, retrace) returns the resident node of an equal key and writes nothing, or returns null and a heap that "
            "lays out exactly the tree the model's recursive ins returns; a_avl_remove started at the node the model removes "
            "(unlink or splice, then the bottom-up loop) returns a heap that lays out exactly what rem returns; a_avl_search "
            "returns AvlDefs.search; root->node = the root, no cell outside the tree (and the new node) touched.",
    "note": "Trusted: Coq kernel; extraction (ExtrOcamlBasic only) + OCaml/C drivers; translator c2avl (its reading of the C: "
            "clang AST -> heap program; the packed word parent_ = parent | (factor + 1) is mapped to the two components by "
            "recognising its six uses in the AST, each mapping an arithmetic lemma pw_* of C01/AvlTieLemmas*.v for 64-bit "
            "words and 4-aligned pointers; int arithmetic taken exact - the theorems are for sign +-1 and factors in -1..1; an "
            "int* out-parameter is a value passed in and out, an a_avl_node** a slot; the comparator callback is ASSUMED to be "
            "a pure function of its two pointers that orders the new node / key context against the nodes as the model orders "
            "the keys (hypothesis cmp_ok of the theorems); fuel is a proof device). Every function of the AVL part of avl.c "
            "(insert, insert_adjust, remove, search and their helpers) is now regenerated and proved; the iterators / tear "
            "are property C03. Not proved: that the node a_avl_search returns is the one a caller then hands to a_avl_remove "
            "(the remove theorem takes the node the model's rem names; the correspondence run makes that call sequence). "
            "Tie 1 (exact per-operation heap comparison on generated histories) stays as the independent check of the "
            "translator's reading of the C. Both node layouts are built and compared with the same model output (the model "
            "has no layout): packed on every batch, unpacked on corpus + exhaustive small histories + every other remaining "
            "batch in quick and on every batch in thorough. No axioms.",
    "technique": "Rocq proof (structural induction, invariants, refinement to an abstract map) + extracted-model vs C exact heap correspondence "
                 "+ translator tie (regenerated pointer code refines the tree model, representation predicate with frame)",
}
