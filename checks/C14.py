"""C14: trapezoidal (src/trajtrap.c) and bell-shaped / double-S (src/trajbell.c) velocity-profile trajectories.

Proof over R and in the rounding model (coq/Properties_C14.v, 31 theorems): an evaluation layer from a well-formedness predicate on the context
alone (start/end state, hold outside [0,T], continuity across every phase boundary, vel = pos', acc = vel', jer = acc'
inside phases, |vel|<=vm, |acc|<=am, |jer|<=jm) and a planning layer (generator result > 0 => well-formed, limits
respected: all four trapezoid branches; all four double-S cruise variants and the three exits of the bisection loop by a
loop invariant and induction on fuel), composed in C14_trap_property / C14_bell_property; see coq/C14/*.v.
Tie: the SAME Gallina terms (coq/C14/TrapDefs.v, BellDefs.v) instantiated with Coq's primitive binary64 floats are run by
vm_compute and compared BIT FOR BIT with the C built from the current tree (gcc -O2 -ffp-contract=off): generator return
value + every context field, and pos/vel/acc(/jer) at query times placed on, one ulp around and between all phase
boundaries of the context the C produced (sqrt is the only libm call and is exact in IEEE, so no substitutes are needed).
Search oracle: the property itself evaluated (Python floats, stated tolerances) on what the C produced - the
well-formedness equations on every context of a feasible request with a positive result, and along the sampled profile:
hold outside [0,T], |vel|<=vm (|acc|<=am, |jer|<=jm), Lipschitz steps (continuity at every boundary) and mean-value
brackets tying pos to vel, vel to acc, acc to jer inside every phase."""
import math
import random
import re

import fcorr
import vlib

META = {
    "text": "Rocq theorems (coq/Properties_C14.v, 31 theorems: 24 over the reals, 7 on the termination of the bisection loop in the rounded model), for ALL requests, contexts, query times "
            "and any number of passes of the double-S bisection loop. Evaluation layer, from a well-formedness predicate on "
            "the context alone (WFtrap / WFbell: phase durations non-negative and summing to t, hand-over equations; both "
            "directions of travel, the double-S mirroring is transported by a lemma): pos/vel(/acc) at 0 and t are the "
            "recorded start/end state; queries outside [0,t] hold it; pos, vel (and acc for the double-S) are continuous "
            "at every query time, i.e. across every phase boundary (the polynomial pieces coincide with the C's decision "
            "tree on the CLOSED phase intervals, incl. every collapsed-phase case); vel is the derivative of pos (double-S: "
            "acc of vel) on (0,t), jer of acc inside each phase; |vel|<=vm at every time (double-S also |acc|<=am, "
            "|jer|<=jm). Planning layer: generator result t>0 => well-formed context recording the (clamped) request, with "
            "every divisor non-zero and every sqrt argument >=0 on the executed path: trapezoid, all four branches, on "
            "requests whose acceleration signs match the direction of travel; double-S, all four cruise variants and all "
            "three exits of the bisection loop (loop invariant + induction on the model's fuel), peak velocity within vm "
            "unconditionally, peak accelerations within am unconditionally except for the two single-phase exits where the "
            "standard double-S feasibility condition is used. C14_trap_property / C14_bell_property compose both layers on "
            "the generators' outputs. Tie: the same Gallina terms run on Coq's primitive binary64 floats agree BIT FOR BIT "
            "with the C (generators incl. the bisection loop; all evaluation functions at, one ulp around and between every "
            "phase boundary). Second tie, re-proved on every run for every NumOps instance: tools/c2coq.py regenerates "
            "a_trajtrap_gen, a_trajbell_gen and the seven evaluation functions from the current sources and each is proved "
            "equal to the hand model; a_trajbell_gen's do-while bisection becomes a Fixpoint on fuel and "
            "tie_a_trajbell_gen states, for ALL fuels and inputs, regenerated function = the model bell_gen_b with its "
            "bookkeeping (exit tag, pass counter) forgotten, out-of-fuel on one side iff on the other. Fuel sufficiency "
            "(coq/C14/BellFuel.v): at the rounded instance Rnd_ops rnd of the same terms (every + - * / sqrt followed by rnd, "
            "comparisons exact) every continuing pass multiplies ac by 0.5 exactly once, and for every rnd in which halving a "
            "format number above 2^-52 is exact the loop entered with a format number ac <= 2^-52*2^j ends within j+1 passes; "
            "IEEE binary64 round-to-nearest-even is such a rounding (Flocq), so for EVERY finite binary64 am (format number, "
            "|am| < 2^1024; subnormal, zero, negative included) and all other arguments bell_gen_b never reports out-of-fuel with "
            "any fuel >= 1077, in particular with the 1200 the correspondence run uses (C14_bell_gen_fuel_binary64(_1200)); with "
            "the tie, the regenerated a_trajbell_gen returns Some at that instance. Non-vacuity: a request proved to make 52 "
            "passes at binary64 (C14_bell_fuel_example).",
    "note": "Trusted: Coq kernel/vm_compute (primitive floats), the standard real-number / classical axioms listed by Print Assumptions (the fuel theorems add none; Flocq 4 is used for binary64 rounding); "
            "the 'same term, different NumOps instance' argument between R and binary64; the hand transcription "
            "coq/C14/TrapDefs.v, BellDefs.v (goto-exit as early returns, the do-while as a step function on fuel; "
            "validated bit for bit against the C on the generated cases, and tied to the translator's reading of the "
            "current sources by the tie theorems - all nine functions incl. a_trajbell_gen with its loop, for every fuel); "
            "the translator tools/c2coq.py is trusted to read the C right (its output is not trusted to match the model: "
            "that is proved); the theorems of Properties_C14.v remain about the hand model; gcc -O2 -ffp-contract=off on x86-64 being "
            "IEEE binary64 operation by operation with correctly rounded sqrt. NOT proved: floating-point rounding (the "
            "oracle measures the well-formedness residuals and sampled limits of every C context with tolerance 1e-7); "
            "termination of the C loop for an INFINITE am (fuel sufficiency is proved in the rounded-real model with "
            "binary64 round-to-nearest-even, where rnd is a total function on R: overflow, infinities and NaN are outside "
            "it; the hypothesis |am| < 2^1024 says that am is finite; for am = +-inf ac stays infinite and the C loop does "
            "not end - the correspondence run does not generate it; that model is tied to the C by the 'every operation "
            "followed by one rounding, comparisons exact' reading of -O2 -ffp-contract=off SSE2 code, the same reading the "
            "bit-exact correspondence checks on the generated cases; the theorems over R and the tie hold for every fuel, "
            "running out of fuel is a distinct result - None in the regenerated function, BX_out_of_fuel in the model - "
            "that no theorem treats as success); that "
            "a feasible request makes the generators return t>0 (the theorems are conditional on t>0, as the property is). "
            "In R, sqrt(negative)=0 and x/0=0: the planning theorems prove the radicands non-negative and the divisors "
            "non-zero, so they do not rest on these conventions.",
    "technique": "Rocq proof over R (field/nra/lra, Coquelicot is_derive/continuous glued across phase boundaries, loop "
                 "invariant by induction on fuel) + a_trajtrap_gen, a_trajbell_gen (data-dependent loop as a Fixpoint on fuel, tie by induction on the "
                 "fuel) and the seven evaluation functions regenerated by a translator and proved equal to the "
                 "model on every run + bit-exact primitive-float model vs C correspondence + numeric "
                 "well-formedness/limit oracle on the C output",
    "category": "proof",
}

H = vlib.VERIF / "harness" / "C14"
CORPUS = vlib.VERIF / "corpus" / "C14"
TRAP_C0 = [101.0 + i for i in range(12)]      # content of the context before gen (failure paths leave fields untouched)
BELL_C0 = [201.0 + i for i in range(14)]
TOL = 1e-7
EPS = 2.0 ** -52
INF = float("inf")


def finite(*xs):
    return all(x == x and abs(x) != INF for x in xs)


def nxt(x):
    return math.nextafter(x, INF)


def prv(x):
    return math.nextafter(x, -INF)


def csat(v, vm):
    """A_SAT(v, -vm, +vm) as the C evaluates it"""
    return (v if v < vm else vm) if -vm < v else -vm


# ------------------------------------------------------------------------------------------------ request generators
def pick_v(r, vm):
    k = r.choice("uuuuuz0mMbe")
    if k == "u":
        return r.uniform(-1, 1) * vm
    if k == "z" or k == "0":
        return 0.0
    if k == "m":
        return vm
    if k == "M":
        return -vm
    if k == "b":
        return r.choice([-1, 1]) * vm * r.uniform(1.0, 2.0)      # outside: gets clamped
    return r.choice([-1, 1]) * vm * r.choice([0.5, 0.25, 1 - EPS])


def jiggle(r, x):
    k = r.randrange(6)
    if k == 0:
        return nxt(x)
    if k == 1:
        return prv(x)
    if k == 2:
        return x * (1 + 1e-9)
    if k == 3:
        return x * (1 - 1e-9)
    return x


def gen_trap(r):
    """-> (request [vm ac de p0 p1 v0 v1], aim, oracle_ok)"""
    style = r.choice(["real"] * 6 + ["int"] * 2 + ["wild"])
    if style == "int":
        vm = float(r.randint(1, 8))
        ac = float(r.randint(1, 4)) / r.choice([1, 2, 4])
        de = -float(r.randint(1, 4)) / r.choice([1, 2, 4])
        v0 = float(r.randint(-int(vm), int(vm)))
        v1 = float(r.randint(-int(vm), int(vm)))
        if r.random() < 0.4:
            v0 = v1 = 0.0
        p = float(r.randint(0, 40)) / r.choice([1, 2, 4, 8])
        aim = "int"
    elif style == "wild":
        vm = abs(fcorr.rand_double(r)) + 1e-300
        ac = fcorr.rand_double(r)
        de = fcorr.rand_double(r)
        v0 = fcorr.rand_double(r)
        v1 = fcorr.rand_double(r)
        p = fcorr.rand_double(r)
        req = [vm, ac, de, 0.0, p, v0, v1]
        if r.random() < 0.3:
            req[r.randrange(7)] = r.choice([math.nan, INF, -INF, 0.0, -0.0])
        if r.random() < 0.1:
            req[2] = req[1]
        return req, "wild", False
    else:
        mag = r.choice([1e-2, 1.0, 1.0, 1.0, 1e2])
        vm = r.uniform(0.1, 10) * mag
        ac = r.uniform(0.1, 10) * mag
        de = -r.uniform(0.1, 10) * mag
        if r.random() < 0.15:
            de = -ac
        v0 = pick_v(r, vm)
        v1 = pick_v(r, vm)
        w0, w1 = csat(v0, vm), csat(v1, vm)
        aim = r.choice(["cruise", "cruise", "accdec", "accdec", "acc", "dec", "b_vm", "b_v0", "b_v1", "rand", "zero"])

        def p_for(K):     # distance for which the peak-velocity formula gives vc2 = K
            return (w1 * w1 * ac - w0 * w0 * de - K * (ac - de)) / (2 * ac * de)
        lo, hi = min(w0 * w0, w1 * w1), max(w0 * w0, w1 * w1)
        if aim == "cruise":
            p = p_for(vm * vm * r.uniform(1.001, 6))
        elif aim == "accdec":
            p = p_for(r.uniform(hi, vm * vm))
        elif aim == "acc":
            if abs(w1) <= abs(w0):
                v0, v1 = v1, v0
                w0, w1 = w1, w0
            p = p_for(r.uniform(lo, hi))
        elif aim == "dec":
            if abs(w0) <= abs(w1):
                v0, v1 = v1, v0
                w0, w1 = w1, w0
            p = p_for(r.uniform(lo, hi))
        elif aim == "b_vm":
            p = jiggle(r, p_for(vm * vm))
        elif aim == "b_v0":
            p = jiggle(r, p_for(w0 * w0))
        elif aim == "b_v1":
            p = jiggle(r, p_for(w1 * w1))
        elif aim == "zero":
            p = r.choice([0.0, 1e-12, 1e-6]) * mag
        else:
            p = r.uniform(0, 20) * mag
    ok = True
    k = r.random()
    if k < 0.06:
        ac = -ac
        aim += "+infeasible"
    elif k < 0.12:
        de = -de
        aim += "+infeasible"
    elif k < 0.14:
        de = ac
        aim += "+equal"
    p0 = r.choice([0.0, 0.0, 1.0, -3.0, r.uniform(-10, 10)])
    p1 = p0 + p
    if r.random() < 0.5:      # the other direction of travel
        p0, p1, v0, v1, ac, de = -p0, -p1, -v0, -v1, -ac, -de
        aim += "+rev"
    if r.random() < 0.1:
        vm = -vm
    return [vm, ac, de, p0, p1, v0, v1], aim, ok


def bell_case1(jm, am, vm, v0, v1):
    """phase times of the vlim = vmax case (the C's first block), in Python floats"""
    if (vm - v0) * jm < am * am:
        taj = math.sqrt((vm - v0) / jm)
        ta = 2 * taj
    else:
        taj = am / jm
        ta = taj + (vm - v0) / am
    if (vm - v1) * jm < am * am:
        tdj = math.sqrt((vm - v1) / jm)
        td = 2 * tdj
    else:
        tdj = am / jm
        td = tdj + (vm - v1) / am
    return ta, td


def bell_pmin(jm, am, v0, v1):
    """the standard double-S feasibility bound (Biagiotti/Melchiorri 3.17-3.19): feasible iff p > bound"""
    d = abs(v1 - v0)
    tj = min(math.sqrt(d / jm), am / jm)
    if tj == am / jm:
        return 0.5 * (v0 + v1) * (tj + d / am)
    return tj * (v0 + v1)


def gen_bell(r):
    """-> (request [jm am vm p0 p1 v0 v1], aim, oracle_ok)"""
    style = r.choice(["real"] * 7 + ["int"] * 2 + ["wild"])
    if style == "wild":
        req = [fcorr.rand_double(r) for _ in range(7)]
        req[3] = 0.0
        if r.random() < 0.3:
            req[r.randrange(7)] = r.choice([math.nan, INF, -INF, 0.0, -0.0])
        if abs(req[1]) == INF:
            # out of the property's scope (finite limits) and not runnable: with am = +-inf the C's do-while never ends
            # (ac stays inf > epsilon); the model would stop with "out of fuel"
            req[1] = math.copysign(1e300, req[1])
        return req, "wild", False
    if style == "int":
        jm = float(r.choice([1, 2, 4, 8, 16]))
        am = float(r.choice([1, 2, 3, 4]))
        vm = float(r.randint(1, 9))
        v0 = float(r.randint(-int(vm), int(vm))) if r.random() < 0.3 else float(r.randint(0, int(vm)))
        v1 = float(r.randint(-int(vm), int(vm))) if r.random() < 0.3 else float(r.randint(0, int(vm)))
        if r.random() < 0.4:
            v0 = v1 = 0.0
        p = float(r.randint(0, 60)) / r.choice([1, 2, 4, 8])
        aim = "int"
    else:
        mag = r.choice([1e-1, 1.0, 1.0, 1.0, 1e1])
        jm = r.uniform(0.5, 60) * mag
        am = r.uniform(0.2, 10) * mag
        vm = r.uniform(0.2, 10) * mag
        aim = r.choice(["cruise", "cruise", "b_cruise", "nocruise", "nocruise", "small", "small", "single", "single",
                        "b_feas", "infeasible", "b_lim", "rand", "zero"])
        if r.random() < 0.7:      # the textbook situation: non-negative boundary velocities
            v0 = abs(pick_v(r, vm))
            v1 = abs(pick_v(r, vm))
        else:
            v0 = pick_v(r, vm)
            v1 = pick_v(r, vm)
        if aim == "b_lim":        # (vm - v0) * jm against am * am
            w0 = csat(v0, vm)
            if vm - w0 > 0:
                am = jiggle(r, math.sqrt((vm - w0) * jm))
            aim2 = r.choice(["cruise", "nocruise"])
        else:
            aim2 = aim
        w0, w1 = csat(v0, vm), csat(v1, vm)
        ta, td = bell_case1(jm, am, vm, w0, w1)
        pstar = vm * (0.5 * ta * (1 + w0 / vm) + 0.5 * td * (1 + w1 / vm))     # tv = 0 at this distance
        pmin = bell_pmin(jm, am, w0, w1)
        if aim2 == "cruise":
            p = pstar * r.uniform(1.001, 4)
        elif aim2 == "b_cruise":
            p = jiggle(r, pstar)
        elif aim2 == "nocruise":
            p = pstar * r.uniform(0.4, 0.999)
        elif aim2 == "small":
            p = max(pmin, 0) + (pstar - max(pmin, 0)) * r.uniform(0.0, 0.4) ** 2
        elif aim2 == "single":
            if w0 == w1:
                v1 = w1 = w0 * r.uniform(0, 0.9)
                pmin = bell_pmin(jm, am, w0, w1)
            p = pmin * r.uniform(1.0000001, 1.5)
        elif aim2 == "b_feas":
            p = jiggle(r, pmin)
        elif aim2 == "infeasible":
            p = pmin * r.uniform(0.1, 0.999)
        elif aim2 == "zero":
            p = r.choice([0.0, 1e-12, 1e-6])
        else:
            p = r.uniform(0, 30) * mag
    p0 = r.choice([0.0, 0.0, 1.0, -3.0, r.uniform(-10, 10)])
    p1 = p0 + p
    if r.random() < 0.5:
        p0, p1, v0, v1 = -p0, -p1, -v0, -v1
        aim += "+rev"
    k = r.random()
    if k < 0.05:
        jm = -jm
    elif k < 0.10:
        am = -am
    elif k < 0.15:
        vm = -vm
    return [jm, am, vm, p0, p1, v0, v1], aim, True


# ------------------------------------------------------------------------------------------------ query times
def spread(r, bounds, t_end):
    """query times: on, one ulp around and between the given boundaries; outside [0,T]; random inside"""
    xs = set()
    bs = sorted(b for b in bounds if finite(b))
    for b in bs:
        xs.update([prv(b), b, nxt(b)])
    for a, b in zip(bs, bs[1:]):
        if b > a:
            for f in (0.5, 0.25, 0.75, 0.001, 0.999):
                xs.add(a + (b - a) * f)
    if finite(t_end) and t_end > 0:
        for _ in range(4):
            xs.add(r.uniform(0, t_end))
        xs.update([-1.0, -t_end, t_end * 1.5 + 1, 2 * t_end])
    else:
        xs.update([-1.0, 0.0, 0.5, 1.0, 3.0])
    return sorted(x for x in xs if finite(x))


def trap_bounds(c):
    return [0.0, c[6], c[7], c[0]]


def bell_bounds(c):
    t, tv, ta, td, taj, tdj = c[:6]
    return [0.0, taj, ta - taj, ta, ta + tv, t - td + tdj, t - tdj, t]


# ------------------------------------------------------------------------------------------------ the property on C output
def feasible_trap(req):
    vm, ac, de, p0, p1, v0, v1 = req
    if not finite(*req) or vm == 0:
        return False
    p = p1 - p0
    return (p >= 0 and ac > 0 and de < 0) or (p < 0 and ac < 0 and de > 0)


def feasible_bell(req):
    jm, am, vm, p0, p1, v0, v1 = req
    if not finite(*req) or jm == 0 or am == 0 or vm == 0:
        return False
    jm, am, vm = abs(jm), abs(am), abs(vm)
    v0, v1 = csat(v0, vm), csat(v1, vm)
    if p0 > p1:
        p0, p1, v0, v1 = -p0, -p1, -v0, -v1
    return p1 - p0 > bell_pmin(jm, am, v0, v1) * (1 + 1e-9) + 1e-300


def steps_oracle(xs, vals, phase_of, lips, scales, what):
    """Lipschitz steps (continuity at and between boundaries) and mean-value brackets inside phases.
    vals[k][i]: k-th quantity (pos, vel, acc, jer) at xs[i]; lips[k]: bound on |quantity k+1|; scales[k]: magnitude of
    quantity k for the tolerance."""
    tgran = 8 * EPS * max(abs(xs[0]), abs(xs[-1]))      # resolution of the time axis (phase boundaries are rounded sums)
    for k in range(len(vals) - 1):
        for i in range(len(xs) - 1):
            dx = xs[i + 1] - xs[i]
            if not dx > 0:
                continue
            d = vals[k][i + 1] - vals[k][i]
            slack = TOL * scales[k] + 8 * EPS * scales[k] + lips[k] * tgran
            if abs(d) > lips[k] * dx * (1 + TOL) + slack:
                return "%s: %s jumps by %.6g between x=%r and x=%r (limit of its derivative %.6g allows %.3g)" % (
                    what, ["pos", "vel", "acc"][k], d, xs[i], xs[i + 1], lips[k], lips[k] * dx)
            if phase_of(xs[i]) == phase_of(xs[i + 1]) and 0 < phase_of(xs[i]) < 99 and dx > 1e-6 * (xs[-1] - xs[0]):
                lo = min(vals[k + 1][i], vals[k + 1][i + 1])
                hi = max(vals[k + 1][i], vals[k + 1][i + 1])
                sl = TOL * scales[k + 1] + 16 * EPS * scales[k] / dx + (lips[k + 1] * tgran if k + 1 < len(lips) else 0)
                if not (lo - sl <= d / dx <= hi + sl):
                    return "%s: slope of %s between x=%r and x=%r is %.9g, outside [%.9g, %.9g] given by %s" % (
                        what, ["pos", "vel", "acc"][k], xs[i], xs[i + 1], d / dx, lo, hi, ["vel", "acc", "jer"][k])
    return None


def trap_oracle(req, ret, c, xs, ev):
    """None or a description of how the property fails on the C's output"""
    if not feasible_trap(req):
        return None
    vm, ac, de, p0, p1, v0, v1 = req
    if ret != ret:
        return "a_trajtrap_gen returned NaN on a feasible request"
    if not ret > 0:
        return None
    vm = abs(vm)
    t, cp0, cp1, cv0, cv1, vc, ta, td, pa, pd, cac, cde = c
    if not finite(*c):
        return "a_trajtrap_gen returned %r > 0 but the context is not finite: %r" % (ret, c)
    sp = max(abs(cp0), abs(cp1), abs(pa), abs(pd), vm * t, vm * vm / min(abs(ac), abs(de)), 1e-300)
    sv = max(vm, abs(ac) * ta, abs(de) * (t - td))
    st = TOL * (t + sp / max(abs(vc), 1e-300))
    chk = [
        ("returned duration is the recorded t", ret == t),
        ("recorded p0/p1 are the requested ones", cp0 == p0 and cp1 == p1),
        ("recorded v0 is the clamped request", cv0 == csat(v0, vm)),
        ("recorded ac/de are the requested ones", cac == ac and cde == de),
        ("0 <= ta <= td <= t", -st <= ta and ta <= td + st and td <= t + st),
        ("vc = v0 + ac*ta", abs(vc - (cv0 + ac * ta)) <= TOL * sv),
        ("pa = p0 + v0*ta + ac*ta^2/2", abs(pa - (cp0 + cv0 * ta + 0.5 * ac * ta * ta)) <= TOL * sp),
        ("pd = pa + vc*(td-ta)", abs(pd - (pa + vc * (td - ta))) <= TOL * sp),
        ("v1 = vc + de*(t-td)", abs(cv1 - (vc + de * (t - td))) <= TOL * sv),
        ("p1 = pd + vc*(t-td) + de*(t-td)^2/2", abs(cp1 - (pd + vc * (t - td) + 0.5 * de * (t - td) ** 2)) <= TOL * sp),
        ("|v0|,|vc|,|v1| <= vm", max(abs(cv0), abs(vc), abs(cv1)) <= vm * (1 + TOL)),
    ]
    for name, ok in chk:
        if not ok:
            return "trapezoid context of a feasible request (t=%r) violates '%s': ctx=%r" % (ret, name, c)
    pos = [e[0] for e in ev]
    vel = [e[1] for e in ev]
    acc = [e[2] for e in ev]
    for x, p_, v_ in zip(xs, pos, vel):
        if -st <= x <= 0 and abs(p_ - cp0) <= TOL * sp and abs(v_ - cv0) <= TOL * sv:
            pass        # ta = 0 up to rounding: the C evaluates the next phase's polynomial at its start, equal up to rounding
        elif x <= 0 and not (p_ == cp0 and v_ == cv0):
            return "trapezoid: query x=%r before the start gives pos %r vel %r, start state is %r %r" % (x, p_, v_, cp0, cv0)
        if t <= x <= t + st and abs(p_ - cp1) <= TOL * sp and abs(v_ - cv1) <= TOL * sv:
            pass        # td = t up to rounding
        elif x >= t and not (p_ == cp1 and v_ == cv1):
            return "trapezoid: query x=%r after the end (t=%r) gives pos %r vel %r, end state is %r %r" % (x, t, p_, v_, cp1, cv1)
        if not abs(v_) <= vm * (1 + TOL):
            return "trapezoid: |vel(%r)| = %r exceeds vm = %r" % (x, abs(v_), vm)

    def phase(x):
        if x >= ta:
            return 2 if x < td else (3 if x < t else 99)
        return 1 if x > 0 else 0
    amax = max(abs(ac), abs(de))
    why = steps_oracle(xs, [pos, vel, acc], phase, [vm, amax], [sp, sv, amax], "trapezoid")
    return why[:600] if why else None


def bell_oracle(req, ret, c, xs, ev):
    if not feasible_bell(req):
        return None
    jm, am, vm, p0, p1, v0, v1 = req
    if ret != ret:
        return "a_trajbell_gen returned NaN on a feasible request"
    if not ret > 0:
        return None
    JM, AM, VM = abs(jm), abs(am), abs(vm)
    t, tv, ta, td, taj, tdj, cp0, cp1, cv0, cv1, cvm, cjm, cam, cdm = c
    if not finite(*c):
        return "a_trajbell_gen returned %r > 0 but the context is not finite: %r" % (ret, c)
    s = -1.0 if cp0 > cp1 else 1.0
    q0, q1, w0, w1 = s * cp0, s * cp1, s * cv0, s * cv1
    # conditioning: the no-cruise formulas compute ta, td as (am*tj + sqrt(D) - 2v)/(2am) with sqrt(D) ~ 2v, so their absolute
    # rounding error is ~ eps*VM/am for the (possibly strongly reduced) acceleration am actually used; positions inherit
    # eps*VM^2/am.  The position tolerance is TOL*(position scale) + 64 times that.
    a_eff = min([a_ for a_ in (cam, -cdm) if a_ > 0] or [AM])
    sp = max(abs(cp0), abs(cp1), VM * t, 1e-300) + 64 * EPS * VM * VM / a_eff / TOL
    st = TOL * t + 64 * EPS * VM / a_eff
    chk = [
        ("returned duration is the recorded t", ret == t),
        ("recorded p0/p1 are the requested ones", cp0 == p0 and cp1 == p1),
        ("recorded v0/v1 are the clamped requests", cv0 == csat(v0, VM) and cv1 == csat(v1, VM)),
        ("recorded jerk is the limit", cjm == JM),
        ("t = ta + tv + td", abs(t - (ta + tv + td)) <= st),
        ("tv >= 0", tv >= 0),
        ("0 <= 2*taj <= ta", -st <= taj and 2 * taj <= ta + st),
        ("0 <= 2*tdj <= td", -st <= tdj and 2 * tdj <= td + st),
        ("am = jm*taj", abs(cam - JM * taj) <= TOL * AM),
        ("dm = -jm*tdj", abs(cdm + JM * tdj) <= TOL * AM),
        ("vm = v0 + am*(ta-taj)", abs(cvm - (w0 + cam * (ta - taj))) <= TOL * VM),
        ("vm = v1 - dm*(td-tdj)", abs(cvm - (w1 - cdm * (td - tdj))) <= TOL * VM),
        ("displacement = (v0+vm)*ta/2 + vm*tv + (vm+v1)*td/2",
         abs((q1 - q0) - (0.5 * (w0 + cvm) * ta + cvm * tv + 0.5 * (cvm + w1) * td)) <= TOL * sp),
        ("|vm| <= velocity limit", abs(cvm) <= VM * (1 + TOL)),
        ("am <= acceleration limit", cam <= AM * (1 + TOL)),
        ("-dm <= acceleration limit", -cdm <= AM * (1 + TOL)),
    ]
    for name, ok in chk:
        if not ok:
            return "bell context of a feasible request (t=%r) violates '%s': ctx=%r" % (ret, name, c)
    pos = [e[0] for e in ev]
    vel = [e[1] for e in ev]
    acc = [e[2] for e in ev]
    jer = [e[3] for e in ev]
    for x, p_, v_, a_, j_ in zip(xs, pos, vel, acc, jer):
        if -st <= x <= 0 and abs(p_ - cp0) <= TOL * sp and abs(v_ - cv0) <= TOL * VM:
            pass        # ta = 0 up to rounding: the C evaluates the next phase's polynomial at its start, equal up to rounding
        elif x <= 0 and not (p_ == cp0 and v_ == cv0):
            return "bell: query x=%r before the start gives pos %r vel %r, start state is %r %r" % (x, p_, v_, cp0, cv0)
        if x >= t and not (p_ == cp1 and v_ == cv1):
            return "bell: query x=%r after the end (t=%r) gives pos %r vel %r, end state is %r %r" % (x, t, p_, v_, cp1, cv1)
        if not abs(v_) <= VM * (1 + TOL) + AM * 8 * EPS * t:
            return "bell: |vel(%r)| = %r exceeds vm = %r" % (x, abs(v_), VM)
        if not abs(a_) <= AM * (1 + TOL) + JM * 8 * EPS * t:        # time resolution: boundaries are rounded sums
            return "bell: |acc(%r)| = %r exceeds am = %r" % (x, abs(a_), AM)
        if not abs(j_) <= JM * (1 + TOL):
            return "bell: |jer(%r)| = %r exceeds jm = %r" % (x, abs(j_), JM)
    bs = [0.0, taj, ta - taj, ta, ta + tv, t - td + tdj, t - tdj, t]

    def phase(x):
        if x < ta:
            if x < taj:
                return 0 if x <= 0 else 1
            return 2 if x < ta - taj else 3
        if x < t - td + tdj:
            return 4 if x < ta + tv else 5
        if x < t:
            return 6 if x < t - tdj else 7
        return 99
    why = steps_oracle(xs, [pos, vel, acc, jer], phase, [VM, AM, JM], [sp, VM, AM, JM], "bell")
    return why[:600] if why else None


# ------------------------------------------------------------------------------------------------ running
_KEY = re.compile(r"\[|\]|\(0x([0-9a-f]+)%uint63,\s*0x([0-9a-f]+)%uint63,\s*(\w+)\)")
_CLS = {"PNormal": 1, "NNormal": -1, "PSubn": 1, "NSubn": -1}


def run_model(ctx, name, exprs, shard=300, timeout=900):
    """Like fcorr.run_model (vm_compute inside coqc, sharded over processes; results as bit strings) but every float is
    printed as (integer mantissa, shifted exponent, class) with primitive integers, which Coq prints ~50x faster than the
    spec_float form.  x = mantissa * 2^(e - 2101 - 53)."""
    from concurrent.futures import ThreadPoolExecutor
    chunks = [exprs[i:i + shard] for i in range(0, len(exprs), shard)]

    def one(k):
        body = ["From Coq Require Import Floats List ZArith.",
                "From LibaV Require Import Common.NumOps Common.FloatOps C14.TrapDefs C14.BellDefs.",
                "Import ListNotations.", "Local Open Scope float_scope.",
                "Definition key (x : float) := let (m, e) := PrimFloat.frshiftexp x in "
                "(PrimFloat.normfr_mantissa m, e, PrimFloat.classify x).",
                "Definition cases : list (list float) := [", ";\n".join(chunks[k]), "].",
                "Eval vm_compute in map (map key) cases."]
        rc, out = ctx.coq_eval("%s_%d" % (name, k), "\n".join(body), timeout=timeout)
        if rc != 0:
            raise vlib.CheckError("model evaluation failed (%s shard %d): %s" % (name, k, out[-1500:]))
        i = out.find("= [")
        if i < 0:
            raise vlib.CheckError("unexpected coqc output: " + out[-800:])
        res, cur, depth = [], None, 0
        for m in _KEY.finditer(out, i + 2):
            tok = m.group(0)
            if tok == "[":
                depth += 1
                if depth == 2:
                    cur = []
            elif tok == "]":
                if depth == 2:
                    res.append(cur)
                    cur = None
                depth -= 1
                if depth == 0:
                    break
            else:
                cls = m.group(3)
                if cls == "NaN":
                    cur.append("nan")
                elif cls in ("PZero", "NZero"):
                    cur.append(fcorr.bits(0.0 if cls == "PZero" else -0.0))
                elif cls in ("PInf", "NInf"):
                    cur.append(fcorr.bits(INF if cls == "PInf" else -INF))
                else:
                    cur.append(fcorr.bits(_CLS[cls] * math.ldexp(int(m.group(1), 16), int(m.group(2), 16) - 2101 - 53)))
        if len(res) != len(chunks[k]):
            raise vlib.CheckError("model evaluation: %d results for %d cases (%s shard %d)" % (len(res), len(chunks[k]), name, k))
        return res
    res = []
    with ThreadPoolExecutor(max_workers=vlib.NPROC) as ex:
        for r_ in ex.map(one, range(len(chunks))):
            res.extend(r_)
    return res


def hexs(vals):
    return " ".join(fcorr.argbits(v) for v in vals)


def c_gen_line(kind, req):
    return ("tgen " + hexs(TRAP_C0) if kind == "trap" else "bgen " + hexs(BELL_C0)) + " " + hexs(req)


def c_ev_line(kind, c, xs):
    return ("tev " if kind == "trap" else "bev ") + hexs(c) + " " + hexs(xs)


def m_gen_expr(kind, req):
    if kind == "trap":
        return "trap_gen_line F64_ops %s %s" % (fcorr.coq_list(TRAP_C0), " ".join(fcorr.coqf(v) for v in req))
    return "bell_gen_line F64_ops %s %s" % (fcorr.coq_list(BELL_C0), " ".join(fcorr.coqf(v) for v in req))


def m_ev_expr(kind, c, xs):
    return "%s_eval_line F64_ops %s %s" % (kind, fcorr.coq_list(c), fcorr.coq_list(xs))


NF = {"trap": 12, "bell": 14}
NQ = {"trap": 3, "bell": 4}
ORACLE = {"trap": trap_oracle, "bell": bell_oracle}
BOUNDS = {"trap": trap_bounds, "bell": bell_bounds}


def c_pipeline(cbin, kind, req, r):
    """run gen + evaluation on the C for one request; -> (ret, ctx, xs, ev) as floats"""
    g = fcorr.run_c(cbin, [c_gen_line(kind, req)])[0]
    vals = [fcorr.fval(b) for b in g]
    ret, c = vals[0], vals[1:1 + NF[kind]]
    xs = spread(r, BOUNDS[kind](c), c[0])
    e = [fcorr.fval(b) for b in fcorr.run_c(cbin, [c_ev_line(kind, c, xs)])[0]]
    q = NQ[kind]
    ev = [e[i * q:(i + 1) * q] for i in range(len(xs))]
    return ret, c, xs, ev


def shrink(cbin, kind, req, seed):
    """simplify a failing request while the oracle still fails on the C's output"""
    def fails(q):
        try:
            ret, c, xs, ev = c_pipeline(cbin, kind, q, random.Random(seed))
        except vlib.CheckError:
            return None
        return ORACLE[kind](q, ret, c, xs, ev)
    cur = list(req)
    why = fails(cur)
    if not why:
        return cur, None
    budget = 120
    changed = True
    while changed and budget > 0:
        changed = False
        for i in range(len(cur)):
            v = cur[i]
            cands = []
            for c_ in (0.0, round(v), round(v, 1), round(v, 2), round(v, 3), round(v, 5)):
                c_ = float(c_)
                if c_ != v and c_ not in cands:
                    cands.append(c_)
            for c_ in cands:
                budget -= 1
                q = cur[:i] + [c_] + cur[i + 1:]
                w = fails(q)
                if w:
                    cur, why, changed = q, w, True
                    break
            if budget <= 0:
                break
    return cur, why


def load_corpus():
    res = []
    if CORPUS.is_dir():
        for f in sorted(CORPUS.glob("*.txt")):
            for ln in f.read_text().splitlines():
                ln = ln.split("#")[0].strip()
                if not ln:
                    continue
                tok = ln.split()
                try:
                    res.append((tok[0], [float.fromhex(x) if "0x" in x.lower() else float(x) for x in tok[1:8]], "corpus:" + f.name))
                except ValueError:
                    pass
    return res


def zero_limit(kind, q):
    """a limit of the request is zero (+0.0 or -0.0): both generators must fail (return 0), /repo b8b7c64"""
    return q[0] == 0 if kind == "trap" else (q[0] == 0 or q[1] == 0 or q[2] == 0)


def run_batch(ctx, cbin, r, n, corpus, st, bi):
    """one batch: n aimed requests per generator (+ the corpus), C vs model bit for bit, the oracle on everything the C produced;
    only counters survive the batch (bounded memory)"""
    reqs = [(k, q, aim, k in ("trap", "bell") and finite(*q)) for (k, q, aim) in corpus]
    for _ in range(n):
        q, aim, ok_ = gen_trap(r)
        reqs.append(("trap", q, aim, ok_))
    for _ in range(n):
        q, aim, ok_ = gen_bell(r)
        reqs.append(("bell", q, aim, ok_))
    # pass 1: generators
    g_lines = [c_gen_line(k, q) for (k, q, _, _) in reqs]
    c_gen = fcorr.run_c(cbin, g_lines)
    # pass 2: evaluation functions on the contexts the C produced, plus on arbitrary (not well-formed) contexts
    evs = []       # (kind, ctx floats, xs, index of request or None)
    for i, (k, q, aim, ok_) in enumerate(reqs):
        vals = [fcorr.fval(b) for b in c_gen[i]]
        c = vals[1:1 + NF[k]]
        if len(c) != NF[k]:
            raise vlib.CheckError("C harness: unexpected output %r for %r" % (c_gen[i], g_lines[i]))
        evs.append((k, c, spread(r, BOUNDS[k](c), c[0]), i))
    for _ in range(n // 5):
        for k in ("trap", "bell"):
            c = [fcorr.rand_double(r, r.choice("mmmie")) for _ in range(NF[k])]
            if r.random() < 0.7:    # ordered times so that every branch of the evaluation code is reachable
                if k == "trap":
                    a, b, t = sorted(abs(fcorr.rand_double(r, "m")) for _ in range(3))
                    c[6], c[7], c[0] = a, b, t
                else:
                    c[4], c[5] = abs(r.uniform(0, 1)), abs(r.uniform(0, 1))
                    c[2], c[3], c[1] = c[4] * r.uniform(0.5, 4), c[5] * r.uniform(0.5, 4), r.choice([0.0, r.uniform(0, 3)])
                    c[0] = c[1] + c[2] + c[3]
            evs.append((k, c, spread(r, BOUNDS[k](c), c[0]), None))
    e_lines = [c_ev_line(k, c, xs) for (k, c, xs, _) in evs]
    c_ev = fcorr.run_c(cbin, e_lines)
    # the model on the same inputs
    m_gen = run_model(ctx, "c14gen", [m_gen_expr(k, q) for (k, q, _, _) in reqs], shard=max(100, len(reqs) // 16 + 1))
    m_ev = run_model(ctx, "c14ev", [m_ev_expr(k, c, xs) for (k, c, xs, _) in evs], shard=max(60, len(evs) // 32 + 1))
    suspects = []
    branch, passes, aims = st["branch"], st["passes"], st["aims"]
    for i, (k, q, aim, ok_) in enumerate(reqs):
        nf = 1 + NF[k]
        extra = [fcorr.fval(b) for b in m_gen[i][nf:]]
        key = "%s:%d" % (k, int(extra[0])) if extra and extra[0] == extra[0] else "%s:?" % k
        branch[key] = branch.get(key, 0) + 1
        if k == "bell" and len(extra) > 1:
            pk = int(extra[1])
            passes[pk] = passes.get(pk, 0) + 1
        if c_gen[i] != m_gen[i][:nf]:
            if zero_limit(k, q):
                # the model has the zero-limit guards of /repo b8b7c64 (return 0); a tree without them goes on planning
                ret = fcorr.fval(c_gen[i][0])
                st["zero_limit_diff"] += 1
                if ret != 0 and k not in st["zero_reported"]:
                    st["zero_reported"].add(k)
                    names = ["vm", "ac", "de", "p0", "p1", "v0", "v1"] if k == "trap" else ["jm", "am", "vm", "p0", "p1", "v0", "v1"]
                    vals = [fcorr.fval(b) for b in c_gen[i]]
                    ctx.report("a_traj%s_gen/zero-limit" % k,
                               "a_traj%s_gen with a zero limit (%s) returned %r instead of 0 (no motion is possible); context %r"
                               % (k, ", ".join("%s=%r" % nv for nv in zip(names, q)), ret, vals[1:]),
                               {"function": "a_traj%s_gen" % k, "request": dict(zip(names, [repr(v) for v in q])),
                                "harness_line": g_lines[i], "fix": "proposed_fixes/C14-1.diff (= /repo b8b7c64)",
                                "how": "echo '<harness_line>' | build/C14/drv   (first word = return value as a bit pattern)"})
                continue    # a failure (return 0) with different left-over context fields is not a difference the property sees
            st["nd"] += 1
            suspects.append(i)
            if st["nd"] <= 3:
                ctx.tie_broken("correspondence C14 %s generator (bit-exact binary64): request %r (aim %s): C %s, model %s"
                               % (k, q, aim, c_gen[i], m_gen[i][:nf]))
    for j, (k, c, xs, i) in enumerate(evs):
        if c_ev[j] != m_ev[j]:
            st["nde"] += 1
            if i is not None:
                suspects.append(i)
            if st["nde"] <= 3:
                q_ = NQ[k]
                d = next((a for a in range(min(len(c_ev[j]), len(m_ev[j]))) if c_ev[j][a] != m_ev[j][a]), 0)
                ctx.tie_broken("correspondence C14 %s evaluation (bit-exact binary64): ctx %r x=%r output %s: C %s, model %s"
                               % (k, c, xs[d // q_] if d // q_ < len(xs) else None, ["pos", "vel", "acc", "jer"][d % q_],
                                  c_ev[j][d] if d < len(c_ev[j]) else None, m_ev[j][d] if d < len(m_ev[j]) else None))
    # search oracle: the property itself on everything the C produced (disagreeing cases first)
    sus = set(suspects)
    order = list(dict.fromkeys(suspects)) + [i for i in range(len(reqs)) if i not in sus]
    for i in order:
        k, q, aim, ok_ = reqs[i]
        aims[k + ":" + aim.split("+")[0]] = aims.get(k + ":" + aim.split("+")[0], 0) + 1
        if not ok_:
            continue
        vals = [fcorr.fval(b) for b in c_gen[i]]
        ret, c = vals[0], vals[1:]
        kk, c2, xs, _ = evs[i]
        e = [fcorr.fval(b) for b in c_ev[i]]
        ev = [e[a * NQ[k]:(a + 1) * NQ[k]] for a in range(len(xs))]
        st["n_checked"] += 1
        if ret > 0:
            st["n_pos"] += 1
        why = ORACLE[k](q, ret, c, xs, ev)
        if why:
            cls = k + "/" + why.split(":")[0][:60]
            if cls in st["seen"] or st["nrep"] >= 4:
                continue
            st["seen"].add(cls)
            st["nrep"] += 1
            sq, swhy = shrink(cbin, k, q, ctx.subseed("shrink"))
            names = ["vm", "ac", "de", "p0", "p1", "v0", "v1"] if k == "trap" else ["jm", "am", "vm", "p0", "p1", "v0", "v1"]
            ctx.report("%s/%s" % (k, (swhy or why).split(":")[0][:40].replace(" ", "_")), (swhy or why),
                       {"function": "a_traj%s_gen + pos/vel/acc" % k, "request": dict(zip(names, [repr(v) for v in sq])),
                        "request_hex": dict(zip(names, [float(v).hex() for v in sq])),
                        "original_request": [repr(v) for v in q], "original_failure": why,
                        "harness_line": c_gen_line(k, sq),
                        "how": "echo '<harness_line>' | build/C14/drv   (prints ret and the context fields as bit patterns); "
                               "corpus line: '%s %s'" % (k, " ".join(float(v).hex() for v in sq))})
    st["n_eval_pts"] += sum(len(xs) for (_, _, xs, _) in evs)
    st["n_reqs"] += len(reqs)
    for i in range(len(reqs)):
        if c_gen[i][0] not in ("nan", "0000000000000000", "8000000000000000"):
            st["nontrivial"].add(hash(g_lines[i]))
    if bi == 0:
        for i in range(0, len(reqs), max(1, len(reqs) // 4)):
            ctx.sample({"kind": reqs[i][0], "aim": reqs[i][2], "request": [repr(v) for v in reqs[i][1]], "c_output": c_gen[i][:4]})


def run(ctx):
    ctx.prove()
    # second tie: both generators and the seven evaluation functions are REGENERATED from the current sources by the translator
    # (`@fuel`: the bisection loop of a_trajbell_gen becomes a Fixpoint on fuel, harness/C14/TieBellGen.v) and proved equal to the
    # hand model, for every NumOps instance
    ctx.translate_and_tie([("src/trajtrap.c", ["a_trajtrap_gen", "a_trajtrap_pos", "a_trajtrap_vel", "a_trajtrap_acc"]),
                           ("src/trajbell.c", ["a_trajbell_gen@fuel", "a_trajbell_pos", "a_trajbell_vel", "a_trajbell_acc", "a_trajbell_jer"])],
                          "GenTraj", [H / "TieTraj.v", H / "TieTrapGen.v", H / "TieBellGen.v"], have=1, real=8)
    ctx.assumptions += ["floating-point rounding is not proved: the WF residuals of every C context are measured with relative "
                        "tolerance %g" % TOL,
                        "C built with gcc -O2 -ffp-contract=off: binary64 operation by operation; sqrt correctly rounded",
                        "zero limits: the model has the guards of /repo commit b8b7c64 (generators return 0); a tree under test "
                        "that does not return 0 on a zero-limit request is reported under the keys a_trajtrap_gen/zero-limit and "
                        "a_trajbell_gen/zero-limit; when both sides return 0 the left-over context fields are not compared"]
    cbin = ctx.cc("drv", [H / "drv.c"], repo_srcs=["trajtrap.c", "trajbell.c"], mode="num")
    ok, outs, failed = ctx.coq_build(["C14/TrapDefs.v", "C14/BellDefs.v", "Common/FloatOps.v"])
    if not ok:
        raise vlib.CheckError("model does not compile: %s" % failed)
    r = random.Random(ctx.subseed("c14"))
    n = 4000
    nb = 1 if ctx.quick else 14       # batches keep the memory of the run (and of each coqc shard) bounded
    st = {"branch": {}, "passes": {}, "aims": {}, "nd": 0, "nde": 0, "n_checked": 0, "n_pos": 0, "seen": set(), "nrep": 0,
          "n_eval_pts": 0, "n_reqs": 0, "nontrivial": set(), "zero_limit_diff": 0, "zero_reported": set()}
    for bi in range(nb):
        run_batch(ctx, cbin, r, n, load_corpus() if bi == 0 else [], st, bi)
    branch = st["branch"]
    ctx.count(evaluations=st["n_reqs"] + st["n_eval_pts"], nontrivial=len(st["nontrivial"]))
    ctx.cov["rule"] = ("evaluations = generator calls + (context, query time) evaluation points, each compared bit for bit; "
                       "distinct_nontrivial = distinct generator requests with a non-zero, non-NaN result. Requests are aimed "
                       "(from VERIF_SEED) at every planning branch and at the branch boundaries (peak-velocity formula = vm^2, "
                       "v0^2, v1^2; cruise time = 0; limit tests; feasibility bound), both directions, clamped and negative "
                       "boundary velocities, integer/dyadic data for exact ties, infeasible, zero-limit and non-finite data; query "
                       "times on, one ulp around and between all phase boundaries, outside [0,T], and on arbitrary contexts; "
                       "%d batch(es) of %d requests per generator" % (nb, n))
    ctx.cov["model_branch_hits"] = dict(sorted(branch.items()))
    ctx.cov["branch_legend"] = ("trap: 0 ac==de, 1 vc2<=0, 2 cruise, 3 acceleration only, 4 acc v12<0, 5 deceleration only, "
                                "6 dec v12<0, 7 acceleration+deceleration, 8 zero velocity limit; bell: 0-3 cruise (bit0: a_max "
                                "not reached in acc phase, bit1: in dec phase), 4 loop accept both, 5 no acceleration phase, 6 no "
                                "deceleration phase, 7/8 negative discriminant, 9 loop exhausted, 10 model fuel exhausted, 11 zero "
                                "limit")
    want = ["trap:%d" % b for b in (0, 1, 2, 3, 5, 7, 8)] + ["bell:%d" % b for b in (0, 1, 2, 3, 4, 5, 6, 9, 11)]
    ctx.cov["model_branches_not_reached"] = [w for w in want if w not in branch]
    ctx.cov["bell_loop_passes_histogram"] = dict(sorted(st["passes"].items()))
    ctx.cov["request_aims"] = dict(sorted(st["aims"].items()))
    ctx.cov["oracle_checked_requests"] = st["n_checked"]
    ctx.cov["oracle_checked_positive_duration"] = st["n_pos"]
    ctx.cov["generator_mismatches"] = st["nd"]
    ctx.cov["evaluation_mismatches"] = st["nde"]
    ctx.cov["zero_limit_requests_differing_from_fixed_model"] = st["zero_limit_diff"]
    __import__("vglue").glue(ctx, "C14")
