"""C17 -- CRC tables/updates, a_u*_rev, BKDR/SDBM hashes.

 1. prove: coq/Properties_C17.v (table-driven = bit-serial division, reflection, concatenation,
    hashes) on the model coq/C17/CrcDefs.v.
 2. tie: the extracted model (OCaml, ExtrOcamlBasic only) and the C compiled from the current
    $VERIF_REPO tree (ASan+UBSan) consume the same case file; canonical lines are compared.
 3. search oracle (only when 1 or 2 broke): an independent bit-at-a-time reference in Python
    evaluates the property itself on what the C printed (tables, values, reflection relation
    between the m and l routines, chunked = one-shot, hashes); hits are shrunk and reported.
"""
import json
import random
from concurrent.futures import ThreadPoolExecutor
from pathlib import Path

try:
    from tools import vlib
except ImportError:  # pragma: no cover
    import vlib

PID = "C17"
WIDTHS = (8, 16, 32, 64)
STD_POLYS = {8: [0x07, 0x31, 0x1D, 0x9B, 0xD5, 0x2F, 0xA7],
             16: [0x1021, 0x8005, 0x3D65, 0x0589, 0x8BB7, 0xA097, 0xC867],
             32: [0x04C11DB7, 0x1EDC6F41, 0x741B8CD7, 0xA833982B, 0x814141AB, 0x000000AF],
             64: [0x42F0E1EBA9EA3693, 0x000000000000001B, 0xAD93D23594C935A9, 0x259C84CBA6426349]}
MULS = {"b": 131, "s": 65599}


# ----------------------------------------------------------------------------------------------
# independent reference (the property itself, executable): bit-at-a-time division
def mirror(x, w):
    r = 0
    for i in range(w):
        if (x >> i) & 1:
            r |= 1 << (w - 1 - i)
    return r


def ref_crc(w, d, poly, data, v):
    mask = (1 << w) - 1
    if d == "m":
        for byte in data:
            for k in range(7, -1, -1):
                top = ((v >> (w - 1)) & 1) ^ ((byte >> k) & 1)
                v = (v << 1) & mask
                if top:
                    v ^= poly
    else:
        rp = mirror(poly, w)
        for byte in data:
            for k in range(8):
                low = (v & 1) ^ ((byte >> k) & 1)
                v >>= 1
                if low:
                    v ^= rp
    return v


def ref_hash(kind, data, v):
    m = MULS[kind]
    for b in data:
        v = (v * m + b) & 0xFFFFFFFF
    return v


def hx(data):
    return bytes(data).hex() if data else "-"


def unhx(s):
    return [] if s == "-" else list(bytes.fromhex(s))


# ----------------------------------------------------------------------------------------------
# case generation.  A "group" is a list of lines that starts with a T line (table state) or
# consists of stateless ops; groups are the unit of sharding and of replay.
def boundary_words(w):
    m = (1 << w) - 1
    s = {0, 1, m, 1 << (w - 1), m ^ 1, m >> 1, 0x80, 0xFF, 0x100 & m, (0xFF << (w - 8)) & m, 1 << (w - 8)}
    s |= {int("55" * (w // 8), 16), int("AA" * (w // 8), 16)}
    return sorted(s)


def gen_data(rng, n, style=None):
    style = style or rng.choice(["rand", "rand", "rand", "ascii", "zeros", "ones", "high", "low", "walk", "sparse"])
    if style == "rand":
        return [rng.getrandbits(8) for _ in range(n)]
    if style == "ascii":
        return [rng.randrange(0x30, 0x3A) for _ in range(n)]
    if style == "zeros":
        return [0] * n
    if style == "ones":
        return [0xFF] * n
    if style == "high":
        return [rng.randrange(0x80, 0x100) for _ in range(n)]
    if style == "low":
        return [rng.randrange(0, 4) for _ in range(n)]
    if style == "walk":
        return [(1 << (i % 8)) for i in range(n)]
    return [rng.choice([0, 0, 0, 0x80, 1, 0xFF, rng.getrandbits(8)]) for _ in range(n)]


LENS = [0, 1, 2, 3, 4, 7, 8, 9, 15, 16, 17, 31, 32, 33, 63, 64, 65, 127, 128, 129, 255, 256, 257, 299, 300]


def gen_len(rng):
    r = rng.random()
    if r < 0.35:
        return rng.choice(LENS)
    if r < 0.75:
        return rng.randrange(0, 40)
    return rng.randrange(0, 301)


def gen_init(rng, w):
    r = rng.random()
    if r < 0.15:
        return 0
    if r < 0.5:
        return rng.choice(boundary_words(w))
    return rng.getrandbits(w)


def crc_ops(rng, w, n_c, n_s, n_a, n_p, maxlen_a=300, n_x=0):
    ops = []
    for _ in range(n_x):
        ops.append("X %x" % gen_init(rng, w))
    for _ in range(n_c):
        ops.append("C %x %s" % (gen_init(rng, w), hx(gen_data(rng, gen_len(rng)))))
    for _ in range(n_s):
        d = gen_data(rng, gen_len(rng))
        k = rng.choice([0, 1, len(d), max(0, len(d) - 1), rng.randrange(0, len(d) + 1)])
        ops.append("S %x %s %d" % (gen_init(rng, w), hx(d), min(k, len(d))))
    for _ in range(n_p):
        d = gen_data(rng, gen_len(rng))
        k2 = rng.randrange(0, len(d) + 1)
        k1 = rng.randrange(0, k2 + 1)
        ops.append("P %x %s %d %d" % (gen_init(rng, w), hx(d), k1, k2))
    for _ in range(n_a):
        n = min(gen_len(rng), maxlen_a)
        ops.append("A %x %s" % (gen_init(rng, w), hx(gen_data(rng, n))))
    return ops


def gen_groups(ctx):
    quick = ctx.quick
    groups = []
    # --- corpus first
    cdir = vlib.VERIF / "corpus" / PID
    for f in sorted(cdir.glob("*.txt")):
        cur = []
        for ln in f.read_text().splitlines():
            ln = ln.strip()
            if not ln or ln.startswith("#"):
                continue
            if ln.startswith("T ") and cur:
                groups.append(cur)
                cur = []
            cur.append(ln)
        if cur:
            groups.append(cur)
    n_corpus = len(groups)
    # --- all 256 8-bit polynomials, both orders, full tables, with messages
    rng = random.Random(ctx.subseed("crc8"))
    for poly in range(256):
        for d in "ml":
            g = ["T 8 %s %x" % (d, poly)]
            # every byte value from several (thorough: all 256) running values: the complete
            # one-step transition relation of the 8-bit register
            inits = sorted({0, 0xFF, 0x80, 1, rng.getrandbits(8), rng.getrandbits(8)}) if quick else range(256)
            g += ["X %x" % v for v in inits]
            g += crc_ops(rng, 8, 16 if quick else 40, 8 if quick else 20, 0, 3 if quick else 6)
            groups.append(g)
    # --- wider: standard + boundary + random polynomials (thorough: 3 rounds with derived seeds)
    n_rand = 400 if quick else 3000
    for rnd in range(1 if quick else 3):
        rng = random.Random(ctx.subseed("crcwide" if rnd == 0 else "crcwide/%d" % rnd))
        for w in (16, 32, 64):
            fixed = list(STD_POLYS[w]) + boundary_words(w) + [1 << i for i in range(w)] if rnd == 0 else []
            polys = fixed + [rng.getrandbits(w) for _ in range(n_rand)]
            for poly in polys:
                for d in "ml":
                    groups.append(["T %d %s %x" % (w, d, poly)] +
                                  crc_ops(rng, w, 8 if quick else 12, 4 if quick else 8, 0, 2 if quick else 3, n_x=2 if quick else 4))
    # --- thorough: every 16-bit polynomial, both orders, full table (+ all byte values from one value)
    if not quick:
        rng = random.Random(ctx.subseed("crc16all"))
        for base in range(0, 65536, 64):
            for d in "ml":
                g = []
                for poly in range(base, base + 64):
                    g.append("T 16 %s %x" % (d, poly))
                    if poly % 16 == 0:
                        g.append("X %x" % rng.getrandbits(16))
                groups.append(g)
    # --- every split point of a message (A), standard and random polynomials
    rng = random.Random(ctx.subseed("splits"))
    for w in WIDTHS:
        for d in "ml":
            for j in range(5 if quick else 24):
                poly = STD_POLYS[w][j % len(STD_POLYS[w])] if j % 2 == 0 else rng.getrandbits(w)
                g = ["T %d %s %x" % (w, d, poly)]
                for n in ([300, 64, 9, 1, 0] if j == 0 else [rng.randrange(0, 301), rng.randrange(0, 40)]):
                    g.append("A %x %s" % (gen_init(rng, w), hx(gen_data(rng, n))))
                groups.append(g)
    # --- bit reversal
    rng = random.Random(ctx.subseed("rev"))
    g = ["R 8 %x" % x for x in range(256)]
    for w in (16, 32, 64):
        xs = set(boundary_words(w)) | {1 << i for i in range(w)} | {((1 << w) - 1) ^ (1 << i) for i in range(w)}
        xs |= {(1 << i) | (1 << j) for i in range(0, w, 3) for j in range(i + 1, w, 5)}
        xs = sorted(xs) + [rng.getrandbits(w) for _ in range(6000 if quick else 100000)]
        g += ["R %d %x" % (w, x) for x in xs]
    if not quick:
        g += ["R 16 %x" % x for x in range(65536)]
    for i in range(0, len(g), 2000):
        groups.append(g[i:i + 2000])
    # --- hashes
    rng = random.Random(ctx.subseed("hash"))
    g = []
    for kind in "bs":
        for v in (0, 1, 0xFFFFFFFF, 0x80000000, 0x7FFFFFFF):
            g.append("N %s %x" % (kind, v))
            g.append("H %s %x -" % (kind, v))
            g.append("Z %s %x 00" % (kind, v))
            g.append("Z %s %x -" % (kind, v))
        for _ in range(5000 if quick else 60000):
            v = rng.choice([0, 0, rng.getrandbits(32), 0xFFFFFFFF, rng.getrandbits(32)])
            d = gen_data(rng, gen_len(rng))
            r = rng.random()
            if r < 0.35:
                g.append("H %s %x %s" % (kind, v, hx(d)))
            elif r < 0.6:
                g.append("K %s %x %s %d" % (kind, v, hx(d), rng.randrange(0, len(d) + 1)))
            elif r < 0.95:
                # string form: NUL-free prefix, terminator, then garbage that must not be read
                s = [b if b else rng.randrange(1, 256) for b in d]
                tail = [rng.getrandbits(8) for _ in range(rng.randrange(0, 4))]
                if rng.random() < 0.2 and s:
                    s[rng.randrange(len(s))] = 0      # early terminator inside
                g.append("Z %s %x %s" % (kind, v, hx(s + [0] + tail)))
                # and the length form of exactly the bytes before the first NUL
                cut = (s + [0]).index(0)
                g.append("H %s %x %s" % (kind, v, hx(s[:cut])))
            else:
                s = [b if b else 1 for b in d]
                g.append("Z %s %x %s" % (kind, v, hx(s)))   # no terminator: both sides say err
    for i in range(0, len(g), 1500):
        groups.append(g[i:i + 1500])
    return groups, n_corpus


# ----------------------------------------------------------------------------------------------
def run_bin(binp, text, timeout=900):
    rc, out, err = vlib.sh2([str(binp)], stdin=text, timeout=timeout)
    return rc, out, err


def run_sharded(binp, shards, timeout=900):
    with ThreadPoolExecutor(max_workers=vlib.NPROC) as ex:
        return list(ex.map(lambda s: run_bin(binp, s, timeout), shards))


def make_shards(groups, n):
    # balance by text size (the model's cost is roughly linear in bytes, quadratic for A ops)
    def cost(g):
        c = 0
        for ln in g:
            if ln[0] == "A":
                c += len(ln) * len(ln) // 8
            elif ln[0] == "T":
                c += 4000
            else:
                c += len(ln)
        return c
    order = sorted(range(len(groups)), key=lambda i: -cost(groups[i]))
    bins = [[0, []] for _ in range(n)]
    for i in order:
        b = min(bins, key=lambda x: x[0])
        b[0] += cost(groups[i])
        b[1].append(i)
    res = []
    for _, idx in bins:
        idx.sort()
        if idx:
            res.append(idx)
    return res


# ----------------------------------------------------------------------------------------------
# search oracle: the property evaluated on the C's output
class Oracle:
    def __init__(self, cbin):
        self.cbin = cbin
        self.runs = 0

    def c_lines(self, lines):
        self.runs += 1
        rc, out, err = run_bin(self.cbin, "\n".join(lines) + "\n", timeout=120)
        if rc != 0:
            return None, (err or out)[-1500:]
        return out.splitlines(), ""

    def check_group(self, group, reflect=True):
        """Return a list of failures: dict(kind, lines, what, expected, observed)."""
        outs, err = self.c_lines(group)
        fails = []
        if outs is None:
            # sanitizer abort / crash: find the shortest prefix that crashes
            lo = 1
            for k in range(1, len(group) + 1):
                o2, e2 = self.c_lines(group[:k])
                if o2 is None:
                    lo = k
                    err = e2
                    break
            t = [ln for ln in group[:lo] if ln[0] == "T"][-1:]
            return [dict(kind="crash", lines=t + [group[lo - 1]] if group[lo - 1][0] != "T" else [group[lo - 1]],
                         what="C harness aborted (sanitizer report or crash): " + " ".join(err.split())[-400:],
                         expected="no abort", observed="abort")]
        if len(outs) != len(group):
            return [dict(kind="output", lines=group[:3], what="C driver printed %d lines for %d ops" % (len(outs), len(group)),
                         expected=len(group), observed=len(outs))]
        w = d = poly = None
        tline = None
        twins = []   # reflection queries
        for ln, out in zip(group, outs):
            tok = ln.split()
            o = out.split()
            op = tok[0]
            if op == "T":
                w, d, poly = int(tok[1]), tok[2], int(tok[3], 16)
                tline = ln
                ent = [int(x, 16) for x in o[4:]]
                for c in range(256):
                    exp = ref_crc(w, d, poly, [c], 0)
                    if c >= len(ent) or ent[c] != exp:
                        fails.append(dict(kind="table", lines=[ln], what="a_crc%d%s_init(poly=0x%x): table[0x%02x]" % (w, d, poly, c),
                                          expected="%x" % exp, observed="%x" % (ent[c] if c < len(ent) else -1), index=c))
                        break
            elif op in ("C", "S", "P", "A"):
                init, data = int(tok[1], 16), unhx(tok[2])
                exp = ref_crc(w, d, poly, data, init)
                obs = [int(x, 16) for x in o[1:]]
                for j, v in enumerate(obs):
                    if v != exp:
                        what = {"C": "one call", "S": "two calls split at %s" % (tok[3] if op == "S" else ""),
                                "P": "three calls", "A": "two calls split at %d" % j}[op]
                        fails.append(dict(kind="crc", lines=[tline, ln if op != "A" else "S %s %s %d" % (tok[1], tok[2], j)],
                                          what="a_crc%d%s poly=0x%x init=0x%x len=%d (%s) differs from bit-serial division"
                                          % (w, d if w > 8 else "(%s table)" % d, poly, init, len(data), what),
                                          expected="%x" % exp, observed="%x" % v))
                        break
                if reflect and op == "C" and len(twins) < 64:
                    twins.append((w, d, poly, init, data, obs[0] if obs else None))
            elif op == "X":
                init = int(tok[1], 16)
                obs = [int(x, 16) for x in o[1:]]
                for b in range(256):
                    exp = ref_crc(w, d, poly, [b], init)
                    if b >= len(obs) or obs[b] != exp:
                        fails.append(dict(kind="crc", lines=[tline, "C %x %02x" % (init, b)],
                                          what="a_crc%d%s poly=0x%x init=0x%x one byte 0x%02x differs from bit-serial division"
                                          % (w, d if w > 8 else "(%s table)" % d, poly, init, b),
                                          expected="%x" % exp, observed="%x" % (obs[b] if b < len(obs) else -1)))
                        break
            elif op == "R":
                ww, x = int(tok[1]), int(tok[2], 16)
                exp = mirror(x, ww)
                if int(o[1], 16) != exp:
                    fails.append(dict(kind="rev", lines=[ln], what="a_u%d_rev(0x%x) is not the bit mirror" % (ww, x),
                                      expected="%x" % exp, observed=o[1]))
            elif op in ("H", "K"):
                init, data = int(tok[2], 16), unhx(tok[3])
                exp = ref_hash(tok[1], data, init)
                if int(o[1], 16) != exp:
                    fails.append(dict(kind="hash", lines=[ln], what="a_hash_%s_ init=0x%x len=%d%s" % (
                        "bkdr" if tok[1] == "b" else "sdbm", init, len(data), " in two pieces split at " + tok[4] if op == "K" else ""),
                        expected="%x" % exp, observed=o[1]))
            elif op == "Z":
                init, mem = int(tok[2], 16), unhx(tok[3])
                if 0 in mem:
                    exp = "%x" % ref_hash(tok[1], mem[:mem.index(0)], init)
                else:
                    exp = "err"
                if o[1] != exp:
                    fails.append(dict(kind="hashstr", lines=[ln], what="a_hash_%s(string) init=0x%x differs from the length form on the bytes before the NUL"
                                      % ("bkdr" if tok[1] == "b" else "sdbm", init), expected=exp, observed=o[1]))
            elif op == "N":
                if int(o[1], 16) != int(tok[2], 16):
                    fails.append(dict(kind="hashnull", lines=[ln], what="hash of NULL string must return val", expected=tok[2], observed=o[1]))
        # reflection relation between the two bit orders, evaluated on C outputs only
        if twins:
            q = []
            for (w_, d_, poly_, init_, data_, _) in twins:
                od = "l" if d_ == "m" else "m"
                q.append("T %d %s %x" % (w_, od, poly_))
                q.append("C %x %s" % (mirror(init_, w_), hx([mirror(b, 8) for b in data_])))
            o2, _ = self.c_lines(q)
            if o2 is not None and len(o2) == len(q):
                for i, (w_, d_, poly_, init_, data_, val) in enumerate(twins):
                    other = int(o2[2 * i + 1].split()[1], 16)
                    if val is not None and mirror(other, w_) != val:
                        fails.append(dict(kind="reflect", lines=["T %d %s %x" % (w_, d_, poly_), "C %x %s" % (init_, hx(data_)), q[2 * i], q[2 * i + 1]],
                                          what="a_crc%d %s-first result is not the bit mirror of the %s-first result on mirrored poly/data/value (poly=0x%x init=0x%x len=%d)"
                                          % (w_, d_, "l" if d_ == "m" else "m", poly_, init_, len(data_)),
                                          expected="%x" % mirror(other, w_), observed="%x" % val))
        return fails

    # ---------------------------------------------------------------- shrinking
    def still_fails(self, lines, kind):
        f = self.check_group(lines, reflect=(kind == "reflect"))
        return any(x["kind"] == kind or x["kind"] == "crash" or kind == "crash" for x in f)

    def shrink(self, fail):
        kind = fail["kind"]
        lines = list(fail["lines"])
        if kind in ("crc", "crash", "reflect") and len(lines) >= 2 and lines[0][0] == "T" and lines[1][0] in "CSPA":
            lines = lines[:2]
            t = lines[0].split()
            w = int(t[1])
            op = lines[1].split()
            data = unhx(op[2])
            init = int(op[1], 16)
            rest = op[3:]

            def mk(poly, init_, data_, rest_=None):
                r = rest if rest_ is None else rest_
                if op[0] in "SP":
                    r = [str(min(int(x), len(data_))) for x in r]
                return ["T %s %s %x" % (t[1], t[2], poly), " ".join([op[0], "%x" % init_, hx(data_)] + r)]
            poly = int(t[3], 16)
            k2 = kind if kind != "reflect" else "crc"
            if kind == "reflect":
                k2 = "reflect"
            # 1. fewer bytes
            data = vlib.ddmin(data, lambda dd: self.still_fails(mk(poly, init, dd), k2), max_tests=120) \
                if len(data) > 1 else data
            if len(data) == 1 and self.still_fails(mk(poly, init, []), k2):
                data = []
            # 2. init to 0 / fewer bits
            if init and self.still_fails(mk(poly, 0, data), k2):
                init = 0
            for i in range(w):
                if (init >> i) & 1 and self.still_fails(mk(poly, init & ~(1 << i), data), k2):
                    init &= ~(1 << i)
            # 3. simpler bytes
            for j in range(len(data)):
                for cand in (0, 1, 0x80):
                    if data[j] != cand:
                        dd = data[:j] + [cand] + data[j + 1:]
                        if self.still_fails(mk(poly, init, dd), k2):
                            data = dd
                            break
            # 4. fewer polynomial bits
            for i in range(w):
                if (poly >> i) & 1 and self.still_fails(mk(poly & ~(1 << i), init, data), k2):
                    poly &= ~(1 << i)
            lines = mk(poly, init, data)
        elif kind == "table":
            t = lines[0].split()
            w, poly = int(t[1]), int(t[3], 16)
            for i in range(w):
                if (poly >> i) & 1:
                    cand = ["T %s %s %x" % (t[1], t[2], poly & ~(1 << i))]
                    if self.still_fails(cand, "table"):
                        poly &= ~(1 << i)
            lines = ["T %s %s %x" % (t[1], t[2], poly)]
        elif kind == "rev":
            t = lines[0].split()
            w, x = int(t[1]), int(t[2], 16)
            for i in range(w):
                if (x >> i) & 1 and self.still_fails(["R %d %x" % (w, x & ~(1 << i))], "rev"):
                    x &= ~(1 << i)
            lines = ["R %d %x" % (w, x)]
        elif kind in ("hash", "hashstr"):
            t = lines[0].split()
            op, hk, init, data = t[0], t[1], int(t[2], 16), unhx(t[3])
            rest = t[4:]

            def mkh(init_, data_):
                r = [str(min(int(x), len(data_))) for x in rest]
                return [" ".join([op, hk, "%x" % init_, hx(data_)] + r)]
            if op == "Z":
                # keep the terminator structure: shrink the part before the first NUL only
                if 0 in data:
                    z = data.index(0)
                    head, tail = data[:z], data[z:]
                    head = vlib.ddmin(head, lambda dd: self.still_fails(mkh(init, dd + tail), kind), max_tests=100) if len(head) > 1 else head
                    data = head + tail
            else:
                data = vlib.ddmin(data, lambda dd: self.still_fails(mkh(init, dd), kind), max_tests=100) if len(data) > 1 else data
            if init and self.still_fails(mkh(0, data), kind):
                init = 0
            lines = mkh(init, data)
        f2 = [x for x in self.check_group(lines, reflect=(kind == "reflect")) if x["kind"] == kind or x["kind"] == "crash"]
        if f2:
            f2[0]["lines"] = lines
            return f2[0]
        return fail


def report_fail(ctx, f):
    lines = f["lines"]
    key = "%s/%s" % (f["kind"], "|".join(lines)[:160].replace(" ", "_"))
    ctx.report(key=key, what="%s: observed %s, expected %s" % (f["what"], f["observed"], f["expected"]),
               replay={"driver": "harness/C17/drv.c", "case_lines": lines, "expected": f["expected"], "observed": f["observed"],
                       "how": "build harness/C17/drv.c with $VERIF_REPO/src/crc.c hash.c and feed case_lines on stdin; "
                              "or: python3 tools/vcheck.py C17 --replay <this file>"},
               found_input=True)


def search(ctx, cbin, suspects, n_fresh):
    """Run the oracle over suspect groups, the corpus and a fresh batch; report shrunk failures."""
    orc = Oracle(cbin)
    seen_kinds = {}
    n_checked = 0

    def handle(group):
        nonlocal n_checked
        n_checked += 1
        for f in orc.check_group(group):
            tag = (f["kind"], group[0].split()[1] if group[0][0] == "T" else "", group[0].split()[2] if group[0][0] == "T" else "")
            if seen_kinds.get(tag, 0) >= 1 or sum(seen_kinds.values()) >= 6:
                continue
            seen_kinds[tag] = seen_kinds.get(tag, 0) + 1
            report_fail(ctx, orc.shrink(f))
    for g in suspects:
        handle(g)
        if sum(seen_kinds.values()) >= 6:
            break
    if not seen_kinds:
        rng = random.Random(ctx.subseed("search"))
        for _ in range(n_fresh):
            w = rng.choice(WIDTHS)
            d = rng.choice("ml")
            poly = rng.choice(STD_POLYS[w] + [rng.getrandbits(w)] * 3)
            handle(["T %d %s %x" % (w, d, poly)] + crc_ops(rng, w, 4, 2, 1, 1, maxlen_a=24))
            if seen_kinds:
                break
    ctx.log("search oracle: %d groups checked, %d C runs, %d failing inputs reported" % (n_checked, orc.runs, sum(seen_kinds.values())))
    return sum(seen_kinds.values())


# ----------------------------------------------------------------------------------------------
def build(ctx):
    cbin = ctx.cc("drv", [vlib.VERIF / "harness" / PID / "drv.c"], repo_srcs=["crc.c", "hash.c"], mode="asan")
    ml = ctx.extract("C17/Extract.v", ["C17/extracted/crcmodel.ml", "C17/extracted/crcmodel.mli"])
    mbin = ctx.ocaml_build("mdrv", [ml[1], ml[0], vlib.VERIF / "harness" / PID / "mdrv.ml"])
    return cbin, mbin


def thorough_proof_recheck(ctx):
    """Thorough tier: rebuild every C17 .vo from clean and re-check the compiled development with coqchk."""
    deps = [d for d in ctx.coq_deps("Properties_%s.v" % PID)]
    ok, outs, failed = ctx.coq_build(["Properties_%s.v" % PID], timeout=1500, force=tuple(deps))
    if not ok:
        ctx.tie_broken("clean rebuild of the C17 development failed: " + ",".join(failed))
        return
    rc, out = vlib.sh(["coqchk", "-silent", "-o", "-Q", ".", "LibaV", "LibaV.Properties_%s" % PID], cwd=vlib.COQ, timeout=1200)
    axioms_none = "* Axioms: <none>" in out
    if rc != 0 or not axioms_none:
        ctx.tie_broken("coqchk on Properties_C17 failed or reports axioms: " + " ".join(out.split())[-400:])
    else:
        ctx.cov["trusted_base"].append("coqchk -o LibaV.Properties_C17: accepted, Axioms: <none>")
        ctx.log("coqchk accepted Properties_C17 (no axioms)")


# translator tie: functions regenerated by tools/c2int.py on every run, in call order (the l generators call a_u*_rev)
INT_CRC = [f for w in WIDTHS for f in (["a_crc8m_init", "a_crc8l_init", "a_crc8"] if w == 8 else
                                         ["a_crc%dm_init" % w, "a_crc%dl_init" % w, "a_crc%dm" % w, "a_crc%dl" % w])]
INT_SOURCES = [("src/a.c", ["a_u8_rev", "a_u16_rev", "a_u32_rev", "a_u64_rev"]),
               ("src/crc.c", INT_CRC),
               ("src/hash.c", ["a_hash_bkdr", "a_hash_bkdr_", "a_hash_sdbm", "a_hash_sdbm_"])]
# fuel the generated call sites pass: generators 257 (outer, c = 0..255) and 9 (inner, b = 8..1); updates and hashes one more
# than the number of cells of the message (the Gallina parameter holding it)
INT_FUEL = dict([("a_crc%d%s_init" % (w, d), ["257%nat", "9%nat"]) for w in WIDTHS for d in "ml"] +
                [(f, ["S (length pdata)"]) for f in INT_CRC if not f.endswith("_init")] +
                [("a_hash_bkdr", ["S (length str_)"]), ("a_hash_sdbm", ["S (length str_)"]),
                 ("a_hash_bkdr_", ["S (length ptr_)"]), ("a_hash_sdbm_", ["S (length ptr_)"])])
INT_TIES = [vlib.VERIF / "harness" / PID / ("TieInt%s.v" % x) for x in ("Rev", "Init", "Crc", "Hash")]


def translator_tie(ctx):
    return ctx.int_translate_and_tie(INT_SOURCES, "CrcGen", INT_TIES, fuel=INT_FUEL)


def run(ctx):
    proved = ctx.prove()
    if proved and not ctx.quick:
        thorough_proof_recheck(ctx)
    # second tie (translator), beside the correspondence: regenerate Gen.CrcGen from the current sources, re-prove the 26 tie theorems
    tie_pool = ThreadPoolExecutor(max_workers=1)
    tie_job = tie_pool.submit(translator_tie, ctx)
    try:
        correspondence(ctx)
    finally:
        tie_job.result()
        tie_pool.shutdown()


def correspondence(ctx):
    cbin, mbin = build(ctx)
    groups, n_corpus = gen_groups(ctx)
    shards_idx = make_shards(groups, vlib.NPROC * 2)
    shards = ["\n".join("\n".join(groups[i]) for i in idx) + "\n" for idx in shards_idx]
    ctx.log("cases: %d groups (%d from corpus), %d lines, %d shards" % (len(groups), n_corpus, sum(len(g) for g in groups), len(shards)))
    c_res = run_sharded(cbin, shards)
    ctx.log("C driver done")
    m_res = run_sharded(mbin, shards)
    ctx.log("model driver done")
    suspects = []
    n_lines = 0
    for idx, (rc, cout, cerr), (rc2, mout, merr) in zip(shards_idx, c_res, m_res):
        cl, ml_ = cout.splitlines(), mout.splitlines()
        flat = [(gi, ln) for gi in idx for ln in groups[gi]]
        n_lines += len(flat)
        if rc2 != 0:
            ctx.tie_broken("model driver failed (rc %d): %s" % (rc2, merr[-300:]))
        if rc != 0:
            ctx.tie_broken("C driver aborted (rc %d): %s" % (rc, " ".join(cerr.split())[-300:]))
        j = vlib.first_diff(cl, ml_)
        while j is not None and len(suspects) < 40:
            gi = flat[j][0] if j < len(flat) else flat[-1][0]
            if not suspects or suspects[-1] is not groups[gi]:
                g = groups[gi]
                if j < len(flat) and flat[j][1][0] != "T" and g[0][0] == "T":
                    suspects.append([g[0], flat[j][1]])      # the table and the disagreeing op
                suspects.append(g)
                if len(suspects) <= 2:
                    ctx.tie_broken("correspondence C vs extracted model: line %d differs: case `%s`  C: %s  model: %s"
                                   % (j, flat[j][1][:120] if j < len(flat) else "?", (cl[j] if j < len(cl) else "<missing>")[:100],
                                      (ml_[j] if j < len(ml_) else "<missing>")[:100]))
            # next differing line in a later group
            nxt = None
            for k in range(j + 1, min(len(cl), len(ml_))):
                if cl[k] != ml_[k] and k < len(flat) and flat[k][0] != gi:
                    nxt = k
                    break
            j = nxt
    if suspects and not ctx.broken_ties:
        ctx.tie_broken("correspondence C vs extracted model differs")
    # ---- second build configuration: A_SIZE_POINTER 4 (the documented configuration macro of a.cmake.h; 32-bit targets): code
    # selected by it must compute the same CRCs and hashes
    cfg4 = ctx.build / "cfg_ptr4.h"
    txt4 = ctx.cfg_header().read_text().replace("#define A_SIZE_POINTER 8", "#define A_SIZE_POINTER 4")
    search_bin = cbin
    if "#define A_SIZE_POINTER 4" in txt4:
        if not cfg4.exists() or cfg4.read_text() != txt4:
            cfg4.write_text(txt4)
        pbin = ctx.cc("drv_ptr4", [vlib.VERIF / "harness" / PID / "drv.c"], repo_srcs=["crc.c", "hash.c"], mode="asan",
                      defines=['A_HAVE_H="%s"' % cfg4])
        p_res = run_sharded(pbin, shards)
        npd = 0
        for idx, (rc, cout, cerr), (rc2, mout, merr) in zip(shards_idx, p_res, m_res):
            cl, ml_ = cout.splitlines(), mout.splitlines()
            flat = [(gi, ln) for gi in idx for ln in groups[gi]]
            j = vlib.first_diff(cl, ml_)
            if rc != 0 or j is not None:
                npd += 1
                if j is not None and j < len(flat):
                    g = groups[flat[j][0]]
                    if flat[j][1][0] != "T" and g[0][0] == "T":
                        suspects.append([g[0], flat[j][1]])
                    suspects.append(g)
                if npd == 1:
                    ctx.tie_broken("correspondence C built with A_SIZE_POINTER 4 vs extracted model: %s" % (
                        "driver aborted: " + " ".join(cerr.split())[-200:] if j is None else
                        "line %d differs: case `%s`  C: %s  model: %s" % (j, flat[j][1][:120] if j < len(flat) else "?",
                                                                        (cl[j] if j < len(cl) else "<missing>")[:100],
                                                                        (ml_[j] if j < len(ml_) else "<missing>")[:100])))
                    search_bin = pbin
        ctx.cov["pointer_size_4_configuration_shards_differing"] = npd
    # ---- evidence
    kinds = {}
    sizes = {"0": 0, "1-8": 0, "9-64": 0, "65-255": 0, "256-300": 0}
    nontrivial = set()
    n_values = 0
    tables = {}
    for g in groups:
        for ln in g:
            op = ln[0]
            kinds[op] = kinds.get(op, 0) + 1
            tok = ln.split()
            if op == "T":
                tables[(tok[1], tok[2])] = tables.get((tok[1], tok[2]), 0) + 1
                if int(tok[3], 16) != 0:
                    nontrivial.add(ln)
                continue
            elif op in "CSPAHKZ":
                dh = tok[2] if op in "CSPA" else tok[3]
                n = 0 if dh == "-" else len(dh) // 2
                sizes["0" if n == 0 else "1-8" if n <= 8 else "9-64" if n <= 64 else "65-255" if n <= 255 else "256-300"] += 1
                if n > 0:
                    nontrivial.add(ln)
            elif op == "R":
                if int(tok[2], 16) != 0:
                    nontrivial.add(ln)
            elif op == "X":
                nontrivial.add(g[0] + "|" + ln)
                n_values += 255
    ctx.count(evaluations=n_lines, nontrivial=len(nontrivial))
    ctx.cov["rule"] = ("evaluations = operation lines executed by both the C driver and the extracted model and compared; "
                       "distinct_nontrivial = distinct lines with a non-zero polynomial (T), non-empty data (C/S/P/A/H/K/Z) or non-zero argument (R)")
    ctx.cov["op_counts"] = kinds
    ctx.cov["values_compared"] = n_lines + n_values + 255 * kinds.get("T", 0)
    ctx.cov["tables_by_width_order"] = {"%s%s" % k: v for k, v in sorted(tables.items())}
    ctx.cov["data_length_histogram"] = sizes
    ctx.cov["crc8_polynomials_exhaustive"] = 256
    # model branches exercised (derived from the case lines: which definition of CrcDefs.v each op runs)
    br = {"crc8_byte(m table)": 0, "crc8_byte(l table)": 0, "crcm_byte": 0, "crcl_byte": 0,
          "crc_loop []": 0, "hash_str Some": 0, "hash_str None (no terminator)": 0, "hash_str_ptr NULL": kinds.get("N", 0),
          "hash_len": kinds.get("H", 0) + kinds.get("K", 0), "a_rev": kinds.get("R", 0),
          "m_init_entry": 0, "l_init_entry": 0}
    for g in groups:
        cw = cd = None
        for ln in g:
            tok = ln.split()
            if tok[0] == "T":
                cw, cd = tok[1], tok[2]
                br["m_init_entry" if cd == "m" else "l_init_entry"] += 256
            elif tok[0] in "CSPAX" and cw:
                key = ("crc8_byte(%s table)" % cd) if cw == "8" else ("crcm_byte" if cd == "m" else "crcl_byte")
                br[key] += 1
                if tok[0] != "X" and tok[2] == "-":
                    br["crc_loop []"] += 1
            elif tok[0] == "Z":
                br["hash_str Some" if (tok[3] != "-" and 0 in unhx(tok[3])) else "hash_str None (no terminator)"] += 1
    ctx.cov["model_branch_ops"] = br
    ctx.cov["model_branches_not_reached"] = [k for k, v in br.items() if v == 0] + \
        ["tab_get None (out-of-range table read): unreachable with generated tables (theorems crc_table_eq_bits_*), "
         "exercised only by Example short_table_fails"]
    for g in groups[n_corpus:n_corpus + 3] + groups[-1:]:
        ctx.sample({"case": [x[:100] for x in g[:2]]})
    # ---- search oracle when something broke
    if ctx.broken_ties:
        corpus_groups = groups[:n_corpus]
        search(ctx, search_bin, suspects + corpus_groups, n_fresh=150 if ctx.quick else 1500)


def replay(ctx, path):
    obj = json.loads(Path(path).read_text())
    lines = obj["replay"]["case_lines"]
    cbin = ctx.cc("drv", [vlib.VERIF / "harness" / PID / "drv.c"], repo_srcs=["crc.c", "hash.c"], mode="asan")
    orc = Oracle(cbin)
    fails = orc.check_group(lines)
    outs, err = orc.c_lines(lines)
    print("case:", *lines, sep="\n  ")
    print("C output:", *[(x if len(x) < 200 else x[:200] + " ...") for x in (outs or [err])], sep="\n  ")
    if fails:
        for f in fails:
            print("STILL FAILING: %s: observed %s expected %s" % (f["what"], f["observed"], f["expected"]))
        return 1
    print("property holds on this input now")
    return 0


META = {
    "text": "Rocq theorems for EVERY width (8/16/32/64), generator polynomial, initial value and byte string: table entry c = "
            "bit-serial CRC of the one-byte message [c]; the table-driven CRC (both bit orders) equals bit-at-a-time polynomial "
            "division (with the GF(2)[x] remainder identity); the l variants are the m variants under bit reflection of "
            "polynomial, data and value (stated with the library's own a_u*_rev, proved = bit mirror and involutive by GF(2) "
            "lifting); feeding in pieces at every split point equals one shot, for the CRCs and both multiplicative hashes; "
            "string and length-delimited hash forms agree on NUL-free input. Two ties on every run: (1) translator tie - "
            "tools/c2int.py regenerates a Gallina model over N from the current src/crc.c, src/hash.c and the a_u*_rev of a.h "
            "(wrap at every unsigned + * <<, signed-overflow / shift / bounds checks = None, every loop a fuel-indexed Fixpoint, "
            "tables and messages as lists read with nth_error, table stores as checked list updates) and 26 theorems "
            "tie_<function> (harness/C17/TieInt*.v) prove each regenerated function equal to the model of coq/C17/CrcDefs.v for "
            "ALL inputs: the eight generators a_crc{8,16,32,64}{m,l}_init for every polynomial and every 256-cell table, "
            "a_crc8 and a_crc{16,32,64}{m,l} for every table, start value and message of ANY length, a_hash_bkdr/sdbm and "
            "their length-delimited forms for every byte list (NULL included), a_u8/16/32/64_rev for every word; (2) extracted "
            "model vs the C under ASan+UBSan - all 256 8-bit polynomials x full tables x both orders, sampled (thorough: all "
            "16-bit) wider polynomials, messages 0..300 bytes, non-zero inits, every split point.",
    "note": "Trusted: Coq kernel/vm_compute (basis sweeps of w words); the translator tools/c2int.py as a reading of the C (its "
            "output is re-tied to the model by proof on every run; the extracted-model-vs-C correspondence is the independent "
            "guard against a misreading shared with the hand model); extraction (ExtrOcamlBasic only) + drivers.  Tie "
            "hypotheses: message cells < 2^8, table cells < 2^w (needed for the 32/64-bit updates only), message length < "
            "2^64 and nbyte = that length, start value < 2^w; the loops get fuel length+1 (updates, hashes), 257 and 9 "
            "(generators).  Translator limits: signed values that can be negative are carried in Z, signed OVERFLOW is an "
            "error of the generated program (the ties show it never happens); forming a pointer past a buffer is "
            "not checked, only accesses are; C strings are byte lists (running off the list before a 0 byte is an error on "
            "both sides).  No axioms (Print Assumptions under every tie theorem: closed).",
    "technique": "Rocq proof (xor-linearity of the CRC step, induction over the message, GF(2) lifting for bit reversal) + translator "
                 "tie (c2int: regenerated integer model = proved model, 26 theorems re-proved per run, induction over the message / "
                 "table index) + extracted-model vs C correspondence",
}
