"""C02 - red-black tree (src/rbt.c, include/a/rbt.h).

  1. prove:   coq/Properties_C02.v (theorems about the executable model coq/C02/RbtDefs.v)
  2. tie:     the extracted model (harness/C02/rbt_mdrv.ml) and the C implementation compiled from the
              CURRENT $VERIF_REPO/src/rbt.c (harness/C02/rbt_drv.c, ASan+UBSan) run the same histories;
              after EVERY operation both print return value, root, node count and the left/right/parent/
              colour record of every node (delta-encoded); the outputs must be identical.
  2b. tie 2: translator tools/c2rbt.py (wired by tools/vrbt.py): the helpers of rbt.c (a_rbt_color, a_rbt_new_child,
              a_rbt_set_parent_color, a_rbt_set_parent, a_rbt_set_black, a_rbt_set_parents), a_rbt_parent / a_rbt_init of rbt.h and
              a_rbt_insert_adjust, a_rbt_remove_adjust, a_rbt_remove, a_rbt_insert, a_rbt_search with their loops regenerated as
              checked heap programs from the current sources in both node layouts and proved (harness/C02/TieRbt*.v +
              coq/C02/RbtTieLemmas*.v) to implement RbtDefs.insert / del (unlink + resolution) / find on every heap that lays
              the tree out.
  3. oracle:  when the tie breaks, the property itself (root black, no red-red, equal black height, BST,
              parent links, element set, return values) is evaluated in Python on the C's full dump of
              the disagreeing cases, the corpus and a fresh batch; hits are shrunk by delta debugging.
"""
import itertools
import random
import re
from concurrent.futures import ThreadPoolExecutor
from pathlib import Path

try:
    from tools import vlib, vrbt
except ImportError:  # pragma: no cover
    import vlib
    import vrbt

PID = "C02"
HARN = vlib.VERIF / "harness" / PID
CORPUS = vlib.VERIF / "corpus" / PID

ALL_TAGS = """I_link I_dup I_root_black I_parent_black I_parent_red
I_case1_L I_case2_L I_case3_L I_case1_R I_case2_R I_case3_R I_case2_sub I_case3_sub
U_leaf_red U_leaf_black U_right_only U_left_only U_succ_child U_succ_deep U_child2 U_succ_black U_succ_red
F_case1_L F_case2_red_L F_case2_black_L F_case3_L F_case4_L
F_case1_R F_case2_red_R F_case2_black_R F_case3_R F_case4_R F_case3_sub F_case4_sub F_root
R_absent S_found S_absent""".split()
# F_null_mirror is proved unreachable (RbtInvProofs.null_mirror_unreachable); it is reported if ever hit.


# ------------------------------------------------------------------------------------------- cases
def fmt_case(n, ops):
    out = ["H %d" % n]
    for o in ops:
        if o[0] == "I":
            out.append("I %d %d" % (o[1], o[2]))
        else:
            out.append("%s %d" % (o[0], o[1]))
    return "\n".join(out) + "\n"


def parse_case_file(text):
    """corpus file -> list of op lists"""
    cases, cur = [], None
    for ln in text.splitlines():
        ln = ln.strip()
        if not ln or ln.startswith("#"):
            continue
        f = ln.split()
        if f[0] == "H":
            cur = []
            cases.append(cur)
        elif cur is None:
            continue
        elif f[0] == "I":
            cur.append(("I", int(f[1]), int(f[2])))
        elif f[0] in ("R", "S"):
            cur.append((f[0], int(f[1])))
    return cases


def gen_perms(n, rng=None, sample=None):
    """every insertion order of keys 1..n followed by every removal order (or a sample of pairs)."""
    keys = list(range(1, n + 1))
    if sample is None:
        for a in itertools.permutations(keys):
            ins = [("I", k, j + 1) for j, k in enumerate(a)]
            for b in itertools.permutations(keys):
                yield ins + [("R", k) for k in b]
    else:
        for _ in range(sample):
            a = keys[:]
            b = keys[:]
            rng.shuffle(a)
            rng.shuffle(b)
            yield [("I", k, j + 1) for j, k in enumerate(a)] + [("R", k) for k in b]


class _Live:
    """resident keys with O(1) uniform choice / removal"""

    def __init__(self):
        self.ks, self.pos, self.idof = [], {}, {}

    def add(self, k, i):
        self.pos[k] = len(self.ks)
        self.ks.append(k)
        self.idof[k] = i

    def pop(self, k):
        j = self.pos.pop(k)
        last = self.ks.pop()
        if last != k:
            self.ks[j] = last
            self.pos[last] = j
        return self.idof.pop(k)

    def choice(self, rng):
        return self.ks[rng.randrange(len(self.ks))]


def gen_random(rng, length, krange, p_ins=0.5, p_rem=0.4, offset=0):
    """interleaved history; ids of removed / rejected nodes are reused (with new keys)."""
    ops, live, free, nxt = [], _Live(), [], 1
    for _ in range(length):
        x = rng.random()
        k = rng.randrange(krange) + offset
        if x < p_ins:
            if live.ks and rng.random() < 0.08:
                k = live.choice(rng)                       # duplicate on purpose
                if rng.random() < 0.5:                     # ... and the resident node object itself, offered again (C03-18):
                    ops.append(("I", k, live.idof[k]))     # "returns the resident element unchanged" - nothing may be written
                    ops.append(("S", k))
                    continue
            if free and rng.random() < 0.6:
                i = free.pop(rng.randrange(len(free)))
            else:
                i = nxt
                nxt += 1
            ops.append(("I", k, i))
            if k in live.pos:
                free.append(i)
            else:
                live.add(k, i)
        elif x < p_ins + p_rem:
            if live.ks and rng.random() < 0.85:
                k = live.choice(rng)
            ops.append(("R", k))
            if k in live.pos:
                free.append(live.pop(k))
        else:
            if live.ks and rng.random() < 0.5:
                k = live.choice(rng)
            ops.append(("S", k))
    return ops


def gen_directed(rng, m):
    """monotone / zig-zag builds (long black spines, one-sided red nodes) torn down from one side, from
    the middle, from the root; and `every node removed once` from such trees."""
    out = []
    orders = {
        "asc": list(range(1, m + 1)),
        "desc": list(range(m, 0, -1)),
        "zigzag": [x for p in zip(range(1, m // 2 + 1), range(m, m // 2, -1)) for x in p],
        "inout": sorted(range(1, m + 1), key=lambda x: abs(x - m // 2)),
    }
    for name, order in orders.items():
        ins = [("I", k, j + 1) for j, k in enumerate(order)]
        present = sorted(set(order))
        rems = {
            "asc": present,
            "desc": present[::-1],
            "mid": sorted(present, key=lambda x: abs(x - m // 2)),
            "ends": [x for p in zip(present[:len(present) // 2], present[::-1]) for x in p],
        }
        for rn, ro in rems.items():
            out.append(ins + [("R", k) for k in ro])
        # every resident node object offered a second time (root, inner nodes, leaves), everything searched, then torn down
        first = {}
        for j, k in enumerate(order):
            first.setdefault(k, j + 1)
        out.append(ins + [op for k in present for op in (("I", k, first[k]), ("S", k))] + [("S", k) for k in present] + [("R", k) for k in present])
        # remove the minimum / maximum alternately with re-insertion at the other end (sliding window)
        ops = list(ins)
        lo, hi, nid = 1, m, m + 1
        for _ in range(m):
            ops.append(("R", lo))
            lo += 1
            hi += 1
            ops.append(("I", hi, nid))
            nid += 1
        out.append(ops)
    return out


def gen_each_removed(order):
    ins = [("I", k, j + 1) for j, k in enumerate(order)]
    for k in sorted(order):
        yield ins + [("R", k), ("S", k)] + [("I", k, len(order) + 1)]


def distinct_insert_trees(mbin, n):
    """All n! insertion orders of keys 1..n (node id = key, so that the dump depends on the shape only) are
    run through the model; one representative order is kept per distinct resulting tree.
    Returns (all insertion-only cases, representatives)."""
    keys = list(range(1, n + 1))
    orders = list(itertools.permutations(keys))
    cases = [[("I", k, k) for k in o] for o in orders]
    text = "".join(fmt_case(j, ops) for j, ops in enumerate(cases))
    rc, out, err = vlib.sh2([str(mbin), "full"], stdin=text, timeout=300)
    if rc != 0:
        raise vlib.CheckError("model driver failed while enumerating insertion orders: " + err[-300:])
    reps = {}
    for o, lines in zip(orders, split_cases(out)):
        reps.setdefault(lines[-1].split(" ", 2)[2], o)
    return cases, list(reps.values())


def gen_reps_all_removals(reps, n):
    keys = list(range(1, n + 1))
    for o in reps:
        ins = [("I", k, k) for k in o]
        for b in itertools.permutations(keys):
            yield ins + [("R", k) for k in b]


def build_batches(ctx, mbin):
    """list of (name, [ops, ...]); corpus first.  All randomness from ctx.subseed()."""
    q = ctx.quick
    batches = []
    corpus = []
    for f in sorted(CORPUS.glob("*.txt")):
        corpus.extend(parse_case_file(f.read_text()))
    batches.append(("corpus", corpus))
    # (a) exhaustive small histories
    nfull = 5 if q else 6
    for n in range(1, nfull + 1):
        cs = list(gen_perms(n))
        if n == 6:
            k = len(cs) // 6
            for j in range(6):
                batches.append(("perm6.%d" % j, cs[j * k:(j + 1) * k if j < 5 else len(cs)]))
        else:
            batches.append(("perm%d" % n, cs))
    # every insertion order of n keys (compared on both sides), then every removal order from every DISTINCT
    # tree the insertion orders produce (orders leading to the same tree are merged; node id = key)
    shapes = {}
    for n in ([6] if q else [6, 7]):
        ins_cases, reps = distinct_insert_trees(mbin, n)
        shapes[n] = len(reps)
        batches.append(("ins%d" % n, ins_cases))
        cs = list(gen_reps_all_removals(reps, n))
        parts = max(1, len(cs) // 60000)
        k = (len(cs) + parts - 1) // parts
        for j in range(parts):
            batches.append(("shape%d.%d" % (n, j), cs[j * k:(j + 1) * k]))
    if not q:
        # 8 keys: every insertion order, then a sample of removal orders from every distinct tree
        rng8 = random.Random(ctx.subseed("shape8"))
        ins_cases, reps = distinct_insert_trees(mbin, 8)
        shapes[8] = len(reps)
        for j in range(4):
            batches.append(("ins8.%d" % j, ins_cases[j::4]))
        cs = []
        for o in reps:
            ins = [("I", k, k) for k in o]
            for _ in range(1500):
                b = list(o)
                rng8.shuffle(b)
                cs.append(ins + [("R", k) for k in b])
        for j in range(3):
            batches.append(("shape8s.%d" % j, cs[j::3]))
    ctx.cov["distinct_trees_from_insertion_orders"] = shapes
    rng = random.Random(ctx.subseed("perm-sample"))
    if q:
        batches.append(("perm7s", list(gen_perms(7, rng, 1500))))
    else:
        for j in range(4):
            batches.append(("perm7s.%d" % j, list(gen_perms(7, rng, 15000))))
        batches.append(("perm9s", list(gen_perms(9, rng, 10000))))
    # (b) interleaved random histories
    seeds = [0] if q else [0, 1, 2, 3, 4]
    for s in seeds:
        rng = random.Random(ctx.subseed("random-%d" % s))
        cs = []
        plan = ([(8, 40, 250), (16, 100, 120), (64, 200, 120), (1 << 20, 300, 60), (64, 1000, 12), (1 << 20, 4096, 3), (600, 4096, 2)]
                if q else
                [(8, 40, 3000), (16, 100, 1500), (64, 200, 1000), (64, 1000, 150), (1 << 20, 300, 400),
                 (300, 2000, 40), (1 << 20, 4096, 12), (600, 4096, 10), (3000, 4096, 6)])
        for krange, length, count in plan:
            for _ in range(count):
                mix = rng.choice([(0.5, 0.4), (0.6, 0.3), (0.35, 0.55), (0.45, 0.45)])
                off = rng.choice([0, -krange // 2, -(1 << 40), (1 << 40)])
                cs.append(gen_random(rng, length, krange, mix[0], mix[1], off))
        # grow-then-shrink phases: big tree, then mostly removals down to empty
        for length in ([300, 1500] if q else [300, 1500, 4000, 4000]):
            ops = gen_random(rng, length, 1 << 20, 0.85, 0.1)
            live = {}
            for o in ops:
                if o[0] == "I" and o[1] not in live:
                    live[o[1]] = o[2]
                elif o[0] == "R":
                    live.pop(o[1], None)
            ks = list(live)
            rng.shuffle(ks)
            cs.append(ops + [("R", k) for k in ks])
        batches.append(("random.%d" % s, cs))
    # (c) directed
    rng = random.Random(ctx.subseed("directed"))
    cs = []
    for m in ([7, 15, 16, 31, 33, 64] if q else [7, 8, 15, 16, 17, 31, 32, 33, 63, 64, 65, 127, 128, 255, 256, 700]):
        cs.extend(gen_directed(rng, m))
    for m in ([10, 21] if q else [10, 21, 40, 85, 130]):
        cs.extend(gen_each_removed(list(range(1, m + 1))))
        cs.extend(gen_each_removed(list(range(m, 0, -1))))
        o = list(range(1, m + 1))
        rng.shuffle(o)
        cs.extend(gen_each_removed(o))
    batches.append(("directed", cs))
    # de-duplicate across everything (so that `cases` are distinct canonical cases)
    seen, res = set(), []
    for name, cs in batches:
        keep = []
        for ops in cs:
            key = tuple(ops)
            if key and key not in seen:
                seen.add(key)
                keep.append(ops)
        if keep:
            res.append((name, keep))
    return res


# ------------------------------------------------------------------------------------------ oracle
LINE = re.compile(r"^([irs]) (\S+) root=(\d+) n=(\d+) \|(.*)$")


def oracle_case(ops, lines):
    """Executable statement of property C02 on the C implementation's FULL dump of one case.
    Returns None or (op index, kind, message)."""
    res, keyof = {}, {}
    if len(lines) < len(ops):
        return (len(lines), "crash", "implementation produced %d of %d result lines (crash / sanitizer abort / hang)"
                % (len(lines), len(ops)))
    for idx, (o, ln) in enumerate(zip(ops, lines)):
        m = LINE.match(ln)
        if not m:
            return (idx, "output", "unparsable line %r" % ln[:200])
        opc, ret, root, n, recs = m.group(1), m.group(2), int(m.group(3)), int(m.group(4)), m.group(5)
        # ---- return values and the abstract set
        if o[0] == "I":
            _, k, i = o
            if k in res:
                exp = "dup:%d" % res[k]
            else:
                exp = "ok"
                res[k] = i
                keyof[i] = k
        elif o[0] == "R":
            k = o[1]
            if k in res:
                exp = "rm:%d" % res[k]
                del res[k]
            else:
                exp = "none"
        else:
            k = o[1]
            exp = ("found:%d" % res[k]) if k in res else "none"
        if ret != exp:
            return (idx, "retval", "op %s returned %s, expected %s" % (" ".join(map(str, o)), ret, exp))
        if "CYCLE" in recs:
            return (idx, "cycle", "a node is reachable twice through left/right links")
        # ---- structure
        node = {}
        for r in recs.split():
            a, b = r.split(":")
            node[int(a)] = tuple(int(x) for x in b.split(","))
        if (root == 0) != (n == 0) or len(node) != n:
            return (idx, "shape", "root=%d n=%d records=%d" % (root, n, len(node)))
        if set(node) != set(res.values()):
            return (idx, "elements", "tree holds nodes %s, expected %s"
                    % (sorted(node)[:20], sorted(res.values())[:20]))
        if root:
            if root not in node:
                return (idx, "shape", "root %d has no record" % root)
            if node[root][2] != 0:
                return (idx, "parent-link", "root %d has parent %d" % (root, node[root][2]))
            if node[root][3] != 1:
                return (idx, "root-red", "root %d is red" % root)
            seen = set()
            # iterative post-order: (black height, min key, max key)
            info = {}
            stack = [(root, 0)]
            while stack:
                v, st = stack.pop()
                l, r, p, c = node[v]
                if st == 0:
                    if v in seen:
                        return (idx, "cycle", "node %d reachable twice" % v)
                    seen.add(v)
                    stack.append((v, 1))
                    for ch in (l, r):
                        if ch:
                            if ch not in node:
                                return (idx, "shape", "child %d of %d not in tree" % (ch, v))
                            if node[ch][2] != v:
                                return (idx, "parent-link", "node %d is a child of %d but its parent field is %d"
                                        % (ch, v, node[ch][2]))
                            if c == 0 and node[ch][3] == 0:
                                return (idx, "red-red", "red node %d has red child %d" % (v, ch))
                            stack.append((ch, 0))
                else:
                    bl, lo_l, hi_l = info[l] if l else (0, None, None)
                    br, lo_r, hi_r = info[r] if r else (0, None, None)
                    if bl != br:
                        return (idx, "black-height", "node %d: black height %d on the left, %d on the right" % (v, bl, br))
                    kv = keyof[v]
                    if (hi_l is not None and hi_l >= kv) or (lo_r is not None and lo_r <= kv):
                        return (idx, "bst", "order violated at node %d (key %d)" % (v, kv))
                    info[v] = (bl + c, lo_l if lo_l is not None else kv, hi_r if hi_r is not None else kv)
            if len(seen) != n:
                return (idx, "shape", "%d nodes reachable, n=%d" % (len(seen), n))
    return None


def well_formed(ops):
    """the caller obligation of the API: a node that is linked in the tree is not inserted again under another key.  Offering
    the resident node object itself a second time (same key) is a duplicate insertion like any other: "returns the resident
    element unchanged" (seeded change C03-18)"""
    res, linked = {}, set()
    for o in ops:
        if o[0] == "I":
            _, k, i = o
            if i < 1 or (i in linked and res.get(k) != i):
                return False
            if k not in res:
                res[k] = i
                linked.add(i)
        elif o[0] == "R" and o[1] in res:
            linked.discard(res.pop(o[1]))
    return True


def sanitizer_summary(text):
    for ln in text.splitlines():
        if "runtime error" in ln or "ERROR: AddressSanitizer" in ln or "SUMMARY" in ln:
            return ln.strip()[:300]
    return " ".join(text.split())[-300:]


def split_cases(text):
    """driver output -> list of line lists, one per case (without the H line)."""
    cases = []
    for ln in text.splitlines():
        if ln.startswith("H "):
            cases.append([])
        elif cases:
            cases[-1].append(ln)
    return cases


class Runner:
    def __init__(self, ctx, cbin, mbin, config="packed (A_SIZE_POINTER 8)"):
        self.ctx, self.cbin, self.mbin, self.config = ctx, cbin, mbin, config

    def c_full(self, ops, timeout=20):
        """full dump of one case from the C implementation: (lines, rc, tail of output)"""
        rc, out = vlib.sh([str(self.cbin), "full"], stdin=fmt_case(0, ops), timeout=timeout,
                          env={"ASAN_OPTIONS": "detect_leaks=0"})
        cs = split_cases(out)
        lines = cs[0] if cs else []
        if rc != 0:
            # keep only well-formed result lines; the rest is the sanitizer report
            good = []
            for ln in lines:
                if LINE.match(ln):
                    good.append(ln)
                else:
                    break
            return good, rc, out[-1500:]
        return lines, rc, ""

    def fails(self, ops):
        lines, rc, tail = self.c_full(ops, timeout=6 if len(ops) <= 1500 else 25)
        r = oracle_case(ops, lines)
        if rc != 0:
            why = ("no answer within the time limit (endless loop)" if rc == 124
                   else "exit status %d: %s" % (rc, sanitizer_summary(tail)))
            if r is None or r[1] == "crash":
                r = (len(lines), "hang" if rc == 124 else "crash",
                     "operation %d (%s): %s" % (len(lines), " ".join(map(str, ops[len(lines)])) if len(lines) < len(ops) else "?", why))
        return r


def shrink(runner, ops, first, budget=30.0):
    """cut after the failing op, then delta-debug the op list; candidates must stay well-formed histories;
    any failure of the property counts.  Bounded by a wall-clock budget."""
    import time
    t_end = time.time() + budget
    ops = list(ops[:first[0] + 1])

    def pred(cand):
        if time.time() > t_end or not well_formed(cand):
            return False
        return runner.fails(cand) is not None

    ops = vlib.ddmin(ops, pred, max_tests=300)
    return ops, runner.fails(ops)


def report_failure(ctx, runner, ops, first, origin):
    small, f = shrink(runner, ops, first)
    if f is None:           # cannot happen (ddmin keeps the predicate), be safe
        small, f = ops, first
    lines, rc, tail = runner.c_full(small)
    text = fmt_case(0, small).splitlines()[1:]
    ctx.report(key="rbt/%s" % f[1],
               what="%s after %d operations (%s): %s" % (f[1], len(small), origin, f[2]),
               replay={"case": text, "failing_op_index": f[0], "kind": f[1], "message": f[2],
                       "implementation_output": lines[-6:], "exit_status": rc, "stderr_tail": tail[-800:],
                       "configuration": runner.config, "binary": str(runner.cbin),
                       "how": "printf 'H 0\\n<case lines>' | <binary> full   (or: tools/vcheck.py C02 --replay <this file>)"},
               found_input=True)
    return f[1]


# --------------------------------------------------------------------------------------------- run
def run_batch(args):
    name, text, cbin, mbin, tmo = args
    rc_c, c_out = vlib.sh([str(cbin)], stdin=text, timeout=tmo, env={"ASAN_OPTIONS": "detect_leaks=0"})
    if mbin is None:
        return name, rc_c, c_out, 0, "", ""
    rc_m, m_out, m_err = vlib.sh2([str(mbin)], stdin=text, timeout=tmo)
    return name, rc_c, c_out, rc_m, m_out, m_err


def unpacked_wanted(name):
    return name in ("corpus", "directed", "random.0", "ins6") or re.match(r"perm[1-5]$|shape6\.", name) is not None


def run(ctx):
    if not ctx.quick:
        # thorough: rebuild this property's files from clean, and re-check the compiled theory with coqchk
        for f in list((vlib.COQ / PID).glob("*.vo")) + [vlib.COQ / "Properties_C02.vo"]:
            if f.exists():
                f.unlink()
    proved = ctx.prove()
    if proved:
        # pointer level: the rebalancing code regenerated from the current rbt.c / rbt.h (both layouts) and proved to refine RbtDefs
        vrbt.rbt_translate_and_tie(ctx)
    if proved and not ctx.quick:
        rc, out = vlib.sh(["coqchk", "-silent", "-o", "-Q", ".", "LibaV", "LibaV.Properties_C02"], cwd=vlib.COQ, timeout=900)
        ax = re.search(r"\* Axioms:\s*(.*?)\n\s*\n", out, flags=re.S)
        if rc != 0:
            ctx.tie_broken("coqchk rejected LibaV.Properties_C02: " + " ".join(out.split())[-400:])
        else:
            ctx.cov["trusted_base"].append("coqchk -o on LibaV.Properties_C02 (thorough tier): accepted; axioms: %s"
                                           % (" ".join(ax.group(1).split()) if ax else "?"))
            ctx.cov["checker_cmd"] += "; coqchk -silent -o -Q . LibaV LibaV.Properties_C02"
    cbin = ctx.cc("rbt_drv", [HARN / "rbt_drv.c"], repo_srcs=["rbt.c"], mode="asan")
    ml = ctx.extract("C02/Extract.v", ["C02/extracted/rbt.ml", "C02/extracted/rbt.mli"])
    mbin = ctx.ocaml_build("rbt_mdrv", [ml[1], ml[0], HARN / "rbt_mdrv.ml"])
    runner = Runner(ctx, cbin, mbin)
    try:
        cbin1 = build_unpacked(ctx)
        runner1 = Runner(ctx, cbin1, mbin, "unpacked (A_SIZE_POINTER 1)")
    except vlib.CheckError as e:
        cbin1 = runner1 = None
        ctx.tie_broken("the unpacked configuration (A_SIZE_POINTER 1: separate parent/color fields) of rbt.c no longer builds: "
                       + " ".join(str(e).split())[-400:])

    batches = build_batches(ctx, mbin)
    ctx.log("generated %d batches, %d cases" % (len(batches), sum(len(c) for _, c in batches)))
    jobs = []
    for name, cs in batches:
        text = "".join(fmt_case(j, ops) for j, ops in enumerate(cs))
        jobs.append((name, text, cbin, mbin, 45 if ctx.quick else 240))
    tags, totals = {}, {"NONTRIVIAL": 0, "CASES": 0, "OPS": 0, "MAXN": 0}
    suspects = []           # (origin, ops, runner) of cases on which C and model disagree
    m_keep = {}
    bydict = dict(batches)
    with ThreadPoolExecutor(max_workers=min(vlib.NPROC, 12)) as ex:
        for name, rc_c, c_out, rc_m, m_out, m_err in ex.map(run_batch, jobs):
            for ln in m_err.splitlines():
                f = ln.split()
                if len(f) == 3 and f[0] == "TAG":
                    tags[f[1]] = tags.get(f[1], 0) + int(f[2])
                elif len(f) == 2 and f[0] in totals:
                    totals[f[0]] = max(totals[f[0]], int(f[1])) if f[0] == "MAXN" else totals[f[0]] + int(f[1])
            if rc_m != 0:
                ctx.tie_broken("model driver failed on batch %s (rc %d): %s" % (name, rc_m, m_err[-300:]))
                continue
            if unpacked_wanted(name):
                m_keep[name] = m_out
            if rc_c == 0 and c_out == m_out:
                continue
            cc, mc = split_cases(c_out), split_cases(m_out)
            bad = [j for j in range(len(mc)) if j >= len(cc) or cc[j] != mc[j]]
            if rc_c != 0 and cc:
                bad = sorted(set(bad + [len(cc) - 1]))
            j0 = bad[0] if bad else 0
            k = vlib.first_diff(cc[j0] if j0 < len(cc) else [], mc[j0]) if bad else None
            ctx.tie_broken("correspondence rbt C-vs-model: batch %s, %d of %d cases differ (C exit status %d); first: case %d op %s: C %r / model %r"
                           % (name, len(bad), len(mc), rc_c, j0, k,
                              (cc[j0][k] if bad and j0 < len(cc) and k is not None and k < len(cc[j0]) else "<missing>")[:160],
                              (mc[j0][k] if bad and k is not None and k < len(mc[j0]) else "<missing>")[:160]))
            cs = bydict[name]
            for j in bad[:40]:
                suspects.append(("batch %s case %d" % (name, j), cs[j], runner))

    # the unpacked configuration against the same model output, on a subset of the batches
    jobs1 = [(name, text, cbin1, None, tmo) for (name, text, _, _, tmo) in jobs if name in m_keep and cbin1 is not None]
    n_unpacked = 0
    with ThreadPoolExecutor(max_workers=min(vlib.NPROC, 12)) as ex:
        for name, rc_c, c_out, _, _, _ in ex.map(run_batch, jobs1):
            m_out = m_keep[name]
            n_unpacked += m_out.count("\n") - m_out.count("\nH ") - (1 if m_out.startswith("H ") else 0)
            if rc_c == 0 and c_out == m_out:
                continue
            cc, mc = split_cases(c_out), split_cases(m_out)
            bad = [j for j in range(len(mc)) if j >= len(cc) or cc[j] != mc[j]]
            if rc_c != 0 and cc:
                bad = sorted(set(bad + [len(cc) - 1]))
            ctx.tie_broken("correspondence rbt C(unpacked configuration)-vs-model: batch %s, %d of %d cases differ (C exit status %d)"
                           % (name, len(bad), len(mc), rc_c))
            for j in bad[:40]:
                suspects.append(("unpacked configuration, batch %s case %d" % (name, j), bydict[name][j], runner1))
    ctx.cov["evaluations_unpacked_configuration"] = n_unpacked

    ctx.count(evaluations=totals["OPS"], nontrivial=totals["NONTRIVIAL"])
    ctx.cov["rule"] = ("evaluations = operations whose complete post-state (return value, root, every node's left/right/"
                       "parent/colour) was compared between C and model; distinct_nontrivial = distinct histories (de-"
                       "duplicated before running) in which the model went through at least one rebalancing branch "
                       "(insert case 1/2/3 or remove_adjust case 1/2/3/4, either side), counted by the model driver")
    ctx.cov["cases"] = totals["CASES"]
    ctx.cov["max_nodes"] = totals["MAXN"]
    ctx.cov["batches"] = {name: len(cs) for name, cs in batches}
    ctx.cov["model_branch_hits"] = {t: tags.get(t, 0) for t in ALL_TAGS}
    missing = [t for t in ALL_TAGS if tags.get(t, 0) == 0]
    ctx.cov["model_branches_not_reached"] = missing
    if missing:
        ctx.notes.append("model branches not reached in this run: " + ", ".join(missing))
        if not ctx.broken_ties:
            ctx.tie_broken("generator no longer reaches model branches: " + ", ".join(missing))
    if tags.get("F_null_mirror", 0):
        ctx.tie_broken("branch F_null_mirror (proved unreachable) was hit %d times" % tags["F_null_mirror"])
    for name, cs in batches:
        if name.startswith("random") and cs:
            ctx.sample({"batch": name, "ops": len(cs[0]), "first_ops": [" ".join(map(str, o)) for o in cs[0][:8]]})
            break
    for name, cs in batches:
        if name == "perm4" and cs:
            ctx.sample({"batch": name, "case": [" ".join(map(str, o)) for o in cs[len(cs) // 2]]})

    # the oracle itself is exercised on every run (corpus + a slice of each batch) so that it is known not to
    # raise false alarms; on a broken tie it is the search for a concrete failing input.
    rng = random.Random(ctx.subseed("oracle"))
    pool = []
    for name, cs in batches:
        if name == "corpus":
            pool.extend(("corpus case %d" % j, ops) for j, ops in enumerate(cs))
        else:
            for j in rng.sample(range(len(cs)), min(len(cs), 6 if not ctx.broken_ties else 60)):
                if len(cs[j]) <= 1200:
                    pool.append(("batch %s case %d" % (name, j), cs[j]))
    if ctx.broken_ties:
        fresh = random.Random(ctx.subseed("oracle-fresh"))
        for j in range(300):
            pool.append(("fresh random case %d" % j,
                         gen_random(fresh, fresh.choice([30, 120, 400]), fresh.choice([8, 32, 200, 1 << 20]))))
    kinds, checked = set(), 0
    import time
    t_stop = time.time() + (60 if ctx.quick else 240)
    for origin, ops, rn in suspects + [(o, c, runner) for o, c in pool] + ([(o + " (unpacked configuration)", c, runner1) for o, c in pool[:25]] if runner1 else []):
        if time.time() > t_stop and (kinds or not ctx.broken_ties):
            break
        if not well_formed(ops):
            continue
        f = rn.fails(ops)
        checked += 1
        if f is not None and f[1] not in kinds:
            kinds.add(f[1])
            kinds.add(report_failure(ctx, rn, ops, f, origin))
            if len(kinds) >= 3:
                break
    ctx.cov["oracle_cases_checked"] = checked
    ctx.cov["trusted_base"].extend([
        "correspondence (checked, not proved): extracted model vs C after every operation; generator strength bounds it",
        "extraction (ExtrOcamlBasic only) and the hand-written drivers harness/C02/rbt_mdrv.ml, rbt_drv.c",
        "heap_of (proved consistent, and proved to be a layout in the sense of the pointer-level tie: RbtTieLemmas.Repr_heap_of) "
        "is compared with the C's fields after every operation; the pointer surgery itself is covered by the translator tie above",
        "ASan/UBSan as runtime observers (A_ASSUME expands to __builtin_unreachable under gcc 12: trapped by UBSan)"])


def build_unpacked(ctx):
    """second configuration of the same source: separate parent / color fields (the #else branches of rbt.c,
    selected by A_SIZE_POINTER <= 1; a_uptr stays 64 bit)"""
    cfg1 = ctx.build / "cfg_unpacked.h"
    txt1 = ctx.cfg_header().read_text().replace("#define A_SIZE_POINTER 8", "#define A_SIZE_POINTER 1")
    if not cfg1.exists() or cfg1.read_text() != txt1:
        cfg1.write_text(txt1)
    return ctx.cc("rbt_drv_unpacked", [HARN / "rbt_drv.c"], repo_srcs=["rbt.c"], mode="asan",
                  defines=['A_HAVE_H="%s"' % cfg1])


def replay(ctx, path):
    import json
    obj = json.loads(Path(path).read_text())
    ops = parse_case_file("H 0\n" + "\n".join(obj["replay"]["case"]))[0]
    if "unpacked" in obj["replay"].get("configuration", ""):
        cbin = build_unpacked(ctx)
    else:
        cbin = ctx.cc("rbt_drv", [HARN / "rbt_drv.c"], repo_srcs=["rbt.c"], mode="asan")
    runner = Runner(ctx, cbin, None)
    f = runner.fails(ops)
    lines, rc, tail = runner.c_full(ops)
    print("\n".join(lines[-6:]))
    if f is None:
        print("replay: property holds on this case now")
        return 0
    print("replay: STILL FAILING at op %d: %s: %s" % (f[0], f[1], f[2]))
    return 1


META = {
    "text": "Rocq theorems for ALL finite insert/remove/search histories from the empty tree over all key sets: root black, no "
            "red node has a red child, equal black count on every root-to-null path, BST, exact refinement of an abstract "
            "key->node map (duplicate insert returns the resident and leaves the tree equal, search finds iff present), "
            "canonical heap has consistent parent links, no fault reachable (the A_ASSUME facts of a_rbt_remove_adjust - sibling "
            "non-null under deficit - are lemmas), removal invariant 'deficit => black height one less', logarithmic height. "
            "Tie: extracted model vs the real a_rbt_insert/remove/search: left/right/parent/colour/root/return value after EVERY "
            "operation under ASan+UBSan (packed and unpacked parent configurations), exhaustive small histories + random. "
            "Translator tie (tools/c2rbt.py, re-proved on every run, both node layouts): a_rbt_parent, a_rbt_init, a_rbt_color, "
            "a_rbt_new_child, a_rbt_set_parent_color, a_rbt_set_parent, a_rbt_set_black, a_rbt_set_parents, a_rbt_insert_adjust, "
            "a_rbt_remove_adjust, a_rbt_remove, a_rbt_insert and a_rbt_search are regenerated from the current rbt.c / rbt.h as checked "
            "heap programs (cells left/right/parent/colour + root slot; the packed word parent_ split into its components by "
            "arithmetic lemmas for 2-aligned pointers; A_RBT_PARENT, the whole word taken as a pointer, is an error on a black node; "
            "A_ASSUME a check; loops on fuel) and proved: helpers = field operations for every state; each kind of iteration of the "
            "insertion loop (root reached, black parent, case 1, case 3, case 2+3, mirrors) and of the removal fix-up loop (= "
            "RbtDefs.fix_left / fix_right, cases 1-4) on EVERY heap that lays a tree out below a slot leaves the model's tree laid out "
            "below the slot and touches nothing else; the unlink / successor splice of a_rbt_remove per shape; and the functions as "
            "wholes: a_rbt_insert_adjust / a_rbt_insert = RbtDefs.insert, a_rbt_remove_adjust = the model's resolution of the deficit "
            "along the path, a_rbt_remove = RbtDefs.unlink + resolution (what RbtDefs.del does once it has found the node), "
            "a_rbt_search = RbtDefs.find - on every heap that lays out ANY tree with distinct node ids on which the model does not "
            "fault (no red-black or search-tree invariant assumed; colours included, root slot updated, cells outside the tree "
            "unchanged), with the comparator as a Gallina function that orders the argument against the nodes as the keys are ordered.",
    "note": "Trusted: Coq kernel; extraction (ExtrOcamlBasic only) + drivers; the translator c2rbt about the C (its output is not "
            "trusted about the model: every generated definition is tied by a theorem). The step from the recursive status-upward "
            "model to the C's bottom-up loops and pointer surgery is now a set of theorems about the regenerated code (insert, "
            "remove, search and everything they call); the per-operation heap comparison on generated histories remains as the "
            "independent tie of the same model to the compiled C. Not covered by the translator tie: termination within a stated "
            "fuel is a hypothesis (fuel > height / 2*height), the comparator is assumed pure and consistent with the keys, the "
            "iteration functions of rbt.c (property C03). No axioms.",
    "technique": "Rocq proof (structural induction, colour/black-height invariants, refinement to an abstract map) + translator tie "
                 "(regenerated pointer code of insert / remove / search refines the tree model on every heap) + extracted-model vs C "
                 "exact heap correspondence",
}
