"""C09 - matrix product, transpose and structure kernels of src/linalg.c.

  1. prove:   coq/Properties_C09.v (theorems about the Gallina model coq/C09/LinalgDefs.v, all sizes/contents).
  2. tie:     the model's own definitions, extracted to OCaml at T := Z (harness/C09/mdrv.ml), and the C
              routines compiled from $VERIF_REPO/src/linalg.c under ASan+UBSan (harness/C09/drv.c: guard
              cells around the result array, exact-size inputs, FP-flag test) run the same case file;
              canonical lines are compared one by one.  Cases: corpus first, then every shape of every
              routine up to a bound (m<n, m=n, m>n, zero and one-sized dimensions, inner dimension one),
              integer contents small enough that every double operation is exact.
              A second, bit-exact tie runs the same Gallina term at primitive binary64 floats under
              vm_compute against the C (-O2 -ffp-contract=off) on arbitrary doubles.
  3. oracle:  when the tie breaks, the property itself (mathematical definition of each routine, exact Python
              integers; guard cells intact; inputs unmodified) is evaluated on what the C produced; failing
              cases are shrunk over all smaller shapes with canonical contents and reported.
"""
import itertools
import json
import random
import struct
from pathlib import Path

try:
    from tools import vlib
except ImportError:  # pragma: no cover
    import vlib

H = vlib.VERIF / "harness" / "C09"
CORPUS = vlib.VERIF / "corpus" / "C09"

OPS1 = ["T1", "eye1", "tri1", "diag", "diag1", "triL", "triL1", "triU", "triU1"]     # (n)
OPS2 = ["T2", "eye2", "tri2", "diag2", "triL2", "triU2"]                               # (m, n)
OPS3 = ["mulmm", "mulTm", "mulmT", "mulTT"]                                            # three dimensions
ALL_OPS = OPS1 + OPS2 + OPS3


# ----------------------------------------------------------------------------------------------
# shapes of the arrays of each routine, from the documented interface (include/a/linalg.h)
def sizes(op, d):
    """(len X, len Y, len result) for op with dimension tuple d = (d1, d2, d3)."""
    d1, d2, d3 = d
    if op == "T1":
        return 0, 0, d1 * d1
    if op in ("eye1", "tri1"):
        return 0, 0, d1 * d1
    if op in ("eye2", "tri2"):
        return 0, 0, d1 * d2
    if op == "T2":
        return d1 * d2, 0, d1 * d2
    if op == "diag":
        return d1, 0, d1 * d1
    if op == "diag1":
        return d1 * d1, 0, d1
    if op == "diag2":
        return d1 * d2, 0, min(d1, d2)
    if op in ("triL", "triL1", "triU", "triU1"):
        return d1 * d1, 0, d1 * d1
    if op in ("triL2", "triU2"):
        return d1 * d2, 0, d1 * d2
    if op == "mulmm":   # row c_r col : X row x c_r, Y c_r x col
        return d1 * d2, d2 * d3, d1 * d3
    if op == "mulTm":   # c_r row col : X c_r x row, Y c_r x col
        return d1 * d2, d1 * d3, d2 * d3
    if op == "mulmT":   # row col c_r : X row x c_r, Y col x c_r
        return d1 * d3, d2 * d3, d1 * d2
    if op == "mulTT":   # row c_r col : X c_r x row, Y col x c_r
        return d2 * d1, d3 * d2, d1 * d3
    raise ValueError(op)


def expected(op, d, X, Y, O):
    """The property's own statement: the mathematically specified contents of the result array
    (exact integers).  Independent of the Coq model and of how linalg.c is written."""
    d1, d2, d3 = d
    if op == "T1":
        n = d1
        return [O[c * n + r] for r in range(n) for c in range(n)]
    if op == "T2":
        m, n = d1, d2          # A is m x n, T is n x m
        return [X[r * n + c] for c in range(n) for r in range(m)]
    if op in ("eye1", "eye2", "tri1", "tri2"):
        m, n = (d1, d1) if op.endswith("1") else (d1, d2)
        if op.startswith("eye"):
            return [1 if r == c else 0 for r in range(m) for c in range(n)]
        return [1 if c <= r else 0 for r in range(m) for c in range(n)]
    if op == "diag":
        n = d1
        return [X[r] if r == c else 0 for r in range(n) for c in range(n)]
    if op == "diag1":
        n = d1
        return [X[i * n + i] for i in range(n)]
    if op == "diag2":
        m, n = d1, d2
        return [X[i * n + i] for i in range(min(m, n))]
    if op in ("triL", "triL1", "triL2", "triU", "triU1", "triU2"):
        m, n = (d1, d2) if op.endswith("2") else (d1, d1)
        unit = op in ("triL1", "triU1")
        lower = op.startswith("triL")
        res = []
        for r in range(m):
            for c in range(n):
                if r == c and unit:
                    res.append(1)
                elif (c <= r) if lower else (c >= r):
                    res.append(X[r * n + c])
                else:
                    res.append(0)
        return res
    if op == "mulmm":
        row, k, col = d1, d2, d3
        return [sum(X[i * k + t] * Y[t * col + j] for t in range(k)) for i in range(row) for j in range(col)]
    if op == "mulTm":
        k, row, col = d1, d2, d3
        return [sum(X[t * row + i] * Y[t * col + j] for t in range(k)) for i in range(row) for j in range(col)]
    if op == "mulmT":
        row, col, k = d1, d2, d3
        return [sum(X[i * k + t] * Y[j * k + t] for t in range(k)) for i in range(row) for j in range(col)]
    if op == "mulTT":
        row, k, col = d1, d2, d3
        return [sum(X[t * row + i] * Y[j * k + t] for t in range(k)) for i in range(row) for j in range(col)]
    raise ValueError(op)


def expected_writes(op, d):
    """Number of stores the theorems of Properties_C09.v state for the model."""
    d1, d2, d3 = d
    nx, ny, no = sizes(op, d)
    if op == "T1":
        return d1 * (d1 - 1) if d1 else 0
    if op in OPS3:
        k = {"mulmm": d2, "mulTm": d1, "mulmT": d3, "mulTT": d2}[op]
        return no * (1 + k)
    return no


# ----------------------------------------------------------------------------------------------
class Case:
    __slots__ = ("op", "d", "X", "Y", "O", "tag")

    def __init__(self, op, d, X, Y, O, tag=""):
        self.op, self.d, self.X, self.Y, self.O, self.tag = op, tuple(d), list(X), list(Y), list(O), tag

    def line(self):
        parts = [self.op] + [str(v) for v in self.d]
        for a in (self.X, self.Y, self.O):
            parts.append(str(len(a)))
            parts.extend(str(v) for v in a)
        return " ".join(parts)

    def key(self):
        return "%s/%s" % (self.op, "x".join(str(v) for v in self.dims_used()))

    def dims_used(self):
        if self.op in OPS1:
            return self.d[:1]
        if self.op in OPS2:
            return self.d[:2]
        return self.d

    def as_json(self):
        return {"op": self.op, "dims": list(self.d), "X": self.X, "Y": self.Y, "O_initial": self.O,
                "case_line": self.line()}


def parse_case(line):
    t = line.split()
    op, d = t[0], tuple(int(v) for v in t[1:4])
    pos = 4
    arrs = []
    for _ in range(3):
        n = int(t[pos])
        arrs.append([int(v) for v in t[pos + 1:pos + 1 + n]])
        pos += 1 + n
    return Case(op, d, arrs[0], arrs[1], arrs[2], "corpus")


def contents(rng, n, kind):
    if kind == "small":
        return [rng.randint(-9, 9) for _ in range(n)]
    if kind == "sparse":
        return [rng.choice([0, 0, 0, 1, -1, 2]) for _ in range(n)]
    if kind == "large":   # |v| <= 2^20: products < 2^40, sums over <= 64 terms < 2^46: exact in binary64
        return [rng.randint(-(1 << 20), 1 << 20) for _ in range(n)]
    if kind == "canon":   # distinct positive entries: position errors cannot cancel
        return [i + 1 for i in range(n)]
    raise ValueError(kind)


def make_case(rng, op, d, kind="small", tag=""):
    d = tuple(d) + (0,) * (3 - len(d))
    nx, ny, no = sizes(op, d)
    if kind == "canon":
        X = [i + 1 for i in range(nx)]
        Y = [101 + 2 * i for i in range(ny)]
        O = [5000 + i for i in range(no)]
    else:
        X = contents(rng, nx, kind)
        Y = contents(rng, ny, kind)
        O = [rng.randint(1000, 9999) for _ in range(no)]   # stale contents of the result array
    return Case(op, d, X, Y, O, tag or kind)


def gen_cases(ctx):
    quick = ctx.quick
    rng = random.Random(ctx.subseed("C09/cases"))
    cases = []
    # corpus first
    if CORPUS.is_dir():
        for f in sorted(CORPUS.glob("*.txt")):
            for ln in f.read_text().splitlines():
                ln = ln.strip()
                if ln and not ln.startswith("#"):
                    cases.append(parse_case(ln))
    kinds = ["small", "canon", "sparse", "large"]
    # square routines: every order 0..N
    n1 = 16 if quick else 40
    for op in OPS1:
        for n in range(0, n1 + 1):
            for kind in kinds:
                cases.append(make_case(rng, op, (n,), kind))
    # rectangular routines: every (m, n) in 0..N x 0..N  (m<n, m=n, m>n, empty, single row/column)
    n2 = 10 if quick else 24
    for op in OPS2:
        for m in range(0, n2 + 1):
            for n in range(0, n2 + 1):
                for kind in (["small", "canon"] if quick else ["small", "canon", "large"]):
                    cases.append(make_case(rng, op, (m, n), kind))
    # products: all shapes 1..N^3 exhaustively, plus every shape with a zero dimension in 0..2^3
    n3 = 6 if quick else 9
    for op in OPS3:
        for d in itertools.product(range(1, n3 + 1), repeat=3):
            cases.append(make_case(rng, op, d, "small"))
            cases.append(make_case(rng, op, d, rng.choice(["canon", "sparse", "large"])))
        for d in itertools.product(range(0, 3), repeat=3):
            if 0 in d:
                cases.append(make_case(rng, op, d, "small", "zero-dim"))
    # random larger shapes (strides beyond the exhaustive box); thorough: 5 derived seeds
    hi = 16 if quick else 28
    for sub in range(1 if quick else 5):
        r2 = random.Random(ctx.subseed("C09/large/%d" % sub))
        for _ in range(100 if quick else 160):
            op = r2.choice(ALL_OPS)
            if op in OPS1:
                d = (r2.randint(n1 + 1, n1 + 12),)
            elif op in OPS2:
                d = (r2.randint(1, hi + 8), r2.randint(1, hi + 8))
            else:
                d = tuple(r2.choice([1, 1, 2]) if r2.random() < 0.25 else r2.randint(2, hi) for _ in range(3))
            cases.append(make_case(r2, op, d, r2.choice(kinds), "random-large"))
    return cases


# ----------------------------------------------------------------------------------------------
def run_c(cbin, cases, args=(), max_restarts=25, timeout=900):
    """Run the C driver on the cases; survives sanitizer aborts: the case being executed when the
    process died gets the pseudo line 'ABORT <excerpt>', the run is resumed after it."""
    lines = []
    start = 0
    restarts = 0
    while start < len(cases):
        text = "\n".join(c.line() for c in cases[start:]) + "\n"
        rc, out, err = vlib.sh2([str(cbin)] + list(args), stdin=text, timeout=timeout,
                                env={"ASAN_OPTIONS": "detect_leaks=0:abort_on_error=0", "UBSAN_OPTIONS": "print_stacktrace=0"})
        got = out.splitlines()
        want = len(cases) - start
        if rc == 0 and len(got) == want:
            lines.extend(got)
            break
        # the last complete line belongs to case start+len(got)-1 (stdout is flushed after each case)
        if got and not out.endswith("\n"):
            got = got[:-1]
        got = got[:want]
        lines.extend(got)
        bad = start + len(got)
        if bad >= len(cases):
            break
        excerpt = " ".join(err.split())[:400]
        lines.append("ABORT rc=%d %s" % (rc, excerpt))
        start = bad + 1
        restarts += 1
        if restarts > max_restarts:
            lines.extend(["NOT-RUN"] * (len(cases) - start))
            break
    return lines


def run_model(mbin, cases, timeout=900):
    text = "\n".join(c.line() for c in cases) + "\n"
    rc, out, err = vlib.sh2([str(mbin)], stdin=text, timeout=timeout)
    if rc != 0:
        raise vlib.CheckError("model driver failed rc=%d: %s" % (rc, err[-500:]))
    res = []
    for ln in out.splitlines():
        nw = None
        if " nwr=" in ln:
            ln, nw = ln.rsplit(" nwr=", 1)
            nw = int(nw)
        res.append((ln, nw))
    return res


def oracle(case, c_line):
    """Evaluate the property on the implementation's output line.  Returns None if it holds,
    else a description of the failure."""
    if c_line.startswith("ABORT"):
        return "the implementation aborted under ASan/UBSan: " + c_line[:300]
    if c_line == "NOT-RUN":
        return None
    t = c_line.split()
    head = [case.op] + [str(v) for v in case.d]
    if t[:4] != head:
        return "driver out of step: " + c_line[:80]
    status = t[4]
    exp = expected(case.op, case.d, case.X, case.Y, case.O)
    vals = t[5:]
    if status != "ok":
        what = []
        for s in status.split("+"):
            if s.startswith("guard-lo"):
                what.append("a cell %s position(s) BEFORE the result array was written" % s.split("@")[1])
            elif s.startswith("guard-hi"):
                what.append("the cell at offset %s AFTER the end of the result array was written" % s.split("@")[1])
            elif s == "input":
                what.append("an input array was modified")
            elif s == "fpe":
                what.append("a floating-point exception flag was raised on small integer data")
            else:
                what.append(s)
        return "; ".join(what)
    if len(vals) != len(exp):
        return "result has %d cells, expected %d" % (len(vals), len(exp))
    for i, (v, e) in enumerate(zip(vals, exp)):
        if v != str(e):
            ncol = {"T2": case.d[0], "diag1": 1, "diag2": 1}.get(case.op)
            if ncol is None:
                if case.op in OPS1:
                    ncol = case.d[0]
                elif case.op in OPS2:
                    ncol = case.d[1]
                else:
                    ncol = {"mulmm": case.d[2], "mulTm": case.d[2], "mulmT": case.d[1], "mulTT": case.d[2]}[case.op]
            ncol = max(1, ncol)
            return "result cell %d (row %d, column %d) is %s, specified value %d" % (i, i // ncol, i % ncol, v, e)
    return None


def shrink(ctx, cbin, case):
    """Smallest shape (canonical contents) on which the implementation still violates the property;
    falls back to the case itself.  One batch run of the C driver."""
    dims = case.dims_used()
    cands = []
    for d in itertools.product(*[range(0, v + 1) for v in dims]):
        cands.append(make_case(None, case.op, d, "canon", "shrunk"))
    # shapes inside the property's stated domain (every dimension >= 1) first, smallest first
    cands.sort(key=lambda c: (0 in c.dims_used(), sum(sizes(c.op, c.d)), c.d))
    cands = cands[:4000]
    lines = run_c(cbin, cands, max_restarts=3)
    for c, ln in zip(cands, lines):
        why = oracle(c, ln)
        if why:
            return c, ln, why
    return None


def report_failure(ctx, cbin, case, c_line, why, m_line=None, origin="integer run"):
    """Shrink and report one property failure; at most one report per routine and run."""
    done = ctx.__dict__.setdefault("_c09_reported", set())
    if case.op in done:
        return
    done.add(case.op)
    sh = shrink(ctx, cbin, case)
    if sh:
        scase, sline, swhy = sh
    else:
        scase, sline, swhy = case, c_line, why
    exp = expected(scase.op, scase.d, scase.X, scase.Y, scase.O)
    replay = scase.as_json()
    replay.update({"expected_result": exp, "observed_line": sline, "failure": swhy, "found_in": origin,
                   "original_case": case.as_json() if not isinstance(case, FCase) else {"case_line": case.line()},
                   "original_failure": why, "model_line": m_line,
                   "how_to_replay": "python3 tools/vcheck.py C09 --replay <this file>   (or: echo '<case_line>' | build/C09/drv, "
                                    "built by checks/C09.py from $VERIF_REPO/src/linalg.c)"})
    dims = "x".join(str(v) for v in scase.dims_used())
    ctx.report(key="a_real_%s/%s" % (scase.op, dims),
               what="a_real_%s(%s): %s" % (scase.op, ",".join(str(v) for v in scase.dims_used()), swhy),
               replay=replay, found_input=True)


# ----------------------------------------------------------------------------------------------
# bit-exact float tie: the same Gallina term at PrimFloat, evaluated by vm_compute inside coqc
def f2hex(x):
    return "x%016x" % struct.unpack("<Q", struct.pack("<d", x))[0]


def hex2f(s):
    return struct.unpack("<d", struct.pack("<Q", int(s[1:], 16)))[0]


def coq_float(x):
    import math
    if x != x:
        return "nan"
    if x == float("inf"):
        return "infinity"
    if x == float("-inf"):
        return "neg_infinity"
    if x == 0:
        return "neg_zero" if math.copysign(1, x) < 0 else "zero"
    return "(%s)" % x.hex()


def float_value(rng):
    r = rng.random()
    if r < 0.55:
        return rng.uniform(-10, 10)
    if r < 0.70:
        return struct.unpack("<d", struct.pack("<Q", rng.getrandbits(64)))[0]
    if r < 0.80:
        return float(rng.randint(-5, 5))
    if r < 0.85:
        return rng.choice([0.0, -0.0])
    if r < 0.88:
        return rng.choice([float("inf"), float("-inf")])
    if r < 0.90:
        return float("nan")
    if r < 0.95:
        return rng.uniform(-1, 1) * 2.0 ** rng.randint(-1074, -1000)     # subnormal range
    return rng.uniform(-1, 1) * 2.0 ** rng.randint(900, 1023)           # overflow range


class FCase(Case):
    def line(self):
        parts = [self.op] + [str(v) for v in self.d]
        for a in (self.X, self.Y, self.O):
            parts.append(str(len(a)))
            parts.extend(f2hex(v) for v in a)
        return " ".join(parts)


def float_tie(ctx):
    rng = random.Random(ctx.subseed("C09/float"))
    n = 400 if ctx.quick else 3000
    hi = 5 if ctx.quick else 8
    cases = []
    for i in range(n):
        op = ALL_OPS[i % len(ALL_OPS)] if i < 3 * len(ALL_OPS) else rng.choice(ALL_OPS)
        d = tuple(rng.randint(0 if rng.random() < 0.1 else 1, hi) for _ in range(3))
        if op in OPS1:
            d = (d[0], 0, 0)
        elif op in OPS2:
            d = (d[0], d[1], 0)
        nx, ny, no = sizes(op, d)
        cases.append(FCase(op, d, [float_value(rng) for _ in range(nx)], [float_value(rng) for _ in range(ny)],
                           [float_value(rng) for _ in range(no)], "float"))
    cbin = ctx.cc("drv_num", [H / "drv.c"], repo_srcs=["linalg.c"], mode="num")
    lines = run_c(cbin, cases, args=("hex",))
    # the C results become the expected values of a Coq file; the model is evaluated by vm_compute and
    # compared bit for bit inside Coq (all NaNs identified, signed zeros distinguished)
    ops = {"T1": "OpT1", "T2": "OpT2", "eye1": "OpEye1", "eye2": "OpEye2", "tri1": "OpTri1", "tri2": "OpTri2",
           "diag": "OpDiag", "diag1": "OpDiag1", "diag2": "OpDiag2", "triL": "OpTriL", "triL1": "OpTriL1",
           "triL2": "OpTriL2", "triU": "OpTriU", "triU1": "OpTriU1", "triU2": "OpTriU2", "mulmm": "OpMulmm",
           "mulTm": "OpMulTm", "mulmT": "OpMulmT", "mulTT": "OpMulTT"}
    items = []
    usable = []
    flagged = []
    for idx, (c, ln) in enumerate(zip(cases, lines)):
        t = ln.split()
        if len(t) < 5 or t[4] != "ok":
            if len(flagged) < 3:
                ctx.tie_broken("float run: C driver reported '%s' on case %d (%s)" % (" ".join(t[:5])[:120], idx, c.key()))
            flagged.append(idx)
            continue
        outv = [hex2f(v) for v in t[5:]]
        fl = lambda a: "[" + "; ".join(coq_float(v) for v in a) + "]"
        items.append("(%s, %d%%nat, %d%%nat, %d%%nat, %s, %s, %s, %s)" % (ops[c.op], c.d[0], c.d[1], c.d[2], fl(c.X), fl(c.Y), fl(c.O), fl(outv)))
        usable.append(idx)
    src = ["From Coq Require Import List Floats ZArith.", "From LibaV Require Import C09.LinalgDefs C09.LinalgFloat.",
           "Import ListNotations.", "Open Scope float_scope.", "Definition cases : list fcase := ["]
    src.append(";\n".join(items))
    src.append("].")
    src.append("Definition bad := Eval vm_compute in (failing cases).")
    src.append("Print bad.")
    rc, out = ctx.coq_eval("float_cases", "\n".join(src) + "\n", timeout=900)
    if rc != 0:
        raise vlib.CheckError("float tie: coqc failed: " + out[-1500:])
    import re
    m = re.search(r"bad\s*=\s*(\[.*?\]|nil)\s*:", out, flags=re.S)
    if not m:
        raise vlib.CheckError("float tie: cannot parse coqc output: " + out[-800:])
    body = m.group(1)
    bad = [int(v) for v in re.findall(r"\d+", body)] if body != "nil" else []
    ctx.cov["float_bit_exact"] = {"cases": len(usable), "cells_compared": sum(len(l.split()) - 5 for l in lines if len(l.split()) >= 5),
                                  "disagreements": len(bad),
                                  "rule": "model at PrimFloat (vm_compute) == C -O2 -ffp-contract=off, bit for bit, NaNs identified"}
    ctx.count(evaluations=len(usable), nontrivial=sum(1 for i in usable if all(v >= 1 for v in cases[i].dims_used())))
    for b in bad[:3]:
        c = cases[usable[b]]
        ctx.tie_broken("bit-exact float correspondence: case %d (%s) differs" % (usable[b], c.key()))
    return cases, usable, bad, lines, flagged


# ----------------------------------------------------------------------------------------------
def build(ctx):
    cbin = ctx.cc("drv", [H / "drv.c"], repo_srcs=["linalg.c"], mode="asan")
    ml = ctx.extract("C09/Extract.v", ["C09/extracted/linalg_model.ml", "C09/extracted/linalg_model.mli"])
    mbin = ctx.ocaml_build("mdrv", ml[::-1] + [H / "mdrv.ml"])
    return cbin, mbin


MY_V = ["C09/LinalgDefs.v", "C09/LinalgSpec.v", "C09/LinalgFloat.v", "C09/LinalgLemmas.v", "C09/LinalgPatProofs.v",
        "C09/LinalgTProofs.v", "C09/LinalgMulProofs.v", "C09/LinalgRing.v", "C09/LinalgExamples.v", "C09/Extract.v",
        "Properties_C09.v"]


def coqchk(ctx):
    """thorough: re-check the compiled C09 modules with the independent checker (stdlib not re-checked)."""
    mods = ["LibaV." + v[:-2].replace("/", ".") for v in MY_V if v != "C09/Extract.v"]
    cmd = ["coqchk", "-silent", "-o", "-Q", ".", "LibaV"]
    for m in mods:
        cmd += ["-norec", m]
    rc, out = vlib.sh(cmd, cwd=vlib.COQ, timeout=900)
    if rc != 0:
        ctx.tie_broken("coqchk rejected the C09 development: " + " ".join(out.split())[-600:])
    else:
        ctx.cov["trusted_base"].append("thorough: coqchk -o -norec on %d C09 modules accepted them" % len(mods))
        ctx.cov["coqchk"] = "ok (%d modules)" % len(mods)


def run(ctx):
    if not ctx.quick:
        # clean rebuild of this property's own files
        for v in MY_V:
            vo = (vlib.COQ / v).with_suffix(".vo")
            if vo.exists():
                vo.unlink()
    ok = ctx.prove()
    okf, outs, failed = ctx.coq_build(["C09/LinalgFloat.v"], timeout=600)
    if not okf:
        raise vlib.CheckError("C09/LinalgFloat.v does not compile: " + " ".join(outs.get("C09/LinalgFloat.v", "").split())[-400:])
    if ok and not ctx.quick:
        coqchk(ctx)
    cbin, mbin = build(ctx)
    cases = gen_cases(ctx)
    ctx.log("generated %d cases" % len(cases))
    c_lines = run_c(cbin, cases)
    m_res = run_model(mbin, cases)
    if len(m_res) != len(cases):
        raise vlib.CheckError("model driver printed %d lines for %d cases" % (len(m_res), len(cases)))
    ctx.log("ran C and model")
    disagree = []
    nw_bad = []
    for i, c in enumerate(cases):
        ml, nw = m_res[i]
        cl = c_lines[i] if i < len(c_lines) else "NOT-RUN"
        if cl != ml:
            disagree.append(i)
        if nw is not None and nw != expected_writes(c.op, c.d):
            nw_bad.append(i)
    if nw_bad:
        c = cases[nw_bad[0]]
        ctx.tie_broken("model write count of %s differs from the count stated by the theorems (%d cases)" % (c.key(), len(nw_bad)))
    # evidence
    shape = {}
    for c in cases:
        du = c.dims_used()
        if c.op in OPS2:
            cls = "m<n" if du[0] < du[1] else ("m=n" if du[0] == du[1] else "m>n")
        elif c.op in OPS3:
            cls = "inner=1" if {"mulmm": du[1], "mulTm": du[0], "mulmT": du[2], "mulTT": du[1]}[c.op] == 1 else \
                  ("has-zero-dim" if 0 in du else ("non-square" if len(set(du)) > 1 else "cube"))
        else:
            cls = "n=%s" % ("0" if du[0] == 0 else "1" if du[0] == 1 else ">=2")
        shape.setdefault(c.op, {}).setdefault(cls, 0)
        shape[c.op][cls] += 1
    distinct = set()
    for c in cases:
        if all(v >= 1 for v in c.dims_used()) and sizes(c.op, c.d)[2] >= 2:
            distinct.add(c.line())
    ctx.count(evaluations=len(cases), nontrivial=len(distinct))
    ctx.cov["rule"] = ("distinct case lines (routine, shape, contents) with every dimension >= 1 and a result array of >= 2 cells; "
                       "each is run through the extracted model and the C and compared cell by cell")
    ctx.cov["shape_classes"] = shape
    ctx.cov["max_dims"] = {"square": max(c.d[0] for c in cases if c.op in OPS1),
                           "rect": max(max(c.d[:2]) for c in cases if c.op in OPS2),
                           "product": max(max(c.d) for c in cases if c.op in OPS3)}
    ctx.cov["cells_compared"] = sum(sizes(c.op, c.d)[2] for c in cases)
    # which case splits of the model (= of the C) the generated shapes drive
    rect = [c for c in cases if c.op in ("eye2", "tri2", "triL2", "triU2")]
    prod = [c for c in cases if c.op in OPS3]
    inner = lambda c: {"mulmm": c.d[1], "mulTm": c.d[0], "mulmT": c.d[2], "mulTT": c.d[1]}[c.op]
    ctx.cov["model_case_splits"] = {
        "rect: A_MIN picks m, second block skipped (m<=n)": sum(1 for c in rect if c.d[0] <= c.d[1]),
        "rect: A_MIN picks n, second block runs rows n..m-1 (m>n)": sum(1 for c in rect if c.d[0] > c.d[1]),
        "row body: first inner loop empty (row 0) and last row (trailing loop empty)": sum(1 for c in cases if c.op not in OPS3 and c.d[0] >= 1),
        "diag2: min(m,n)=m / =n": [sum(1 for c in cases if c.op == "diag2" and c.d[0] <= c.d[1]),
                                   sum(1 for c in cases if c.op == "diag2" and c.d[0] > c.d[1])],
        "product: inner dimension 0 (accumulation loops never entered; Z = z keeps z_)": sum(1 for c in prod if inner(c) == 0),
        "product: inner dimension 1": sum(1 for c in prod if inner(c) == 1),
        "product: inner dimension >= 2, row != col (strides distinguishable)": sum(1 for c in prod if inner(c) >= 2 and len(set(c.d)) == 3),
        "T1: n <= 1 (no exchange) / n >= 2": [sum(1 for c in cases if c.op == "T1" and c.d[0] <= 1),
                                              sum(1 for c in cases if c.op == "T1" and c.d[0] >= 2)],
    }
    ctx.cov["trusted_base"].extend([
        "extraction with ExtrOcamlBasic only (nat/Z/positive stay inductives) + harness/C09/mdrv.ml (parsing/printing)",
        "harness/C09/drv.c, gcc, ASan/UBSan, canary cells (48 on each side of the result array), fetestexcept",
        "checks/C09.py reference definitions (exact Python integers) used as search oracle and evaluated on every case",
        "model abstractions: a_uint/a_size as nat (no counter exceeds max(m,n); products index existing arrays); "
        "__restrict inputs are immutable lists; identical row bodies of the square and rectangular variants share one model definition",
        "same Gallina term instantiated at Z (tie), PrimFloat (bit-exact tie) and arbitrary T (theorems)",
    ])
    ctx.cov["model_write_counts_checked"] = len(cases) - len(nw_bad)
    for c in (cases[len(cases) // 7], cases[len(cases) // 2], cases[-1]):
        i = cases.index(c)
        ctx.sample({"case": c.line()[:200], "C": c_lines[i][:200] if i < len(c_lines) else "", "model": m_res[i][0][:200]})

    # The property itself, evaluated on everything the C produced (cheap, so it is not reserved for the
    # case of a broken tie): exact integer definition, guard cells, inputs unmodified, no sanitizer abort.
    fails = []
    for i, c in enumerate(cases):
        why = oracle(c, c_lines[i]) if i < len(c_lines) else None
        if why:
            fails.append((i, why))
    ctx.cov["oracle_evaluations"] = len(cases)
    if disagree:
        i0 = disagree[0]
        ctx.tie_broken("correspondence linalg.c vs model: %d of %d cases differ, first: case %d (%s): C '%s' / model '%s'"
                       % (len(disagree), len(cases), i0, cases[i0].key(), c_lines[i0][:120] if i0 < len(c_lines) else "", m_res[i0][0][:120]))
    if fails and not disagree:
        ctx.tie_broken("the C output violates the specification although it agrees with the model (case %d, %s)"
                       % (fails[0][0], cases[fails[0][0]].key()))
    dis = set(disagree)
    for i, why in sorted(fails, key=lambda f: (f[0] not in dis, f[0])):
        report_failure(ctx, cbin, cases[i], c_lines[i], why, m_res[i][0])
    # bit-exact float run
    try:
        fcases, usable, bad, flines, flagged = float_tie(ctx)
        # a float disagreement / a guard hit in the float run is a broken tie; the failing input is looked for
        # with the exact integer oracle on the same routine and shape (canonical integer contents), then shrunk
        for idx in flagged + [usable[b] for b in bad]:
            c = fcases[idx]
            ic = make_case(None, c.op, c.d, "canon")
            ln = run_c(cbin, [ic])[0]
            why = oracle(ic, ln)
            if why:
                report_failure(ctx, cbin, ic, ln, why, origin="float run, case '%s'" % c.line()[:300])
    except vlib.CheckError as e:
        ctx.tie_broken("float tie could not run: " + str(e)[:600])


def replay(ctx, path):
    obj = json.loads(Path(path).read_text())
    r = obj.get("replay", obj)
    c = parse_case(r["case_line"])
    cbin, mbin = build(ctx)
    ln = run_c(cbin, [c])[0]
    why = oracle(c, ln)
    print("case    :", c.line())
    print("C       :", ln)
    print("model   :", run_model(mbin, [c])[0][0])
    print("expected:", expected(c.op, c.d, c.X, c.Y, c.O))
    print("property:", "VIOLATED - " + why if why else "holds on this case")
    return 1 if why else 0


META = {
    "text": "Rocq theorems for ALL dimensions >= 0 (m<n, m=n, m>n, inner dimension 1) and ALL contents over an arbitrary "
            "element type: the four product variants return exactly the defining sums with the documented operand shapes, "
            "T1/T2 are exact and involutive, the 13 identity/triangle/diagonal routines produce exactly their pattern, every "
            "model run is Ok (no out-of-bounds read or write on exactly-sized arrays, fuel never exhausted) with the stated "
            "number of stores; ring-level corollaries ((YX)^T = X^T Y^T, identity is a unit) over any ring_theory, Z and R. "
            "Tie: model extracted at Z vs the C on integer-valued doubles (exact, FP flags checked, canary cells, ASan/UBSan), "
            "all small shapes exhaustively, plus a bit-exact PrimFloat run on arbitrary doubles.",
    "note": "Trusted: Coq kernel/vm_compute; extraction (ExtrOcamlBasic only) + drivers; the cursor-level model "
            "coq/C09/LinalgDefs.v is hand-written and tied by correspondence on the generated shapes only; a_uint/a_size "
            "modelled as nat; memory safety of the C observed (guards, ASan), proved only of the model. Real-number axioms only "
            "under the two R instances.",
    "technique": "Rocq proof (loop invariants over cursor arithmetic, induction on dimensions) + extracted-model/PrimFloat vs C correspondence",
}
