"""C09 - matrix product, transpose and structure kernels of src/linalg.c.

  1. prove:   coq/Properties_C09.v (theorems about the Gallina model coq/C09/LinalgDefs.v, all sizes/contents).
  2. tie:     the model's own definitions, extracted to OCaml at T := Z (harness/C09/mdrv.ml), and the C
              routines compiled from $VERIF_REPO/src/linalg.c under ASan+UBSan (harness/C09/drv.c: guard
              cells around the result array, exact-size inputs, FP-flag test) run the same case file;
              canonical lines are compared one by one.  Cases: corpus first, then every shape of every
              routine up to a bound (m<n, m=n, m>n, zero and one-sized dimensions, inner dimension one),
              integer contents small enough that every double operation is exact.
              A second, bit-exact tie runs the same Gallina term at primitive binary64 floats under
              vm_compute against the C (-O2 -ffp-contract=off) on arbitrary doubles.
              A third, "wide" tie runs a_real_diag1/diag2 on sparse matrices of 2^32 .. 2^34 cells (harness/C09/wdrv.c,
              MAP_NORESERVE) against the N-indexed model coq/C09/LinalgWide.v (harness/C09/wmdrv.ml): the only place
              where the 64-bit width of the C's offset computation N * i is observable by running.
  3. oracle:  when the tie breaks, the property itself (mathematical definition of each routine, exact Python
              integers; guard cells intact; inputs unmodified) is evaluated on what the C produced; failing
              cases are shrunk over all smaller shapes with canonical contents and reported.
"""
import itertools
import json
import random
import struct
from pathlib import Path

try:
    from tools import vlib
except ImportError:  # pragma: no cover
    import vlib

H = vlib.VERIF / "harness" / "C09"
CORPUS = vlib.VERIF / "corpus" / "C09"

# linalg.c is linked together with the library's base source a.c: a kernel rewritten with the library's own helpers (a_zero, a_copy,
# ...) must still build here, so that the runs below can look for a failing input instead of stopping at a link error
REPO_SRCS = ["linalg.c", "a.c"]

OPS1 = ["T1", "eye1", "tri1", "diag", "diag1", "triL", "triL1", "triU", "triU1"]     # (n)
OPS2 = ["T2", "eye2", "tri2", "diag2", "triL2", "triU2"]                               # (m, n)
OPS3 = ["mulmm", "mulTm", "mulmT", "mulTT"]                                            # three dimensions
ALL_OPS = OPS1 + OPS2 + OPS3


# ----------------------------------------------------------------------------------------------
# shapes of the arrays of each routine, from the documented interface (include/a/linalg.h)
def sizes(op, d):
    """(len X, len Y, len result) for op with dimension tuple d = (d1, d2, d3)."""
    d1, d2, d3 = d
    if op == "T1":
        return 0, 0, d1 * d1
    if op in ("eye1", "tri1"):
        return 0, 0, d1 * d1
    if op in ("eye2", "tri2"):
        return 0, 0, d1 * d2
    if op == "T2":
        return d1 * d2, 0, d1 * d2
    if op == "diag":
        return d1, 0, d1 * d1
    if op == "diag1":
        return d1 * d1, 0, d1
    if op == "diag2":
        return d1 * d2, 0, min(d1, d2)
    if op in ("triL", "triL1", "triU", "triU1"):
        return d1 * d1, 0, d1 * d1
    if op in ("triL2", "triU2"):
        return d1 * d2, 0, d1 * d2
    if op == "mulmm":   # row c_r col : X row x c_r, Y c_r x col
        return d1 * d2, d2 * d3, d1 * d3
    if op == "mulTm":   # c_r row col : X c_r x row, Y c_r x col
        return d1 * d2, d1 * d3, d2 * d3
    if op == "mulmT":   # row col c_r : X row x c_r, Y col x c_r
        return d1 * d3, d2 * d3, d1 * d2
    if op == "mulTT":   # row c_r col : X c_r x row, Y col x c_r
        return d2 * d1, d3 * d2, d1 * d3
    raise ValueError(op)


def expected(op, d, X, Y, O):
    """The property's own statement: the mathematically specified contents of the result array
    (exact integers).  Independent of the Coq model and of how linalg.c is written."""
    d1, d2, d3 = d
    if op == "T1":
        n = d1
        return [O[c * n + r] for r in range(n) for c in range(n)]
    if op == "T2":
        m, n = d1, d2          # A is m x n, T is n x m
        return [X[r * n + c] for c in range(n) for r in range(m)]
    if op in ("eye1", "eye2", "tri1", "tri2"):
        m, n = (d1, d1) if op.endswith("1") else (d1, d2)
        if op.startswith("eye"):
            return [1 if r == c else 0 for r in range(m) for c in range(n)]
        return [1 if c <= r else 0 for r in range(m) for c in range(n)]
    if op == "diag":
        n = d1
        return [X[r] if r == c else 0 for r in range(n) for c in range(n)]
    if op == "diag1":
        n = d1
        return [X[i * n + i] for i in range(n)]
    if op == "diag2":
        m, n = d1, d2
        return [X[i * n + i] for i in range(min(m, n))]
    if op in ("triL", "triL1", "triL2", "triU", "triU1", "triU2"):
        m, n = (d1, d2) if op.endswith("2") else (d1, d1)
        unit = op in ("triL1", "triU1")
        lower = op.startswith("triL")
        res = []
        for r in range(m):
            for c in range(n):
                if r == c and unit:
                    res.append(1)
                elif (c <= r) if lower else (c >= r):
                    res.append(X[r * n + c])
                else:
                    res.append(0)
        return res
    if op == "mulmm":
        row, k, col = d1, d2, d3
        return [sum(X[i * k + t] * Y[t * col + j] for t in range(k)) for i in range(row) for j in range(col)]
    if op == "mulTm":
        k, row, col = d1, d2, d3
        return [sum(X[t * row + i] * Y[t * col + j] for t in range(k)) for i in range(row) for j in range(col)]
    if op == "mulmT":
        row, col, k = d1, d2, d3
        return [sum(X[i * k + t] * Y[j * k + t] for t in range(k)) for i in range(row) for j in range(col)]
    if op == "mulTT":
        row, k, col = d1, d2, d3
        return [sum(X[t * row + i] * Y[j * k + t] for t in range(k)) for i in range(row) for j in range(col)]
    raise ValueError(op)


def expected_writes(op, d):
    """Number of stores the theorems of Properties_C09.v state for the model."""
    d1, d2, d3 = d
    nx, ny, no = sizes(op, d)
    if op == "T1":
        return d1 * (d1 - 1) if d1 else 0
    if op in OPS3:
        k = {"mulmm": d2, "mulTm": d1, "mulmT": d3, "mulTT": d2}[op]
        return no * (1 + k)
    return no


# ----------------------------------------------------------------------------------------------
class Case:
    __slots__ = ("op", "d", "X", "Y", "O", "tag")

    def __init__(self, op, d, X, Y, O, tag=""):
        self.op, self.d, self.X, self.Y, self.O, self.tag = op, tuple(d), list(X), list(Y), list(O), tag

    def line(self):
        parts = [self.op] + [str(v) for v in self.d]
        for a in (self.X, self.Y, self.O):
            parts.append(str(len(a)))
            parts.extend(str(v) for v in a)
        return " ".join(parts)

    def key(self):
        return "%s/%s" % (self.op, "x".join(str(v) for v in self.dims_used()))

    def dims_used(self):
        if self.op in OPS1:
            return self.d[:1]
        if self.op in OPS2:
            return self.d[:2]
        return self.d

    def as_json(self):
        return {"op": self.op, "dims": list(self.d), "X": self.X, "Y": self.Y, "O_initial": self.O,
                "case_line": self.line()}


def parse_case(line):
    t = line.split()
    op, d = t[0], tuple(int(v) for v in t[1:4])
    pos = 4
    arrs = []
    for _ in range(3):
        n = int(t[pos])
        arrs.append([int(v) for v in t[pos + 1:pos + 1 + n]])
        pos += 1 + n
    return Case(op, d, arrs[0], arrs[1], arrs[2], "corpus")


def contents(rng, n, kind):
    if kind == "small":
        return [rng.randint(-9, 9) for _ in range(n)]
    if kind == "sparse":
        return [rng.choice([0, 0, 0, 1, -1, 2]) for _ in range(n)]
    if kind == "large":   # |v| <= 2^20: products < 2^40, sums over <= 64 terms < 2^46: exact in binary64
        return [rng.randint(-(1 << 20), 1 << 20) for _ in range(n)]
    if kind == "canon":   # distinct positive entries: position errors cannot cancel
        return [i + 1 for i in range(n)]
    raise ValueError(kind)


def make_case(rng, op, d, kind="small", tag=""):
    d = tuple(d) + (0,) * (3 - len(d))
    nx, ny, no = sizes(op, d)
    if kind == "canon":
        X = [i + 1 for i in range(nx)]
        Y = [101 + 2 * i for i in range(ny)]
        O = [5000 + i for i in range(no)]
    else:
        X = contents(rng, nx, kind)
        Y = contents(rng, ny, kind)
        O = [rng.randint(1000, 9999) for _ in range(no)]   # stale contents of the result array
    return Case(op, d, X, Y, O, tag or kind)


def gen_cases(ctx):
    quick = ctx.quick
    rng = random.Random(ctx.subseed("C09/cases"))
    cases = []
    # corpus first
    if CORPUS.is_dir():
        for f in sorted(CORPUS.glob("*.txt")):
            for ln in f.read_text().splitlines():
                ln = ln.strip()
                if ln and not ln.startswith("#"):
                    cases.append(parse_case(ln))
    kinds = ["small", "canon", "sparse", "large"]
    # square routines: every order 0..N
    n1 = 16 if quick else 40
    for op in OPS1:
        for n in range(0, n1 + 1):
            for kind in kinds:
                cases.append(make_case(rng, op, (n,), kind))
    # rectangular routines: every (m, n) in 0..N x 0..N  (m<n, m=n, m>n, empty, single row/column)
    n2 = 10 if quick else 24
    for op in OPS2:
        for m in range(0, n2 + 1):
            for n in range(0, n2 + 1):
                for kind in (["small", "canon"] if quick else ["small", "canon", "large"]):
                    cases.append(make_case(rng, op, (m, n), kind))
    # products: all shapes 1..N^3 exhaustively, plus every shape with a zero dimension in 0..2^3
    n3 = 6 if quick else 9
    for op in OPS3:
        for d in itertools.product(range(1, n3 + 1), repeat=3):
            cases.append(make_case(rng, op, d, "small"))
            cases.append(make_case(rng, op, d, rng.choice(["canon", "sparse", "large"])))
        for d in itertools.product(range(0, 3), repeat=3):
            if 0 in d:
                cases.append(make_case(rng, op, d, "small", "zero-dim"))
    # directed: shapes around the usual blocking factors (a tiled or unrolled rewrite of a kernel behaves like the plain loops
    # inside one tile band and differs across bands): one dimension short, the other crossing 16 / 32 / 64, and both crossing
    edge = [15, 16, 17, 20, 31, 32, 33, 35] + ([] if quick else [63, 64, 65, 70])
    for op in OPS1:
        for n in (31, 32, 33) if quick else (31, 32, 33, 47, 63, 64, 65, 70):
            cases.append(make_case(rng, op, (n,), "canon", "tile-edge"))
    for op in OPS2:
        for big in edge:
            for small in (1, 3):
                cases.append(make_case(rng, op, (small, big), "canon", "tile-edge"))
                cases.append(make_case(rng, op, (big, small), "canon", "tile-edge"))
        for m, n in [(17, 33), (33, 17), (20, 35), (35, 20), (16, 32), (32, 16)] + ([] if quick else [(65, 17), (17, 65), (70, 33), (33, 70)]):
            cases.append(make_case(rng, op, (m, n), "small", "tile-edge"))
    for op in OPS3:
        for big in (17, 33) if quick else (17, 33, 65):
            for d in ((big, 2, 3), (2, big, 3), (2, 3, big), (big, big + 3, 2), (2, big, big + 3), (big + 3, 2, big)):
                cases.append(make_case(rng, op, d, "small", "tile-edge"))
    # directed: both operands of a product read from ONE buffer with two shapes (the driver passes the same pointer whenever one
    # operand's contents are a prefix of the other's)
    for op in OPS3:
        for d in itertools.product(range(1, 4), repeat=3):
            c = make_case(rng, op, d, "small", "aliased-operands")
            if len(c.X) >= len(c.Y):
                c.Y = list(c.X[:len(c.Y)])
            else:
                c.X = list(c.Y[:len(c.X)])
            cases.append(c)
    # random larger shapes (strides beyond the exhaustive box); thorough: 5 derived seeds
    hi = 16 if quick else 28
    for sub in range(1 if quick else 5):
        r2 = random.Random(ctx.subseed("C09/large/%d" % sub))
        for _ in range(100 if quick else 160):
            op = r2.choice(ALL_OPS)
            if op in OPS1:
                d = (r2.randint(n1 + 1, n1 + 12),)
            elif op in OPS2:
                d = (r2.randint(1, hi + 8), r2.randint(1, hi + 8))
            else:
                d = tuple(r2.choice([1, 1, 2]) if r2.random() < 0.25 else r2.randint(2, hi) for _ in range(3))
            cases.append(make_case(r2, op, d, r2.choice(kinds), "random-large"))
    return cases


# ----------------------------------------------------------------------------------------------
def run_c(cbin, cases, args=(), max_restarts=25, timeout=900):
    """Run the C driver on the cases; survives sanitizer aborts: the case being executed when the
    process died gets the pseudo line 'ABORT <excerpt>', the run is resumed after it."""
    lines = []
    start = 0
    restarts = 0
    while start < len(cases):
        text = "\n".join(c.line() for c in cases[start:]) + "\n"
        rc, out, err = vlib.sh2([str(cbin)] + list(args), stdin=text, timeout=timeout,
                                env={"ASAN_OPTIONS": "detect_leaks=0:abort_on_error=0", "UBSAN_OPTIONS": "print_stacktrace=0"})
        got = out.splitlines()
        want = len(cases) - start
        if rc == 0 and len(got) == want:
            lines.extend(got)
            break
        # the last complete line belongs to case start+len(got)-1 (stdout is flushed after each case)
        if got and not out.endswith("\n"):
            got = got[:-1]
        got = got[:want]
        lines.extend(got)
        bad = start + len(got)
        if bad >= len(cases):
            break
        excerpt = " ".join(err.split())[:400]
        lines.append("ABORT rc=%d %s" % (rc, excerpt))
        start = bad + 1
        restarts += 1
        if restarts > max_restarts:
            lines.extend(["NOT-RUN"] * (len(cases) - start))
            break
    return lines


def run_model(mbin, cases, timeout=900):
    text = "\n".join(c.line() for c in cases) + "\n"
    rc, out, err = vlib.sh2([str(mbin)], stdin=text, timeout=timeout)
    if rc != 0:
        raise vlib.CheckError("model driver failed rc=%d: %s" % (rc, err[-500:]))
    res = []
    for ln in out.splitlines():
        nw = None
        if " nwr=" in ln:
            ln, nw = ln.rsplit(" nwr=", 1)
            nw = int(nw)
        res.append((ln, nw))
    return res


def oracle(case, c_line):
    """Evaluate the property on the implementation's output line.  Returns None if it holds,
    else a description of the failure."""
    if c_line.startswith("ABORT"):
        return "the implementation aborted under ASan/UBSan: " + c_line[:300]
    if c_line == "NOT-RUN":
        return None
    t = c_line.split()
    head = [case.op] + [str(v) for v in case.d]
    if t[:4] != head:
        return "driver out of step: " + c_line[:80]
    status = t[4]
    exp = expected(case.op, case.d, case.X, case.Y, case.O)
    vals = t[5:]
    if status != "ok":
        what = []
        for s in status.split("+"):
            if s.startswith("guard-lo"):
                what.append("a cell %s position(s) BEFORE the result array was written" % s.split("@")[1])
            elif s.startswith("guard-hi"):
                what.append("the cell at offset %s AFTER the end of the result array was written" % s.split("@")[1])
            elif s == "input":
                what.append("an input array was modified")
            elif s == "fpe":
                what.append("a floating-point exception flag was raised on small integer data")
            else:
                what.append(s)
        return "; ".join(what)
    if len(vals) != len(exp):
        return "result has %d cells, expected %d" % (len(vals), len(exp))
    for i, (v, e) in enumerate(zip(vals, exp)):
        if v != str(e):
            ncol = {"T2": case.d[0], "diag1": 1, "diag2": 1}.get(case.op)
            if ncol is None:
                if case.op in OPS1:
                    ncol = case.d[0]
                elif case.op in OPS2:
                    ncol = case.d[1]
                else:
                    ncol = {"mulmm": case.d[2], "mulTm": case.d[2], "mulmT": case.d[1], "mulTT": case.d[2]}[case.op]
            ncol = max(1, ncol)
            return "result cell %d (row %d, column %d) is %s, specified value %d" % (i, i // ncol, i % ncol, v, e)
    return None


def shrink(ctx, cbin, case):
    """Smallest shape (canonical contents) on which the implementation still violates the property;
    falls back to the case itself.  One batch run of the C driver."""
    dims = case.dims_used()
    cands = []
    for d in itertools.product(*[range(0, v + 1) for v in dims]):
        cands.append(make_case(None, case.op, d, "canon", "shrunk"))
    # shapes inside the property's stated domain (every dimension >= 1) first, smallest first
    cands.sort(key=lambda c: (0 in c.dims_used(), sum(sizes(c.op, c.d)), c.d))
    cands = cands[:4000]
    lines = run_c(cbin, cands, max_restarts=3)
    for c, ln in zip(cands, lines):
        why = oracle(c, ln)
        if why:
            return c, ln, why
    return None


def report_failure(ctx, cbin, case, c_line, why, m_line=None, origin="integer run"):
    """Shrink and report one property failure; at most one report per routine and run."""
    done = ctx.__dict__.setdefault("_c09_reported", set())
    if case.op in done:
        return
    done.add(case.op)
    sh = shrink(ctx, cbin, case)
    if sh:
        scase, sline, swhy = sh
    else:
        scase, sline, swhy = case, c_line, why
    exp = expected(scase.op, scase.d, scase.X, scase.Y, scase.O)
    replay = scase.as_json()
    replay.update({"expected_result": exp, "observed_line": sline, "failure": swhy, "found_in": origin,
                   "original_case": case.as_json() if not isinstance(case, FCase) else {"case_line": case.line()},
                   "original_failure": why, "model_line": m_line,
                   "how_to_replay": "python3 tools/vcheck.py C09 --replay <this file>   (or: echo '<case_line>' | build/C09/drv, "
                                    "built by checks/C09.py from $VERIF_REPO/src/linalg.c)"})
    dims = "x".join(str(v) for v in scase.dims_used())
    ctx.report(key="a_real_%s/%s" % (scase.op, dims),
               what="a_real_%s(%s): %s" % (scase.op, ",".join(str(v) for v in scase.dims_used()), swhy),
               replay=replay, found_input=True)


# ----------------------------------------------------------------------------------------------
# bit-exact float tie: the same Gallina term at PrimFloat, evaluated by vm_compute inside coqc
def f2hex(x):
    return "x%016x" % struct.unpack("<Q", struct.pack("<d", x))[0]


def hex2f(s):
    return struct.unpack("<d", struct.pack("<Q", int(s[1:], 16)))[0]


def coq_float(x):
    import math
    if x != x:
        return "nan"
    if x == float("inf"):
        return "infinity"
    if x == float("-inf"):
        return "neg_infinity"
    if x == 0:
        return "neg_zero" if math.copysign(1, x) < 0 else "zero"
    return "(%s)" % x.hex()


def float_value(rng):
    r = rng.random()
    if r < 0.55:
        return rng.uniform(-10, 10)
    if r < 0.70:
        return struct.unpack("<d", struct.pack("<Q", rng.getrandbits(64)))[0]
    if r < 0.80:
        return float(rng.randint(-5, 5))
    if r < 0.85:
        return rng.choice([0.0, -0.0])
    if r < 0.88:
        return rng.choice([float("inf"), float("-inf")])
    if r < 0.90:
        return float("nan")
    if r < 0.95:
        return rng.uniform(-1, 1) * 2.0 ** rng.randint(-1074, -1000)     # subnormal range
    return rng.uniform(-1, 1) * 2.0 ** rng.randint(900, 1023)           # overflow range


class FCase(Case):
    def line(self):
        parts = [self.op] + [str(v) for v in self.d]
        for a in (self.X, self.Y, self.O):
            parts.append(str(len(a)))
            parts.extend(f2hex(v) for v in a)
        return " ".join(parts)


MOVE_OPS = ["T1", "T2", "triL", "triL1", "triL2", "triU", "triU1", "triU2", "diag", "diag1", "diag2"]


def signed_zero_cases():
    """Directed cases of the bit-exact float run: matrices that hold nothing but zeros, +0.0 and -0.0 in mirrored positions
    (A[r][c] and A[c][r] always differ in sign, the diagonal alternates), for every kernel that copies or moves values.  `==`
    cannot tell the two zeros apart, the bit patterns can: a kernel that skips a move because the two cells "are equal", or
    writes a literal 0 for a copied -0.0, is wrong only here.  The stale contents of the result array are the expected
    contents with every sign flipped, so a store that is skipped shows as well."""
    cases = []
    for flip in (False, True):
        def z(r, c, flip=flip):
            neg = (c > r) if r != c else bool(r % 2)
            return -0.0 if neg != flip else 0.0
        for op in MOVE_OPS:
            shapes = [(n, 0, 0) for n in (2, 3, 4)] if op in OPS1 else [(m, n, 0) for m, n in ((2, 2), (2, 3), (3, 2), (3, 3), (1, 4), (4, 1))]
            for d in shapes:
                nx, ny, no = sizes(op, d)
                rows, cols = (d[0], d[0]) if op in OPS1 else (d[0], d[1])
                M = [z(r, c) for r in range(rows) for c in range(cols)]
                if op == "T1":
                    X, O = [], M
                else:
                    X = [z(i, i) for i in range(nx)] if op == "diag" else M
                    e = expected(op, d, X, [], [0.0] * no)
                    O = [(-float(v) if v == 0 else -0.0) for v in e]
                cases.append(FCase(op, d, X, [], O, "signed-zeros"))
    return cases


def float_oracle(case, c_line):
    """The property on a line of the float run, for the kernels whose result cells are copies of input cells or the constants
    0 and 1 (everything but the four products): `expected` applies to any contents, and "exact" means the same bit pattern
    (all NaNs identified, the two zeros distinguished).  None if it holds or does not apply."""
    if case.op in OPS3:
        return None
    t = c_line.split()
    if len(t) < 5 or t[4] != "ok":
        return None
    exp = expected(case.op, case.d, case.X, case.Y, case.O)
    got = t[5:]
    if len(got) != len(exp):
        return "result has %d cells, expected %d" % (len(got), len(exp))
    ncol = max(1, {"T2": case.d[0], "diag1": 1, "diag2": 1}.get(case.op, case.d[0] if case.op in OPS1 else case.d[1]))
    for i, (g, e) in enumerate(zip(got, exp)):
        e = float(e)
        gv = hex2f(g)
        if (gv != gv and e != e) or g == f2hex(e):
            continue
        return ("result cell %d (row %d, column %d) is %r (bits %s), the specified value is %r (bits %s): not the same bit pattern"
                % (i, i // ncol, i % ncol, gv, g[1:], e, f2hex(e)[1:]))
    return None


def parse_fcase(line):
    t = line.split()
    op, d = t[0], tuple(int(v) for v in t[1:4])
    pos, arrs = 4, []
    for _ in range(3):
        n = int(t[pos])
        arrs.append([hex2f(v) for v in t[pos + 1:pos + 1 + n]])
        pos += 1 + n
    return FCase(op, d, arrs[0], arrs[1], arrs[2], "replay")


def float_tie(ctx):
    rng = random.Random(ctx.subseed("C09/float"))
    n = 400 if ctx.quick else 3000
    hi = 5 if ctx.quick else 8
    cases = signed_zero_cases()
    ctx.cov["float_signed_zero_cases"] = len(cases)
    for i in range(n):
        op = ALL_OPS[i % len(ALL_OPS)] if i < 3 * len(ALL_OPS) else rng.choice(ALL_OPS)
        d = tuple(rng.randint(0 if rng.random() < 0.1 else 1, hi) for _ in range(3))
        if op in OPS1:
            d = (d[0], 0, 0)
        elif op in OPS2:
            d = (d[0], d[1], 0)
        nx, ny, no = sizes(op, d)
        cases.append(FCase(op, d, [float_value(rng) for _ in range(nx)], [float_value(rng) for _ in range(ny)],
                           [float_value(rng) for _ in range(no)], "float"))
    cbin = ctx.cc("drv_num", [H / "drv.c"], repo_srcs=REPO_SRCS, mode="num")
    lines = run_c(cbin, cases, args=("hex",))
    # the C results become the expected values of a Coq file; the model is evaluated by vm_compute and
    # compared bit for bit inside Coq (all NaNs identified, signed zeros distinguished)
    ops = {"T1": "OpT1", "T2": "OpT2", "eye1": "OpEye1", "eye2": "OpEye2", "tri1": "OpTri1", "tri2": "OpTri2",
           "diag": "OpDiag", "diag1": "OpDiag1", "diag2": "OpDiag2", "triL": "OpTriL", "triL1": "OpTriL1",
           "triL2": "OpTriL2", "triU": "OpTriU", "triU1": "OpTriU1", "triU2": "OpTriU2", "mulmm": "OpMulmm",
           "mulTm": "OpMulTm", "mulmT": "OpMulmT", "mulTT": "OpMulTT"}
    items = []
    usable = []
    flagged = []
    for idx, (c, ln) in enumerate(zip(cases, lines)):
        t = ln.split()
        if len(t) < 5 or t[4] != "ok":
            if len(flagged) < 3:
                ctx.tie_broken("float run: C driver reported '%s' on case %d (%s)" % (" ".join(t[:5])[:120], idx, c.key()))
            flagged.append(idx)
            continue
        outv = [hex2f(v) for v in t[5:]]
        fl = lambda a: "[" + "; ".join(coq_float(v) for v in a) + "]"
        items.append("(%s, %d%%nat, %d%%nat, %d%%nat, %s, %s, %s, %s)" % (ops[c.op], c.d[0], c.d[1], c.d[2], fl(c.X), fl(c.Y), fl(c.O), fl(outv)))
        usable.append(idx)
    src = ["From Coq Require Import List Floats ZArith.", "From LibaV Require Import C09.LinalgDefs C09.LinalgFloat.",
           "Import ListNotations.", "Open Scope float_scope.", "Definition cases : list fcase := ["]
    src.append(";\n".join(items))
    src.append("].")
    src.append("Definition bad := Eval vm_compute in (failing cases).")
    src.append("Print bad.")
    rc, out = ctx.coq_eval("float_cases", "\n".join(src) + "\n", timeout=900)
    if rc != 0:
        raise vlib.CheckError("float tie: coqc failed: " + out[-1500:])
    import re
    m = re.search(r"bad\s*=\s*(\[.*?\]|nil)\s*:", out, flags=re.S)
    if not m:
        raise vlib.CheckError("float tie: cannot parse coqc output: " + out[-800:])
    body = m.group(1)
    bad = [int(v) for v in re.findall(r"\d+", body)] if body != "nil" else []
    ctx.cov["float_bit_exact"] = {"cases": len(usable), "cells_compared": sum(len(l.split()) - 5 for l in lines if len(l.split()) >= 5),
                                  "disagreements": len(bad),
                                  "rule": "model at PrimFloat (vm_compute) == C -O2 -ffp-contract=off, bit for bit, NaNs identified"}
    ctx.count(evaluations=len(usable), nontrivial=sum(1 for i in usable if all(v >= 1 for v in cases[i].dims_used())))
    for b in bad[:3]:
        c = cases[usable[b]]
        ctx.tie_broken("bit-exact float correspondence: case %d (%s) differs" % (usable[b], c.key()))
    return cases, usable, bad, lines, flagged



# ----------------------------------------------------------------------------------------------
# "wide" tie: a_real_diag1 / a_real_diag2 on matrices with >= 2^32 cells (sparse: MAP_NORESERVE in the C driver,
# association list in the N-indexed model coq/C09/LinalgWide.v).  This is where the width of the integer type in
# which the C computes the offset N * i (a_size, 64 bit) is observable; the list model cannot be run there.
P32 = 1 << 32


class WCase:
    """op in (diag1, diag2); A given by a dict index -> non-zero integer, every other cell 0."""
    __slots__ = ("op", "d", "cells", "tag")

    def __init__(self, op, d, cells, tag=""):
        self.op, self.d, self.cells, self.tag = op, (d[0], d[1] if op == "diag2" else 0), dict(cells), tag

    def mn(self):
        return (self.d[0], self.d[0]) if self.op == "diag1" else self.d

    def line(self):
        parts = [self.op, str(self.d[0]), str(self.d[1]), str(len(self.cells))]
        for k in sorted(self.cells):
            parts += [str(k), str(self.cells[k])]
        return " ".join(parts)

    def key(self):
        return "%s/%s" % (self.op, "x".join(str(v) for v in self.dims_used()))

    def dims_used(self):
        return self.d[:1] if self.op == "diag1" else self.d

    def expected(self):
        """the property: a[i] = A[i][i] = cell i*n + i of the row-major m x n matrix, i < min(m, n)"""
        m, n = self.mn()
        # only listed cells can be non-zero: diagonal cells are the indices divisible by n+1 with quotient < min(m,n)
        out = {}
        for k, v in self.cells.items():
            if k % (n + 1) == 0 and k // (n + 1) < min(m, n) and v != 0:
                out[k // (n + 1)] = v
        return out

    def crosses_2_32(self):
        m, n = self.mn()
        return min(m, n) >= 1 and (n + 1) * (min(m, n) - 1) >= P32

    def as_json(self):
        return {"wide": True, "op": self.op, "dims": list(self.dims_used()),
                "A_nonzero_cells": {str(k): v for k, v in sorted(self.cells.items())},
                "case_line": self.line(),
                "note": "A is the row-major %d x %d matrix that is 0 except at the listed linear indices" % self.mn()}


def parse_wcase(line):
    t = line.split()
    k = int(t[3])
    cells = {int(t[4 + 2 * j]): int(t[5 + 2 * j]) for j in range(k)}
    return WCase(t[0], (int(t[1]), int(t[2])), cells, "replay")


def make_wcase(rng, op, m, n, tag=""):
    """Sparse contents aimed at the offset computation: distinct positive values on selected diagonal cells
    (first, last, around the first index whose offset reaches 2^32, random), distinct negative decoys on the cells
    a narrower or shifted offset computation would read instead."""
    if op == "diag1":
        m = n
    M = min(m, n)
    ncells = m * n
    sel = set()
    if M <= 40:
        sel.update(range(M))
    else:
        sel.update([0, 1, 2, M - 1, M - 2, M - 3])
        i0 = -(-P32 // (n + 1))          # first i with (n+1)*i >= 2^32
        sel.update(i for i in (i0 - 1, i0, i0 + 1, 2 * i0) if 0 <= i < M)
        sel.update(rng.randrange(M) for _ in range(10))
    cells = {}
    v = 1
    for i in sorted(sel):
        cells[i * n + i] = v + (rng.randrange(5) if rng else 0)
        v += 7
    w = -1
    for i in sorted(sel):
        for k in (((n + 1) % P32) * i % P32, ((n + 1) * i) % P32, i * n, i * n + i + 1, i * n + i - 1, (n % P32) * i % P32 + i):
            if 0 <= k < ncells and k not in cells:
                cells[k] = w
                w -= 1
    return WCase(op, (m, n), cells, tag)


def gen_wide_cases(ctx):
    rng = random.Random(ctx.subseed("C09/wide"))
    cases = []
    wc = CORPUS / "wide.sparse"
    if wc.exists():
        for ln in wc.read_text().splitlines():
            ln = ln.strip()
            if ln and not ln.startswith("#"):
                cases.append(parse_wcase(ln))
                cases[-1].tag = "corpus"
    # small sanity shapes (also run by the list model in the main tie)
    for n in (0, 1, 2, 5):
        cases.append(make_wcase(rng, "diag1", n, n, "small"))
    for m, n in ((0, 3), (3, 0), (1, 4), (4, 1), (3, 5), (5, 3), (4, 4)):
        cases.append(make_wcase(rng, "diag2", m, n, "small"))
    # diag1: the largest offset (n+1)(n-1) = n^2 - 1 reaches 2^32 exactly from n = 65537 on
    for n in (65535, 65536, 65537, 65538, rng.randint(65539, 92000)):
        cases.append(make_wcase(rng, "diag1", n, n, "boundary"))
    # diag2: square / m>n / m<n around 2^16; few rows with n around 2^31 and at UINT_MAX (N = n + 1 = 2^32)
    shapes = [(65537, 65537), (65600, 65537), (65537, 65600), (65536, 65536), (70000, 65536),
              (2, (1 << 31) - 1), (2, 1 << 31), (3, 1 << 31), (3, (1 << 31) + 5), (2, P32 - 1), (5, P32 - 1), (3, P32 - 2),
              (P32 - 1, 2), (P32 - 1, 1), (1, P32 - 1)]
    for m, n in shapes:
        cases.append(make_wcase(rng, "diag2", m, n, "boundary"))
    for _ in range(6 if ctx.quick else 40):
        if rng.random() < 0.5:
            m, n = rng.randint(2, 9), rng.randint(1 << 29, P32 - 1)
        else:
            m, n = rng.randint(60000, 99000), rng.randint(60000, 99000)
        cases.append(make_wcase(rng, "diag2", m, n, "random"))
    if not ctx.quick:
        for _ in range(12):
            n = rng.randint(60000, 110000)
            cases.append(make_wcase(rng, "diag1", n, n, "random"))
    return cases


def woracle(case, c_line):
    if c_line.startswith("ABORT"):
        return "the implementation aborted under ASan/UBSan: " + c_line[:300]
    if c_line == "NOT-RUN":
        return None
    t = c_line.split()
    if t[:3] != [case.op, str(case.d[0]), str(case.d[1])]:
        return "driver out of step: " + c_line[:80]
    if t[3] == "no-memory":
        return None          # the sparse mapping could not be reserved on this host: case not evaluated
    if t[3] != "ok":
        return "status %s (guard-lo/guard-hi: a cell before/after the result array was written; input: the matrix was modified)" % t[3]
    got = {}
    for tok in t[4:]:
        i, v = tok.split(":")
        got[int(i)] = v
    exp = case.expected()
    m, n = case.mn()
    for i in sorted(set(got) | set(exp)):
        if got.get(i, "0") != str(exp.get(i, 0)):
            return ("result cell %d is %s, specified value A[%d][%d] = %d (linear index %d*%d+%d = %d%s)"
                    % (i, got.get(i, "0"), i, i, exp.get(i, 0), i, n, i, i * n + i,
                       ", beyond 2^32" if i * n + i >= P32 else ""))
    return None


def wide_tie(ctx, mbin_files):
    cbin = ctx.cc("wdrv", [H / "wdrv.c"], repo_srcs=REPO_SRCS, mode="asan")
    mbin = ctx.ocaml_build("wmdrv", mbin_files + [H / "wmdrv.ml"])
    cases = gen_wide_cases(ctx)
    c_lines = run_c(cbin, cases, max_restarts=10, timeout=600)
    text = "\n".join(c.line() for c in cases) + "\n"
    rc, out, err = vlib.sh2([str(mbin)], stdin=text, timeout=600)
    if rc != 0:
        raise vlib.CheckError("wide model driver failed rc=%d: %s" % (rc, err[-500:]))
    m_lines = out.splitlines()
    if len(m_lines) != len(cases):
        raise vlib.CheckError("wide model driver printed %d lines for %d cases" % (len(m_lines), len(cases)))
    nomem = [i for i, l in enumerate(c_lines) if l.split()[3:4] == ["no-memory"]]
    disagree = [i for i in range(len(cases)) if i not in nomem and (c_lines[i] if i < len(c_lines) else "NOT-RUN") != m_lines[i]]
    fails = []
    for i, c in enumerate(cases):
        why = woracle(c, c_lines[i]) if i < len(c_lines) else None
        if why:
            fails.append((i, why))
    # the model must itself satisfy the specification on every case (theorems diag1N_ok / diag2N_ok)
    mfail = [i for i, c in enumerate(cases) if woracle(c, m_lines[i])]
    if mfail:
        ctx.tie_broken("wide model output differs from the specification on case %d (%s)" % (mfail[0], cases[mfail[0]].key()))
    evaluated = [c for i, c in enumerate(cases) if i not in nomem]
    ctx.count(evaluations=len(evaluated), nontrivial=sum(1 for c in evaluated if c.crosses_2_32()))
    ctx.cov["wide_diag"] = {
        "cases": len(evaluated), "not_evaluated_no_memory": len(nomem),
        "with_a_diagonal_offset_>=_2^32": sum(1 for c in evaluated if c.crosses_2_32()),
        "with_N=n+1=2^32": sum(1 for c in evaluated if c.mn()[1] == P32 - 1),
        "largest_matrix_cells": max((c.mn()[0] * c.mn()[1] for c in evaluated), default=0),
        "result_cells_compared": sum(min(c.mn()) for c in evaluated),
        "disagreements": len(disagree),
        "rule": "a_real_diag1/diag2 from $VERIF_REPO (ASan, sparse MAP_NORESERVE matrix between PROT_NONE pages, canary cells around the "
                "result) vs the extracted N-indexed model (LinalgWide.v); every non-zero result cell compared; distinct values on "
                "the true diagonal cells, decoys on the cells a 32-bit or shifted offset would read",
    }
    if evaluated:
        c = [c for c in evaluated if c.crosses_2_32()][:1] or evaluated[:1]
        i = cases.index(c[0])
        ctx.sample({"wide_case": cases[i].line()[:200], "C": c_lines[i][:160], "model": m_lines[i][:160]})
    if disagree:
        i0 = disagree[0]
        ctx.tie_broken("wide correspondence diag1/diag2 vs N-indexed model: %d of %d cases differ, first: case %d (%s): C '%s' / model '%s'"
                       % (len(disagree), len(cases), i0, cases[i0].key(), c_lines[i0][:120] if i0 < len(c_lines) else "", m_lines[i0][:120]))
    if fails and not disagree:
        ctx.tie_broken("wide run: the C output violates the specification although it agrees with the model (case %d, %s)"
                       % (fails[0][0], cases[fails[0][0]].key()))
    done = ctx.__dict__.setdefault("_c09_reported", set())
    for i, why in fails:
        c = cases[i]
        if "wide-" + c.op in done:
            continue
        done.add("wide-" + c.op)
        # shrink: the first failing shape of an ascending list of candidates (canonical contents), else the case itself
        if c.op == "diag1":
            cand = [(n, n) for n in (1, 2, 3, 10, 1000, 65535, 65536, 65537) if n <= c.d[0]]
        else:
            cand = [s for s in ((1, 1), (2, 3), (3, 2), (3, 3), (2, (1 << 31) - 1), (2, 1 << 31), (3, 1 << 31), (2, P32 - 1),
                                (65536, 65536), (65537, 65537)) if s[0] * s[1] <= c.d[0] * c.d[1]]
        r0 = random.Random(0)
        cands = [make_wcase(r0, c.op, m, n, "shrunk") for m, n in cand]
        lines = run_c(cbin, cands, max_restarts=3, timeout=600) if cands else []
        sc, sl, sw = c, c_lines[i], why
        for cc_, ln in zip(cands, lines):
            w2 = woracle(cc_, ln)
            if w2:
                sc, sl, sw = cc_, ln, w2
                break
        # then the contents: fewest non-zero cells of A on which that shape still fails
        def still_fails(items, sc=sc):
            t = WCase(sc.op, sc.mn(), dict(items), "shrunk")
            return bool(woracle(t, run_c(cbin, [t], max_restarts=1, timeout=120)[0]))
        try:
            small = vlib.ddmin(sorted(sc.cells.items()), still_fails, max_tests=60)
            t = WCase(sc.op, sc.mn(), dict(small), "shrunk")
            ln = run_c(cbin, [t], max_restarts=1, timeout=120)[0]
            w2 = woracle(t, ln)
            if w2:
                sc, sl, sw = t, ln, w2
        except Exception:
            pass
        replay = sc.as_json()
        replay.update({"expected_nonzero_result_cells": {str(k): v for k, v in sorted(sc.expected().items())},
                       "observed_line": sl, "failure": sw, "found_in": "wide run", "original_case_line": c.line()[:2000],
                       "original_failure": why, "model_line": m_lines[i],
                       "how_to_replay": "python3 tools/vcheck.py C09 --replay <this file>   (or: echo '<case_line>' | build/C09/wdrv)"})
        dims = "x".join(str(v) for v in sc.dims_used())
        ctx.report(key="a_real_%s/%s" % (sc.op, dims),
                   what="a_real_%s(%s): %s" % (sc.op, ",".join(str(v) for v in sc.dims_used()), sw),
                   replay=replay, found_input=True)



# ----------------------------------------------------------------------------------------------
# width tie (static): the model computes every integer PRODUCT that becomes an array offset in a_size (sz_mul, 64 bit)
# and the theorems prove that sufficient.  Whether the C really computes them in 64 bit can be observed by running
# only for diag1/diag2 (wide tie); for T1, T2, diag and the products it would take >= 32 GiB of touched memory.  So this
# part of the correspondence is checked on the C's typed syntax tree (clang): inside the a_real_* functions of linalg.c
# no integer multiplication / left shift is computed in a type narrower than 64 bit, no 64-bit integer is cast to a
# narrower one, and no parameter or local integer variable is narrower than a_uint.  (A finding here has a concrete failing input only where the wide tie can produce one.)
_INT_WIDTH = {"unsigned long": 64, "long": 64, "unsigned long long": 64, "long long": 64, "unsigned int": 32, "int": 32,
              "unsigned short": 16, "short": 16, "unsigned char": 8, "signed char": 8, "char": 8, "_Bool": 1}
MODEL_SZ_MUL_SITES = {"a_real_T1": 2, "a_real_T2": 2, "a_real_diag": 1, "a_real_diag1": 1, "a_real_diag2": 1,
                      "a_real_mulmm": 1, "a_real_mulTm": 1, "a_real_mulmT": 2, "a_real_mulTT": 2}


def width_tie(ctx):
    import shutil
    clang = shutil.which("clang")
    if not clang:
        ctx.cov["width_tie"] = "skipped: clang not found"
        return
    cfg = ctx.cfg_header(1, 8)
    rc, out, err = vlib.sh2([clang, "-std=c11", "-w", "-I", str(vlib.REPO / "include"), "-DA_EXPORTS", '-DA_HAVE_H="%s"' % cfg,
                             "-fsyntax-only", "-Xclang", "-ast-dump=json", str(vlib.REPO / "src" / "linalg.c")], timeout=120)
    try:
        tu = json.loads(out)
    except ValueError:
        ctx.cov["width_tie"] = "skipped: clang produced no syntax tree (rc=%d)" % rc
        return

    def width(t):
        q = (t.get("desugaredQualType") or t.get("qualType") or "").replace("const ", "").replace("volatile ", "").strip()
        return _INT_WIDTH.get(q)

    def line_of(n, cur):
        b = n.get("range", {}).get("begin", {})
        b = b.get("expansionLoc", b)
        return b.get("line", cur)

    bad, sites = [], {}

    def walk(n, fname, cur):
        cur = line_of(n, cur)
        k = n.get("kind")
        if k in ("BinaryOperator", "CompoundAssignOperator") and n.get("opcode") in ("*", "*=", "<<", "<<="):
            w = width(n.get("computeResultType", n["type"]) if k == "CompoundAssignOperator" else n["type"])
            if w is not None:
                sites[fname] = sites.get(fname, 0) + 1
                if w < 64:
                    bad.append("%s (src/linalg.c line ~%s): integer '%s' computed in a %d-bit type" % (fname, cur, n.get("opcode"), w))
        if k in ("VarDecl", "ParmVarDecl") and width(n.get("type", {})) in (8, 16):
            bad.append("%s (src/linalg.c line ~%s): integer variable '%s' is narrower than a_uint (%d bit); the model's counters "
                       "and dimensions are a_uint" % (fname, cur, n.get("name", "?"), width(n["type"])))
        if n.get("castKind") == "IntegralCast" and n.get("inner"):
            ws, wd = width(n["inner"][0].get("type", {})), width(n.get("type", {}))
            if ws == 64 and wd is not None and wd < 64:
                bad.append("%s (src/linalg.c line ~%s): 64-bit integer narrowed to %d bit" % (fname, cur, wd))
        for c in n.get("inner") or []:
            if isinstance(c, dict):
                cur = walk(c, fname, cur)
        return cur

    nfun = 0
    for fn in tu.get("inner", []):
        if fn.get("kind") == "FunctionDecl" and fn.get("name", "").startswith("a_real_") and \
                any(c.get("kind") == "CompoundStmt" for c in fn.get("inner", [])):
            nfun += 1
            walk(fn, fn["name"], line_of(fn, None))
    ctx.cov["width_tie"] = {"functions_scanned": nfun, "integer_products_in_C": sites, "sz_mul_sites_in_model": MODEL_SZ_MUL_SITES,
                            "narrow_products_or_narrowing_casts": bad,
                            "rule": "clang syntax tree of $VERIF_REPO/src/linalg.c: every integer * / << inside a_real_* has a 64-bit type, "
                                    "no 64->narrower integer cast, no 8/16-bit integer variable (the model's sz_mul/sz_add are 64 bit, its counters a_uint)"}
    for b in bad[:4]:
        ctx.tie_broken("width tie: " + b + "; the model (and its no-wrap theorems) compute this offset in a_size (64 bit)")


# ----------------------------------------------------------------------------------------------
def build(ctx):
    cbin = ctx.cc("drv", [H / "drv.c"], repo_srcs=REPO_SRCS, mode="asan")
    ml = ctx.extract("C09/Extract.v", ["C09/extracted/linalg_model.ml", "C09/extracted/linalg_model.mli"])
    mbin = ctx.ocaml_build("mdrv", ml[::-1] + [H / "mdrv.ml"])
    ctx.__dict__["_c09_ml"] = ml[::-1]
    return cbin, mbin


MY_V = ["C09/LinalgDefs.v", "C09/LinalgSpec.v", "C09/LinalgFloat.v", "C09/LinalgLemmas.v", "C09/LinalgPatProofs.v",
        "C09/LinalgTProofs.v", "C09/LinalgMulProofs.v", "C09/LinalgRing.v", "C09/LinalgWide.v", "C09/LinalgWideProofs.v",
        "C09/LinalgExamples.v", "C09/Extract.v",
        "Properties_C09.v"]


def coqchk(ctx):
    """thorough: re-check the compiled C09 modules with the independent checker (stdlib not re-checked)."""
    mods = ["LibaV." + v[:-2].replace("/", ".") for v in MY_V if v != "C09/Extract.v"]
    cmd = ["coqchk", "-silent", "-o", "-Q", ".", "LibaV"]
    for m in mods:
        cmd += ["-norec", m]
    rc, out = vlib.sh(cmd, cwd=vlib.COQ, timeout=900)
    if rc != 0:
        ctx.tie_broken("coqchk rejected the C09 development: " + " ".join(out.split())[-600:])
    else:
        ctx.cov["trusted_base"].append("thorough: coqchk -o -norec on %d C09 modules accepted them" % len(mods))
        ctx.cov["coqchk"] = "ok (%d modules)" % len(mods)


def run(ctx):
    if not ctx.quick:
        # clean rebuild of this property's own files
        for v in MY_V:
            vo = (vlib.COQ / v).with_suffix(".vo")
            if vo.exists():
                vo.unlink()
    ok = ctx.prove()
    # translator tie: src/linalg.c is re-translated on every run with the dimensions fixed (every shape with all dimensions in
    # 1..3, loops unrolled, arrays exactly sized: an out-of-bounds access is a translation error) and, shape by shape, proved to
    # compute the cells of the hand model for ALL array contents and every NumOps instance (189 tie theorems)
    tie_names = (H / "tie_names.txt").read_text().split()
    ctx.translate_and_tie([("src/linalg.c", tie_names)], "GenLinalg", sorted(H.glob("TieLinalg*.v")), have=1, real=8)
    # ... and the same kernels with their loops as Fixpoints (tools/c2arr.py), proved equal to the hand model for EVERY dimension
    # that is an a_uint value and every array (harness/C09/TieLoop*.v)
    import varr
    varr.arr_translate_and_tie(ctx, "C09")
    okf, outs, failed = ctx.coq_build(["C09/LinalgFloat.v"], timeout=600)
    if not okf:
        raise vlib.CheckError("C09/LinalgFloat.v does not compile: " + " ".join(outs.get("C09/LinalgFloat.v", "").split())[-400:])
    if ok and not ctx.quick:
        coqchk(ctx)
    cbin, mbin = build(ctx)
    cases = gen_cases(ctx)
    ctx.log("generated %d cases" % len(cases))
    c_lines = run_c(cbin, cases)
    m_res = run_model(mbin, cases)
    if len(m_res) != len(cases):
        raise vlib.CheckError("model driver printed %d lines for %d cases" % (len(m_res), len(cases)))
    ctx.log("ran C and model")
    disagree = []
    nw_bad = []
    for i, c in enumerate(cases):
        ml, nw = m_res[i]
        cl = c_lines[i] if i < len(c_lines) else "NOT-RUN"
        if cl != ml:
            disagree.append(i)
        if nw is not None and nw != expected_writes(c.op, c.d):
            nw_bad.append(i)
    if nw_bad:
        c = cases[nw_bad[0]]
        ctx.tie_broken("model write count of %s differs from the count stated by the theorems (%d cases)" % (c.key(), len(nw_bad)))
    # evidence
    shape = {}
    for c in cases:
        du = c.dims_used()
        if c.op in OPS2:
            cls = "m<n" if du[0] < du[1] else ("m=n" if du[0] == du[1] else "m>n")
        elif c.op in OPS3:
            cls = "inner=1" if {"mulmm": du[1], "mulTm": du[0], "mulmT": du[2], "mulTT": du[1]}[c.op] == 1 else \
                  ("has-zero-dim" if 0 in du else ("non-square" if len(set(du)) > 1 else "cube"))
        else:
            cls = "n=%s" % ("0" if du[0] == 0 else "1" if du[0] == 1 else ">=2")
        shape.setdefault(c.op, {}).setdefault(cls, 0)
        shape[c.op][cls] += 1
    distinct = set()
    for c in cases:
        if all(v >= 1 for v in c.dims_used()) and sizes(c.op, c.d)[2] >= 2:
            distinct.add(c.line())
    ctx.count(evaluations=len(cases), nontrivial=len(distinct))
    ctx.cov["rule"] = ("distinct case lines (routine, shape, contents) with every dimension >= 1 and a result array of >= 2 cells; "
                       "each is run through the extracted model and the C and compared cell by cell")
    ctx.cov["shape_classes"] = shape
    ctx.cov["max_dims"] = {"square": max(c.d[0] for c in cases if c.op in OPS1),
                           "rect": max(max(c.d[:2]) for c in cases if c.op in OPS2),
                           "product": max(max(c.d) for c in cases if c.op in OPS3)}
    ctx.cov["cells_compared"] = sum(sizes(c.op, c.d)[2] for c in cases)
    # which case splits of the model (= of the C) the generated shapes drive
    rect = [c for c in cases if c.op in ("eye2", "tri2", "triL2", "triU2")]
    prod = [c for c in cases if c.op in OPS3]
    inner = lambda c: {"mulmm": c.d[1], "mulTm": c.d[0], "mulmT": c.d[2], "mulTT": c.d[1]}[c.op]
    ctx.cov["model_case_splits"] = {
        "rect: A_MIN picks m, second block skipped (m<=n)": sum(1 for c in rect if c.d[0] <= c.d[1]),
        "rect: A_MIN picks n, second block runs rows n..m-1 (m>n)": sum(1 for c in rect if c.d[0] > c.d[1]),
        "row body: first inner loop empty (row 0) and last row (trailing loop empty)": sum(1 for c in cases if c.op not in OPS3 and c.d[0] >= 1),
        "diag2: min(m,n)=m / =n": [sum(1 for c in cases if c.op == "diag2" and c.d[0] <= c.d[1]),
                                   sum(1 for c in cases if c.op == "diag2" and c.d[0] > c.d[1])],
        "product: inner dimension 0 (accumulation loops never entered; Z = z keeps z_)": sum(1 for c in prod if inner(c) == 0),
        "product: inner dimension 1": sum(1 for c in prod if inner(c) == 1),
        "product: inner dimension >= 2, row != col (strides distinguishable)": sum(1 for c in prod if inner(c) >= 2 and len(set(c.d)) == 3),
        "T1: n <= 1 (no exchange) / n >= 2": [sum(1 for c in cases if c.op == "T1" and c.d[0] <= 1),
                                              sum(1 for c in cases if c.op == "T1" and c.d[0] >= 2)],
    }
    ctx.cov["trusted_base"].extend([
        "extraction with ExtrOcamlBasic only (nat/Z/positive stay inductives) + harness/C09/mdrv.ml (parsing/printing)",
        "harness/C09/drv.c, gcc, ASan/UBSan, canary cells (48 on each side of the result array), fetestexcept",
        "checks/C09.py reference definitions (exact Python integers) used as search oracle and evaluated on every case",
        "model abstractions: integer VALUES are carried in nat, but every offset expression is evaluated with the C's type "
        "(a_uint: wrap mod 2^32, a_size: wrap mod 2^64; sites listed in LinalgDefs.v) and proved not to wrap for dimensions < 2^32; "
        "pointer arithmetic (*E++, A += n, x + c_r) is an element offset without wrap; loop counters are bounded by their guards; "
        "__restrict inputs are immutable lists; identical row bodies of the square and rectangular variants share one model definition",
        "offset WIDTH is exercised by the tie only for a_real_diag1/diag2 (wide run, matrices up to 2^34 cells, sparse); for T1, T2, diag "
        "and the four products a run with an offset >= 2^32 needs >= 32 GiB of touched memory and is not made: there the a_size casts "
        "are modelled and proved sufficient, and that the C has them is checked on clang's typed syntax tree (width tie: every integer "
        "product in a_real_* is 64 bit, no narrowing cast, no 8/16-bit variable) - a finding there comes without a runnable failing input",
        "harness/C09/wdrv.c (mmap MAP_NORESERVE + PROT_NONE pages), harness/C09/wmdrv.ml; LinalgWide.v is a second hand-written model of "
        "diag1/diag2, tied to the list model by theorems (same offset expression for all arguments, same results on common arrays)",
        "same Gallina term instantiated at Z (tie), PrimFloat (bit-exact tie) and arbitrary T (theorems)",
    ])
    ctx.cov["model_write_counts_checked"] = len(cases) - len(nw_bad)
    for c in (cases[len(cases) // 7], cases[len(cases) // 2], cases[-1]):
        i = cases.index(c)
        ctx.sample({"case": c.line()[:200], "C": c_lines[i][:200] if i < len(c_lines) else "", "model": m_res[i][0][:200]})

    # The property itself, evaluated on everything the C produced (cheap, so it is not reserved for the
    # case of a broken tie): exact integer definition, guard cells, inputs unmodified, no sanitizer abort.
    fails = []
    for i, c in enumerate(cases):
        why = oracle(c, c_lines[i]) if i < len(c_lines) else None
        if why:
            fails.append((i, why))
    ctx.cov["oracle_evaluations"] = len(cases)
    if disagree:
        i0 = disagree[0]
        ctx.tie_broken("correspondence linalg.c vs model: %d of %d cases differ, first: case %d (%s): C '%s' / model '%s'"
                       % (len(disagree), len(cases), i0, cases[i0].key(), c_lines[i0][:120] if i0 < len(c_lines) else "", m_res[i0][0][:120]))
    if fails and not disagree:
        ctx.tie_broken("the C output violates the specification although it agrees with the model (case %d, %s)"
                       % (fails[0][0], cases[fails[0][0]].key()))
    dis = set(disagree)
    for i, why in sorted(fails, key=lambda f: (f[0] not in dis, f[0])):
        report_failure(ctx, cbin, cases[i], c_lines[i], why, m_res[i][0])
    # static width tie, then the wide run (diag1/diag2 beyond 2^32 cells)
    width_tie(ctx)
    try:
        wide_tie(ctx, ctx.__dict__["_c09_ml"])
    except vlib.CheckError as e:
        ctx.tie_broken("wide tie could not run: " + str(e)[:600])
    # bit-exact float run
    try:
        fcases, usable, bad, flines, flagged = float_tie(ctx)
        # a float disagreement / a guard hit in the float run is a broken tie; the failing input is looked for
        # with the exact integer oracle on the same routine and shape (canonical integer contents), then shrunk
        # the property evaluated bit for bit on every line of the float run (copy / move kernels): a failure is reported with the
        # float case itself as the failing input
        ffail = [(i, float_oracle(c, flines[i])) for i, c in enumerate(fcases) if i < len(flines)]
        ffail = [(i, why) for i, why in ffail if why]
        ctx.cov["float_bitwise_oracle"] = {"lines_evaluated": sum(1 for c in fcases if c.op not in OPS3), "failing": len(ffail)}
        if ffail and not bad and not flagged:
            ctx.tie_broken("float run: the C output violates the bitwise specification although it agrees with the PrimFloat model (case %d, %s)"
                           % (ffail[0][0], fcases[ffail[0][0]].key()))
        done = ctx.__dict__.setdefault("_c09_reported", set())
        for i, why in sorted(ffail, key=lambda f: sum(sizes(fcases[f[0]].op, fcases[f[0]].d))):
            c = fcases[i]
            if c.op in done:
                continue
            done.add(c.op)
            dims = ",".join(str(v) for v in c.dims_used())
            ctx.report(key="a_real_%s/%s" % (c.op, dims.replace(",", "x")),
                       what="a_real_%s(%s) on doubles (%s): %s" % (c.op, dims, c.tag, why),
                       replay={"float_bits": True, "op": c.op, "dims": list(c.d), "X": [repr(v) for v in c.X], "O_initial": [repr(v) for v in c.O],
                               "case_line": c.line(), "expected_result": [repr(float(v)) for v in expected(c.op, c.d, c.X, c.Y, c.O)],
                               "observed_line": flines[i], "failure": why, "found_in": "bit-exact float run (%s)" % c.tag,
                               "how_to_replay": "python3 tools/vcheck.py C09 --replay <this file>   (or: echo '<case_line>' | build/C09/drv_num hex, "
                                                "built by checks/C09.py from $VERIF_REPO/src/linalg.c with -O2 -ffp-contract=off; values are "
                                                "x<16 hex digits of the binary64 pattern>)"},
                       found_input=True)
        for idx in flagged + [usable[b] for b in bad]:
            c = fcases[idx]
            if c.op in done:
                continue
            ic = make_case(None, c.op, c.d, "canon")
            ln = run_c(cbin, [ic])[0]
            why = oracle(ic, ln)
            if why:
                report_failure(ctx, cbin, ic, ln, why, origin="float run, case '%s'" % c.line()[:300])
    except vlib.CheckError as e:
        ctx.tie_broken("float tie could not run: " + str(e)[:600])
    __import__("vglue").glue(ctx, "C09")   # glue around the modelled core: float / long double builds of every kernel (differential tests, tools/vglue.py); linalg.h has no C++ members (scanned on every run)


def replay(ctx, path):
    obj = json.loads(Path(path).read_text())
    r = obj.get("replay", obj)
    if r.get("wide"):
        c = parse_wcase(r["case_line"])
        cbin = ctx.cc("wdrv", [H / "wdrv.c"], repo_srcs=REPO_SRCS, mode="asan")
        ln = run_c(cbin, [c])[0]
        why = woracle(c, ln)
        print("case    :", c.line()[:400])
        print("C       :", ln)
        print("expected:", c.expected(), "(non-zero result cells)")
        print("property:", "VIOLATED - " + why if why else "holds on this case")
        return 1 if why else 0
    if r.get("float_bits"):
        c = parse_fcase(r["case_line"])
        cbin = ctx.cc("drv_num", [H / "drv.c"], repo_srcs=REPO_SRCS, mode="num")
        ln = run_c(cbin, [c], args=("hex",))[0]
        why = float_oracle(c, ln)
        print("case    :", c.line())
        print("C       :", ln)
        print("expected:", " ".join(f2hex(float(v)) for v in expected(c.op, c.d, c.X, c.Y, c.O)))
        print("property:", "VIOLATED - " + why if why else "holds on this case")
        return 1 if why else 0
    c = parse_case(r["case_line"])
    cbin, mbin = build(ctx)
    ln = run_c(cbin, [c])[0]
    why = oracle(c, ln)
    print("case    :", c.line())
    print("C       :", ln)
    print("model   :", run_model(mbin, [c])[0][0])
    print("expected:", expected(c.op, c.d, c.X, c.Y, c.O))
    print("property:", "VIOLATED - " + why if why else "holds on this case")
    return 1 if why else 0


META = {
    "text": "Rocq theorems over an arbitrary element type, for ALL contents and ALL dimensions an a_uint can hold (0 included, m<n, m=n, "
            "m>n, inner dimension 1; hypothesis U32 d, i.e. d < 2^32, exactly on the dimensions that enter an integer offset computation): "
            "the four product variants return exactly the defining sums with the documented operand shapes and equal mulmm on operands "
            "transposed by T2; T1/T2 are exact, involutive and agree on squares; the 13 identity/triangle/diagonal routines produce exactly "
            "their pattern; every model run is Ok (no out-of-bounds read or write on exactly-sized arrays, fuel never exhausted, none of the "
            "a_uint/a_size offset computations wraps) with the stated number of stores; ring-level corollaries ((YX)^T = X^T Y^T, eye1 is a "
            "left/right unit, summation order irrelevant) over any ring_theory, instantiated at Z and R. a_real_diag1/diag2 are modelled a "
            "second time with binary offsets and a sparse matrix (LinalgWide.v): same offset expression as the list model for all arguments, "
            "no wrap in 64 bit, wrap in 32 bit (witness n=65537), same results as the list model. "
            "Tie (correspondence, not proof): list model extracted at Z vs the C on integer-valued doubles (exact, FP flags checked, canary "
            "cells, ASan/UBSan), every shape of every routine up to a bound exhaustively plus random larger ones; the same Gallina term at "
            "PrimFloat vs the C bit for bit on arbitrary doubles; N-indexed model vs the C for diag1/diag2 on sparse matrices of 2^32..2^34 "
            "cells (n = 65535..65538, 2^31, UINT_MAX). The exact integer definition of every routine is evaluated on all C outputs. "
            "Static width tie: in clang's typed syntax tree of src/linalg.c every integer product inside a_real_* is computed in 64 bit "
            "and nothing is narrowed (these are the sites where the model uses its 64-bit sz_mul). "
            "Differential tests, not theorems: the bit-exact float run starts with directed matrices of signed zeros (+0.0 and -0.0 in mirrored "
            "positions, stale result cells of the opposite sign) for every kernel that copies or moves values, and the exact definition is "
            "evaluated bit for bit on every line of that run; the glue run (tools/vglue.py, harness/glue/cfg_C09.c) builds every kernel "
            "for a_real = float, double and long double with ASan/UBSan and requires exactly the integers of the same reference definition "
            "on all shapes 0..5 and the tile-edge shapes, each array an exactly-sized block between guard bytes. "
            "LOOP TIE (harness/C09/TieLoop1.v .. TieLoop6.v, 19 theorems re-proved on every run): all 19 kernels are regenerated from the "
            "current linalg.c with their 64 loops as Fixpoints (tools/c2arr.py: one Fixpoint per loop level, arrays as lists with checked "
            "access, a_uint counters with ++ checked to fit 32 bits, the a_size offsets (a_size)n*r, nr+c, N*i, row*col checked to fit 64 "
            "bits) and proved equal to the cursor-level model LinalgDefs.v - the one the theorems above are about - for every NumOps "
            "instance and EVERY dimension that is an a_uint value (U32, the model's own hypothesis), every array of any length (an "
            "access outside an array: the model's OutOfBounds on the same run) and any initial write count; the model's OutOfFuel is "
            "excluded by the measure each loop lemma carries.",
    "note": "Trusted: Coq kernel/vm_compute; extraction (ExtrOcamlBasic only) + OCaml/C drivers; gcc, ASan/UBSan, mmap, clang -ast-dump. The cursor-level "
            "models coq/C09/LinalgDefs.v and LinalgWide.v are hand-written; LinalgDefs.v is tied to the C by correspondence on the generated "
            "shapes and by the translator ties (unrolled: dimensions 0..3; loops as Fixpoints: every dimension), in which the translators "
            "tools/c2coq.py and tools/c2arr.py are trusted to read the C right - their output is proved equal to the model, not to the C. "
            "a_uint is modelled as 32 bit and a_size as 64 bit with explicit wrap at every integer offset computation (theorems hold for "
            "dimensions < 2^32 - exactly the representable ones); pointer steps are element offsets without wrap; integer values are carried "
            "in nat. The tie exercises offsets >= 2^32 only for diag1/diag2; for T1, T2, diag and the products that would need >= 32 GiB of "
            "touched memory, so a narrowing of their a_size casts is detected only by the static width tie "
            "(clang syntax tree; reported without a runnable failing input), not by running. "
            "Memory safety of the C is observed (guards, ASan), proved only of the model. A pointer more than one past the end is formed (never "
            "dereferenced) by `y += n` in a_real_mulTT; the model treats it as a plain offset. Real-number axioms only under the R instances. "
            "The float and long double builds are not modelled in Rocq: they are covered by the glue run only (integer-valued data, exact in "
            "binary32), which is a differential test on generated shapes.",
    "technique": "Rocq proof (loop invariants over cursor arithmetic with explicit 32/64-bit wrap, induction on dimensions) + "
                 "linalg.c re-translated on every run for every shape with dimensions 0..3 (loops unrolled, arrays exactly sized) and proved equal "
                 "to the model for all contents (388 tie theorems), and re-translated with its loops as Fixpoints and proved equal to the model for "
                 "every dimension (19 tie theorems) + extracted-model (Z, N-indexed sparse) and PrimFloat vs C correspondence",
    "category": "proof",
}
