"""C18 -- UTF-8 codec (src/utf.c).

  proofs : coq/Properties_C18.v (13 theorems over the model coq/C18/UtfDefs.v)
  tie    : harness/C18/drv.c (a_utf_* compiled from the CURRENT $VERIF_REPO/src/utf.c, ASan+UBSan,
           every buffer flush against a PROT_NONE page) against harness/C18/mdrv.ml (the model,
           extracted with ExtrOcamlBasic only) on the same case file, canonical lines diffed
  oracle : the property itself evaluated on what the C produced -- in Python on every line of the
           C driver's output (independent reference encoder) and in C over code-point ranges
           (harness/C18/sweep.c; thorough: all 2^31-1 code points, sharded)
All randomness derives from ctx.subseed().
"""
import random
import time
from concurrent.futures import ThreadPoolExecutor
from pathlib import Path

try:
    from tools import vlib
except ImportError:  # pragma: no cover
    import vlib

H = vlib.VERIF / "harness" / "C18"
CORPUS = vlib.VERIF / "corpus" / "C18"
BOUNDS = [0x80, 0x800, 0x10000, 0x200000, 0x4000000, 0x80000000]
POW64 = [0x40, 0x1000, 0x40000, 0x1000000, 0x40000000]
RANGES = [(1, 0x80), (0x80, 0x800), (0x800, 0x10000), (0x10000, 0x200000),
          (0x200000, 0x4000000), (0x4000000, 0x80000000)]
INTERESTING = [0x00, 0x01, 0x7F, 0x80, 0xBF, 0xC0, 0xC1, 0xC2, 0xDF, 0xE0, 0xEF, 0xF0, 0xF7, 0xF8,
               0xFB, 0xFC, 0xFD, 0xFE, 0xFF, 0x41]


# ----------------------------------------------------------------------------- reference (oracle)
def ref_len(v):
    for n, (lo, hi) in enumerate(RANGES, 1):
        if v < hi:
            return n
    return 6


def ref_enc(v):
    n = ref_len(v)
    if n == 1:
        return bytes([v])
    out = []
    for _ in range(n - 1):
        out.append(0x80 + v % 64)
        v //= 64
    out.append([0, 0, 0xC0, 0xE0, 0xF0, 0xF8, 0xFC][n] + v)
    return bytes(reversed(out))


def hx(b):
    return b.hex().upper() if b else "-"


def unhx(h):
    return b"" if h == "-" else bytes.fromhex(h)


def is_cont(c):
    return 0x80 <= c < 0xC0


# ----------------------------------------------------------------------------- generators
def gen_codepoints(ctx):
    """code points aimed at the ladder boundaries, the div/mod-64 digit boundaries, and random."""
    rng = random.Random(ctx.subseed("codepoints"))
    cps = []
    cps.extend(range(0, 0x20000))
    for b in BOUNDS + POW64:
        cps.extend(v for v in range(b - 64, b + 65) if 0 <= v <= 0xFFFFFFFF)
    cps.extend([0xFFFFFFFF, 0xFFFFFFFE, 0x80000001, 0xC0000080, 0x7FFFFFFF, 0x7FFFFFFE, 0x10FFFF, 0xD800, 0xFFFE])
    per = 10000 if ctx.quick else 170000
    for lo, hi in RANGES:
        for _ in range(per):
            cps.append(rng.randrange(lo, hi))
    for _ in range(per // 10):
        cps.append(rng.randrange(0x80000000, 0x100000000))      # the & 0x7FFFFFFF mask
    # digit patterns: every 6-bit digit all-ones / all-zero combination
    for n in range(1, 7):
        for m in range(1 << n):
            v = 0
            for i in range(n):
                v = (v << 6) | (0x3F if (m >> i) & 1 else 0)
            cps.append(v & 0x7FFFFFFF)
    return cps


def mutate(rng, b):
    b = bytearray(b)
    k = rng.randrange(8)
    if k == 0 and b:
        b[rng.randrange(len(b))] = rng.choice(INTERESTING)
    elif k == 1 and b:
        b[rng.randrange(len(b))] = rng.randrange(256)
    elif k == 2 and b:
        del b[rng.randrange(len(b)):]
    elif k == 3:
        b.extend(rng.choice([0x80, 0xBF, 0x00, 0x41, 0xC0]) for _ in range(rng.randrange(1, 4)))
    elif k == 4 and b:
        i = rng.randrange(len(b))
        b[i] ^= 1 << rng.randrange(8)
    elif k == 5 and len(b) > 1:
        del b[rng.randrange(1, len(b))]
    elif k == 6 and b:
        b[0] = rng.choice([0xFE, 0xFF, 0xFC, 0xF8, 0xF0, 0xE0, 0xC0, 0x80, 0xBF])
    else:
        b.insert(rng.randrange(len(b) + 1), rng.choice(INTERESTING))
    return bytes(b)


def gen_decode_cases(ctx):
    """(num, bytes, want) for D lines."""
    rng = random.Random(ctx.subseed("decode"))
    out = []
    # structured: every lead byte x number of following continuation bytes x what comes after
    for lead in range(0x80, 0x100):
        for nc in range(0, 8):
            base = bytes([lead]) + bytes(0x80 + ((lead + i) & 0x3F) for i in range(nc))
            out.append((len(base), base, 1))
            out.append((len(base), base, 0))
            for tail in (0x00, 0x41, 0xC0, 0xFF):
                out.append((len(base) + 1, base + bytes([tail]), 1))
            if nc:
                # one continuation byte replaced by a near miss (0x7F / 0xC0) at each position
                pos = 1 + (lead % nc)
                for bad in (0x7F, 0xC0, 0x00, 0xFF):
                    m = bytearray(base)
                    m[pos] = bad
                    out.append((len(m), bytes(m), 1 if bad & 1 else 0))
                # stated length shorter than the memory: the bytes behind num must not matter
                out.append((len(base) - 1, base, 1))
                out.append((len(base) - 1, base[:-1], 1))
    for b0 in range(0, 0x80):
        out.append((1, bytes([b0]), 1))
        out.append((1, bytes([b0]), 0))
        out.append((0, bytes([b0]), 1))
    out.append((0, b"", 1))
    out.append((0, b"", 0))
    # all two-byte strings (thorough) / a sample of them (quick)
    pairs = [(a, b) for a in range(256) for b in range(256)]
    if ctx.quick:
        pairs = rng.sample(pairs, 6000)
    for a, b in pairs:
        out.append((2, bytes([a, b]), 1))
    # every lead byte followed by two bytes from the boundary set (class edges of the case analysis)
    edge = [0x00, 0x7F, 0x80, 0xBF, 0xC0, 0xFF] if ctx.quick else INTERESTING
    for a in range(0x80, 0x100):
        for b in edge:
            for c in edge:
                out.append((3, bytes([a, b, c]), (a ^ b ^ c) & 1))
    # valid encodings, mutated / truncated / extended
    n = 25000 if ctx.quick else 400000
    for _ in range(n):
        lo, hi = rng.choice(RANGES)
        b = ref_enc(rng.randrange(lo, hi))
        for _ in range(rng.randrange(0, 3)):
            b = mutate(rng, b)
        want = rng.randrange(4) != 0
        r = rng.randrange(10)
        if r < 6 or not b:
            out.append((len(b), b, int(want)))
        elif r < 8:
            num = rng.randrange(len(b) + 1)
            out.append((num, b, int(want)))           # memory longer than the stated length
            out.append((num, b[:num], int(want)))     # same stated bytes, nothing behind them
        else:
            num = rng.randrange(len(b) + 1)
            out.append((num, b[:num], int(want)))
    # raw random bytes
    for _ in range(n // 5):
        ln = rng.randrange(0, 10)
        b = bytes(rng.choice(INTERESTING) if rng.randrange(3) == 0 else rng.randrange(256) for _ in range(ln))
        out.append((len(b), b, rng.randrange(2)))
    return out


def gen_length_cases(ctx):
    """(num, bytes) for L lines: concatenated encodings with occasional defects."""
    rng = random.Random(ctx.subseed("length"))
    out = [(0, b""), (1, b"\x00"), (1, b"A"), (3, b"\xe2\x82\xac"), (2, b"\xe2\x82"), (6, b"\xe2\x82\xacA\x00A")]
    n = 6000 if ctx.quick else 100000
    for _ in range(n):
        parts = []
        for _ in range(rng.randrange(0, 12 if ctx.quick else 40)):
            lo, hi = rng.choice(RANGES)
            e = ref_enc(rng.randrange(lo, hi))
            r = rng.randrange(40)
            if r == 0:
                e = mutate(rng, e)
            elif r == 1:
                e = b"\x00"
            elif r == 2:
                e = bytes([rng.choice([0x80, 0xBF, 0xFE, 0xFF, 0xC0])])
            parts.append(e)
        b = b"".join(parts)
        r = rng.randrange(10)
        if r < 6:
            out.append((len(b), b))
        elif r < 8:
            out.append((rng.randrange(len(b) + 1), b))       # memory longer than stated
        else:
            num = rng.randrange(len(b) + 1)                   # truncated in the middle of a character
            out.append((num, b[:num]))
    return out


def corpus_lines():
    lines = []
    if CORPUS.is_dir():
        for f in sorted(CORPUS.glob("*.txt")):
            for ln in f.read_text().splitlines():
                ln = ln.strip()
                if ln and not ln.startswith("#"):
                    lines.append(ln)
    return lines


def gen_cases(ctx):
    lines = corpus_lines()
    ncorpus = len(lines)
    for v in gen_codepoints(ctx):
        lines.append("R %d" % v)
        if v < 0x1000 or v % 3 == 0 or v >= 0x20000:
            lines.append("E %d" % v)
    for num, b, want in gen_decode_cases(ctx):
        lines.append("D %d %s %d" % (num, hx(b), want))
    for num, b in gen_length_cases(ctx):
        lines.append("L %d %s" % (num, hx(b)))
    return lines, ncorpus


# ----------------------------------------------------------------------------- property oracle
def oracle_line(case, out, dgroups):
    """Evaluate the property on one line the C implementation produced.  Returns None or (kind, message)."""
    f = case.split()
    o = out.split()
    if not o or o[0] in ("CRASH", "ABORT"):
        return ("crash", "the implementation touched memory outside the buffer it was given (SIGSEGV at the "
                         "PROT_NONE guard page) or a sanitizer reported undefined behaviour: " + out[:220])
    try:
        if f[0] == "E":
            v = int(f[1])
            if not (1 <= v < 0x80000000):
                return None
            n0, n, h0, h1 = int(o[1]), int(o[2]), o[3], o[4]
            want = hx(ref_enc(v))
            if n0 != ref_len(v):
                return ("encode-length", "a_utf_encode(%#x, NULL) = %d, the table prescribes %d bytes" % (v, n0, ref_len(v)))
            if n != ref_len(v):
                return ("encode-length", "a_utf_encode(%#x, buf) = %d, the table prescribes %d bytes" % (v, n, ref_len(v)))
            if h0 != want or h1 != want:
                return ("encode-bytes", "a_utf_encode(%#x) stored %s / %s (buffer pre-filled 00 / FF), the table prescribes %s" % (v, h0, h1, want))
            return None
        if f[0] == "R":
            v = int(f[1])
            if not (1 <= v < 0x80000000):
                return None
            n = int(o[1])
            if n != ref_len(v):
                return ("encode-length", "a_utf_encode(%#x) = %d bytes, the table prescribes %d" % (v, n, ref_len(v)))
            if o[2] != hx(ref_enc(v)):
                return ("encode-bytes", "a_utf_encode(%#x) stored %s, the table prescribes %s" % (v, o[2], hx(ref_enc(v))))
            if o[3] != str(n) or o[4] != str(v):
                return ("round-trip", "a_utf_decode(encode(%#x)=%s, %d) = (%s, %s), expected (%d, %d)" % (v, o[2], n, o[3], o[4], n, v))
            if o[5] != str(n):
                return ("round-trip-null", "a_utf_decode(encode(%#x), %d, NULL) = %s, expected %d" % (v, n, o[5], n))
            bar = o.index("|")
            bar2 = o.index("|", bar + 1)
            pre = o[bar + 1:bar2]
            for k in range(n):
                if pre[2 * k] != "0":
                    return ("prefix-accepted", "a_utf_decode on the %d-byte proper prefix of encode(%#x)=%s returned %s, "
                            "expected failure (0)" % (k, v, o[2], pre[2 * k]))
            if o[bar2 + 1] != str(n) or o[bar2 + 2] != str(v):
                return ("round-trip-trailing", "a_utf_decode(encode(%#x) ++ BF, %d) = (%s, %s), expected (%d, %d)" % (v, n + 1, o[bar2 + 1], o[bar2 + 2], n, v))
            return None
        if f[0] == "D":
            num, b, want = int(f[1]), unhx(f[2]), int(f[3])
            ret = int(o[1])
            if ret > num:
                return ("reports-more-than-available", "a_utf_decode(%s, num=%d) reports %d bytes, more than are available" % (f[2], num, ret))
            if ret >= 2 and not all(is_cont(c) for c in b[1:ret]):
                return ("non-continuation-accepted", "a_utf_decode(%s, num=%d) accepted a %d-byte sequence whose trailing bytes are "
                        "not all continuation bytes" % (f[2], num, ret))
            key = (num, b[:num], want)
            prev = dgroups.get(key)
            if prev is None:
                dgroups[key] = (out, f[2])
            elif prev[0] != out:
                return ("reads-beyond-num", "a_utf_decode with num=%d gives %r on memory %s but %r on memory %s: "
                        "bytes beyond the stated length were read" % (num, prev[0], prev[1], out, f[2]))
            return None
        if f[0] == "L":
            num = int(f[1])
            ln, stop, ln2 = o[1], o[2], o[3]
            bar = o.index("|")
            chain = [int(x) for x in o[bar + 1:]]
            pos = [r for r in chain if r > 0]
            if chain and chain[-1] != 0:
                return ("reports-more-than-available", "a_utf_decode reports %d bytes with fewer left (walking %s, num=%d)" % (chain[-1], f[2], num))
            if int(ln) != len(pos) or int(stop) != sum(pos):
                return ("length-walk", "a_utf_length(%s, num=%d) = %s with stop=%s, but the decoder reports the lengths %s "
                        "(count %d, sum %d)" % (f[2], num, ln, stop, chain, len(pos), sum(pos)))
            if ln2 != ln:
                return ("length-null", "a_utf_length(%s, num=%d, NULL) = %s but %s with a stop pointer" % (f[2], num, ln2, ln))
            if int(stop) > num:
                return ("length-overrun", "a_utf_length(%s, num=%d) consumed %s bytes" % (f[2], num, stop))
            return None
    except (ValueError, IndexError):
        return ("unparsable", "unparsable output line %r for case %r" % (out, case))
    return None


# ----------------------------------------------------------------------------- running
def run_bin(binp, text, timeout=600):
    rc, out, err = vlib.sh2([str(binp)], stdin=text, timeout=timeout,
                            env={"ASAN_OPTIONS": "detect_leaks=0:allow_user_segv_handler=1"})
    return rc, out.splitlines(), err


def run_c_cases(cbin, lines, max_crashes=6):
    """Run the C driver; a crash consumes the case it happened on and the run resumes behind it.
    Returns (outputs, [(index, stderr-tail)]); after max_crashes crashes the rest is not run."""
    outs, crashes = [], []
    start = 0
    while start < len(lines):
        rc, o, err = run_bin(cbin, "\n".join(lines[start:]) + "\n")
        outs.extend(o)
        if rc == 0:
            break
        # the handler printed CRASH/ABORT for the case it died on; otherwise blame the next case
        if o and (o[-1].startswith("CRASH") or o[-1].startswith("ABORT")):
            idx = len(outs) - 1
        else:
            idx = len(outs)
            outs.append("ABORT " + " ".join(err.split())[:200])
        crashes.append((idx, err[-1500:]))
        start = idx + 1
        if len(crashes) >= max_crashes:
            break
    return outs, crashes


def classify(case, out):
    f = case.split()
    o = out.split()
    if f[0] in "ER":
        return "%s:len%s" % (f[0], o[1] if len(o) > 1 else "?")
    if f[0] == "D":
        b = unhx(f[2])
        num = int(f[1])
        if num == 0:
            return "D:num0"
        if not b:
            return "D:empty"
        b0 = b[0]
        if b0 < 0x80:
            return "D:ascii" if b0 else "D:nul"
        cls = ("stray" if b0 < 0xC0 else "lead2" if b0 < 0xE0 else "lead3" if b0 < 0xF0 else "lead4" if b0 < 0xF8
               else "lead5" if b0 < 0xFC else "lead6" if b0 < 0xFE else "leadFE" if b0 < 0xFF else "leadFF")
        ret = o[1] if len(o) > 1 else "?"
        if ret != "0":
            return "D:%s:ok" % cls
        need = {"stray": 0, "lead2": 1, "lead3": 2, "lead4": 3, "lead5": 4, "lead6": 5, "leadFE": 6, "leadFF": 7}[cls]
        win = b[:min(num, 6)]
        for i in range(1, need + 1):
            if i >= len(win):
                return "D:%s:fail-truncated" % cls
            if not is_cont(win[i]):
                return "D:%s:fail-noncont" % cls
        return "D:%s:fail?" % cls
    if f[0] == "L":
        bar = o.index("|") if "|" in o else len(o)
        chain = o[bar + 1:]
        num = int(f[1])
        stop = int(o[2]) if len(o) > 2 and o[2].isdigit() else -1
        return "L:" + ("empty" if num == 0 else "all-consumed" if stop == num else "stopped-early") + \
               (":multibyte" if any(c not in ("0", "1") for c in chain) else ":single")
    return "?"


ALL_CLASSES = (["E:len%d" % i for i in range(7)] + ["R:len%d" % i for i in range(7)] +
               ["D:num0", "D:ascii", "D:nul", "D:stray:ok"] +
               ["D:lead%d:%s" % (i, k) for i in range(2, 7) for k in ("ok", "fail-truncated", "fail-noncont")] +
               ["D:leadFE:fail-truncated", "D:leadFE:fail-noncont", "D:leadFF:fail-truncated", "D:leadFF:fail-noncont"] +
               ["L:empty:single", "L:all-consumed:single", "L:all-consumed:multibyte",
                "L:stopped-early:single", "L:stopped-early:multibyte"])


def shrink_case(cbin, case):
    """Make a failing case smaller while the property oracle still fails on the C's answer."""
    def fails(c):
        rc, o, err = run_bin(cbin, c + "\n", timeout=30)
        line = o[0] if o else "CRASH"
        if rc != 0:
            return True
        return oracle_line(c, line, {}) is not None
    f = case.split()
    tests = 0
    if f[0] in "ER":
        v = int(f[1])
        # clear low bits / move towards the lower end of the range while it still fails
        for bit in range(30, -1, -1):
            c = v & ~(1 << bit)
            if c != v and c >= 1 and tests < 60:
                tests += 1
                if fails("%s %d" % (f[0], c)):
                    v = c
        return "%s %d" % (f[0], v)
    if f[0] == "D":
        num, b, want = int(f[1]), unhx(f[2]), f[3]
        if num == len(b) and len(b) > 1:
            def fl(bs):
                bb = bytes(bs)
                return fails("D %d %s %s" % (len(bb), hx(bb), want))
            b = bytes(vlib.ddmin(list(b), fl, max_tests=60))
            num = len(b)
        return "D %d %s %s" % (num, hx(b), want)
    if f[0] == "L":
        num, b = int(f[1]), unhx(f[2])
        if num == len(b) and len(b) > 1:
            def fl(bs):
                bb = bytes(bs)
                return fails("L %d %s" % (len(bb), hx(bb)))
            b = bytes(vlib.ddmin(list(b), fl, max_tests=80))
            num = len(b)
        return "L %d %s" % (num, hx(b))
    return case


def c_sweep(ctx, sbin):
    """The property evaluated in C over code-point ranges.  Returns (checked, [fail lines])."""
    if ctx.quick:
        # a seed-dependent residue class of a prime stride, over the whole range 1 .. 2^31-1
        step = 31
        off = ctx.subseed("sweep") % step
        n = 16
        shards = []
        for i in range(n):
            lo, hi = (0x80000000 * i) // n, (0x80000000 * (i + 1)) // n
            shards.append((lo + ((off - lo) % step), hi, step))
    else:
        n = 64
        shards = [((0x80000000 * i) // n, (0x80000000 * (i + 1)) // n, 1) for i in range(n)]
    fails, checked = [], 0

    def one(sh):
        rc, o = vlib.sh([str(sbin)] + [str(x) for x in sh], timeout=1500)
        return sh, rc, o

    with ThreadPoolExecutor(max_workers=min(vlib.NPROC, 16)) as ex:
        for sh, rc, o in ex.map(one, shards):
            for ln in o.splitlines():
                if ln.startswith("FAIL") or ln.startswith("CRASH"):
                    fails.append(ln)
                elif ln.startswith("DONE"):
                    checked += int(ln.split()[1])
            if rc not in (0, 3):
                fails.append("CRASH shard %s rc=%d %s" % (sh, rc, " ".join(o.split())[-200:]))
    return checked, fails


def replay(ctx, path):
    """tools/vcheck.py C18 --replay <replays/C18/x.json>: re-run the recorded case on the current tree."""
    import json
    obj = json.loads(Path(path).read_text())
    case = obj.get("replay", {}).get("case_line")
    if not case:
        print("replay file has no case_line (broken tie without a failing input): " + str(obj.get("what"))[:500])
        return 1
    cbin = ctx.cc("drv", [H / "drv.c"], repo_srcs=["utf.c"], mode="asan")
    rc, o, err = run_bin(cbin, case + "\n", timeout=60)
    line = o[0] if o else "ABORT " + " ".join(err.split())[:300]
    res = oracle_line(case, line, {})
    print("case: %s\nimplementation: %s\n%s" % (case, line, "STILL FAILS: " + res[1] if res else "property holds on this case now"))
    return 1 if res else 0


def run(ctx):
    # ---- proofs
    if not ctx.quick:
        # thorough: rebuild this property's files from clean
        files = sorted(str(p.relative_to(vlib.COQ)) for p in (vlib.COQ / "C18").glob("*.v"))
        for f in files:
            vo = (vlib.COQ / f).with_suffix(".vo")
            if vo.exists():
                vo.unlink()
    ctx.prove()
    if not ctx.quick:
        rc, o = vlib.sh(["coqchk", "-silent", "-o", "-Q", ".", "LibaV", "LibaV.Properties_C18"], cwd=vlib.COQ, timeout=900)
        ctx.notes.append("coqchk LibaV.Properties_C18: rc=%d %s" % (rc, " ".join(o.split())[-300:]))
        if rc != 0:
            ctx.tie_broken("coqchk rejected Properties_C18: " + " ".join(o.split())[-400:])

    # ---- second tie (translator), beside the correspondence: regenerate Gen.UtfGen from the current sources, re-prove the tie theorems
    tie_pool = ThreadPoolExecutor(max_workers=1)
    tie_job = tie_pool.submit(translator_tie, ctx)
    try:
        correspondence(ctx)
    finally:
        tie_job.result()
        tie_pool.shutdown()


# translator tie: functions regenerated by tools/c2int.py on every run, in call order (a_utf_length calls a_utf_decode)
INT_SOURCES = [("src/utf.c", ["a_utf_encode", "a_utf_decode", "a_utf_length", "a_utf_length_"])]
# fuel of the generated call sites = the model's: dec_fuel = 8 for both continuation-byte loops, num + 1 for the walk
INT_FUEL = {"a_utf_decode": ["8%nat", "8%nat"], "a_utf_length": ["S (N.to_nat num)"], "a_utf_length_": ["S (N.to_nat num)"]}


def translator_tie(ctx):
    return ctx.int_translate_and_tie(INT_SOURCES, "UtfGen", [H / "TieIntEnc.v", H / "TieIntDec.v", H / "TieIntLen.v", H / "TieIntLen2.v"], fuel=INT_FUEL)


def correspondence(ctx):
    # ---- build implementation, model, sweep
    cbin = ctx.cc("drv", [H / "drv.c"], repo_srcs=["utf.c"], mode="asan")
    sbin = ctx.cc("sweep", [H / "sweep.c"], repo_srcs=["utf.c"], mode="num")
    ml = ctx.extract("C18/Extract.v", ["C18/extracted/utf.ml", "C18/extracted/utf.mli"])
    mbin = ctx.ocaml_build("mdrv", [ml[1], ml[0], H / "mdrv.ml"])

    # ---- cases
    lines, ncorpus = gen_cases(ctx)
    ctx.log("cases: %d (%d from corpus)" % (len(lines), ncorpus))
    text = "\n".join(lines) + "\n"
    t0 = time.time()
    with ThreadPoolExecutor(max_workers=2) as ex:
        fc = ex.submit(run_c_cases, cbin, lines)
        fm = ex.submit(run_bin, mbin, text)
        c_out, crashes = fc.result()
        mrc, m_out, merr = fm.result()
    ctx.log("ran C and model in %.1fs" % (time.time() - t0))
    if mrc != 0:
        raise vlib.CheckError("model driver failed: rc=%d %s" % (mrc, merr[-500:]))

    # ---- tie
    ndiff = 0
    diff_idx = []
    for i in range(max(len(c_out), len(m_out))):
        a = c_out[i] if i < len(c_out) else "<missing>"
        b = m_out[i] if i < len(m_out) else "<missing>"
        if a != b:
            ndiff += 1
            if len(diff_idx) < 200:
                diff_idx.append(i)
    if ndiff:
        i = diff_idx[0]
        ctx.tie_broken("correspondence utf.c vs model: %d of %d cases differ; first: case %r  C: %r  model: %r"
                       % (ndiff, len(lines), lines[i] if i < len(lines) else "?", c_out[i] if i < len(c_out) else "<missing>",
                          m_out[i] if i < len(m_out) else "<missing>"))

    # ---- search oracle (Python, on every line the C produced)
    dgroups = {}
    hits = []            # (case index or -1, case line, kind, message)
    for i, case in enumerate(lines):
        if i >= len(c_out):
            break
        res = oracle_line(case, c_out[i], dgroups)
        if res:
            hits.append((i, case, res[0], res[1]))
    # ---- second build configuration: plain char unsigned (the default on ARM / AArch64 / PowerPC Linux, -funsigned-char elsewhere);
    # utf.c reads bytes through plain char in places, so the same cases must give the same lines
    ubin = ctx.cc("drv_uchar", [H / "drv.c"], repo_srcs=["utf.c"], mode="asan", extra=["-funsigned-char"])
    sub = lines if len(lines) <= 120000 else lines[::max(1, len(lines) // 120000)]
    u_out, u_crashes = run_c_cases(ubin, sub)
    sub_m = m_out if sub is lines else m_out[::max(1, len(lines) // 120000)]
    udiff = [i for i in range(min(len(u_out), len(sub_m))) if u_out[i] != sub_m[i]]
    ctx.cov["unsigned_char_configuration_cases"] = len(sub)
    ctx.cov["unsigned_char_configuration_mismatches"] = len(udiff)
    if udiff or len(u_out) != len(sub_m):
        i = udiff[0] if udiff else min(len(u_out), len(sub_m)) - 1
        ctx.tie_broken("correspondence utf.c built with -funsigned-char vs model: %d of %d cases differ; first: case %r  C: %r  model: %r"
                       % (len(udiff), len(sub), sub[i], u_out[i] if i < len(u_out) else "<missing>", sub_m[i] if i < len(sub_m) else "<missing>"))
    ug = {}
    for i, case in enumerate(sub):
        if i >= len(u_out):
            break
        res = oracle_line(case, u_out[i], ug)
        if res:
            hits.append((-1, case, res[0] + "/unsigned-char-build", res[1] + " [utf.c built with -funsigned-char]"))
    # ---- search oracle (C sweep)
    t0 = time.time()
    checked, sfails = c_sweep(ctx, sbin)
    ctx.log("C-side spec sweep: %d code points in %.1fs, %d failure lines" % (checked, time.time() - t0, len(sfails)))
    for ln in sfails[:40]:
        p = ln.split(None, 2)
        if p[0] in ("FAIL", "CRASH") and len(p) > 1 and p[1].isdigit():
            case = "R %s" % p[1]
            rc, o, err = run_bin(cbin, case + "\n", timeout=30)
            res = oracle_line(case, o[0] if o else "CRASH", {}) or ("sweep", p[2] if len(p) > 2 else "crash in the C sweep")
            hits.append((-1, case, res[0], res[1]))
        else:
            hits.append((-1, "?", "sweep", ln))
    if hits and not ctx.broken_ties:
        ctx.tie_broken("the property oracle fails on the implementation's output (%d cases)" % len(hits))

    # ---- report: one violation per kind of failure (smallest case of the kind, shrunk)
    seen = {}
    for i, case, kind, why in hits:
        seen.setdefault((case.split()[0], kind), []).append((i, case, why))
    nrep = 0
    for (op, kind), lst in sorted(seen.items(), key=lambda kv: -len(kv[1])):
        if nrep >= 5:
            break
        lst.sort(key=lambda t: (len(t[1]), t[1]))
        i, case, why = lst[0]
        small = shrink_case(cbin, case) if case != "?" else case
        rc, o, err = run_bin(cbin, small + "\n", timeout=30)
        line = o[0] if o else "ABORT " + " ".join(err.split())[:300]
        res = oracle_line(small, line, {})
        if res is None:
            small = case
            rc, o, err = run_bin(cbin, small + "\n", timeout=30)
            line = o[0] if o else "ABORT " + " ".join(err.split())[:300]
            res = oracle_line(small, line, {}) or (kind, why)
        mrc2, mo, _ = run_bin(mbin, small + "\n", timeout=30)
        f = small.split()
        site = {"E": "a_utf_encode", "R": "a_utf_encode+a_utf_decode", "D": "a_utf_decode", "L": "a_utf_length"}.get(f[0], "utf")
        ctx.report(key=("%s/%s/%s" % (site, res[0], "_".join(f[1:])))[:140], what=res[1],
                   replay={"case_line": small, "original_case_line": case, "format": "see the header of harness/C18/drv.c",
                           "implementation_output": line, "model_output": mo[0] if mo else None,
                           "failures_of_this_kind": len(lst), "sanitizer": err[-800:] if rc != 0 else "",
                           "how_to_replay": "echo '%s' | build/C18/drv    # drv is built from $VERIF_REPO/src/utf.c by the check" % small},
                   found_input=True)
        nrep += 1

    # ---- evidence
    dist, classes = {}, {}
    nontrivial = set()
    for i, case in enumerate(lines):
        if i >= len(c_out):
            break
        k = case[0]
        dist[k] = dist.get(k, 0) + 1
        c = classify(case, m_out[i] if i < len(m_out) else c_out[i])
        classes[c] = classes.get(c, 0) + 1
        if not (c.endswith("len0") or c.endswith("len1") or c in ("D:num0", "D:ascii", "D:nul", "D:empty", "L:empty:single")
                or c.endswith(":single")):
            nontrivial.add(case)
    ctx.count(evaluations=len(lines) + checked, nontrivial=len(nontrivial))
    ctx.cov["rule"] = ("evaluations = case lines run through both the C build of src/utf.c and the extracted model and compared "
                       "(%d) + code points on which the C-side spec sweep evaluated the whole round-trip property (%d); "
                       "distinct_nontrivial = distinct case lines that exercise a multi-byte path (encode length >= 2, "
                       "decode with a lead byte >= 0x80, a_utf_length over a multi-byte/invalid sequence)" % (len(lines), checked))
    ctx.cov["op_distribution"] = dist
    ctx.cov["model_path_classes"] = dict(sorted(classes.items()))
    ctx.cov["model_path_classes_not_reached"] = [c for c in ALL_CLASSES if c not in classes]
    ctx.cov["c_sweep_code_points"] = checked
    ctx.cov["correspondence_differences"] = ndiff
    ctx.cov["guard_page"] = "every buffer passed to a_utf_* ends flush against a PROT_NONE page; ASan+UBSan build"
    for i in (0, len(lines) // 3, len(lines) // 2, (3 * len(lines)) // 4, len(lines) - 1):
        if 0 <= i < len(c_out):
            ctx.sample({"case": lines[i][:120], "c": c_out[i][:160], "model": (m_out[i] if i < len(m_out) else "")[:160]})


META = {
    "text": "Rocq theorems for ALL code points 1..2^31-1 and ALL byte strings/lengths: encode emits exactly the UTF-8 table's "
            "bytes and length (div/mod-64 arithmetic over the six ranges, no code-point sweep), decode(encode x ++ rest) returns "
            "the same length and x, every proper prefix is rejected, the decoder never reads at an index >= num (checked "
            "accessor never fails, fuel never runs out), reports <= min(num,6) bytes, accepts a multi-byte sequence only when "
            "all trailing bytes are continuation bytes, 0xFE/0xFF rejected; a_utf_length/_length_ advance by exactly the "
            "decoder's reports and stop at NUL / undecodable byte / end. Two ties on every run: (1) translator tie - "
            "tools/c2int.py regenerates a Gallina model over N from the current src/utf.c (range ladder as nested lets, the "
            "fall-through switch as one arm per label, the `chr <<= 1` loops and the a_utf_length loop as fuel-indexed Fixpoints "
            "with the `return 0` inside as a tagged result, every read a checked nth_error, every store a checked list update, "
            "wrap at every unsigned shift/add, bytes read through plain `char` carried as signed values in Z) and 8 theorems "
            "(harness/C18/TieInt*.v) prove a_utf_encode (buffer and NULL), a_utf_decode (val and NULL; any num against exactly "
            "the bytes present), a_utf_length (stop and NULL) and a_utf_length_ equal to "
            "the model of coq/C18/UtfDefs.v for ALL code points, byte lists of ANY length and buffers of any size - including "
            "the failing runs: the regenerated function fails exactly where the model's checked accessors do; (2) extracted "
            "model vs the C under ASan+UBSan with every buffer flush against a PROT_NONE page, in two build configurations: plain "
            "char signed (x86-64 default) and unsigned (-funsigned-char: the ARM / AArch64 / PowerPC default).",
    "note": "Trusted: Coq kernel; the translator tools/c2int.py as a reading of the C (its output is re-tied to the model by proof "
            "on every run; the extracted-model-vs-C correspondence is the independent guard against a misreading shared with "
            "the hand model); extraction (ExtrOcamlBasic only) + drivers; correspondence cases: all code points < 0x20000, "
            "boundaries, lead byte x continuation matrices, mutated/truncated strings; thorough: all 2^31-1 code points C-side "
            "against the spec.  The tie reads the model results through the maps of coq/C18/TieLemmas.v (cells all written <-> "
            "byte list; DRet/NRet <-> (return value, *val or *stop cell); DOver/DFuel and NOver/NFuel both read as failure). "
            "a_utf_length_ reads the bytes through `char` (negative for bytes >= 0x80 on this platform): the translator carries "
            "those values in Z and the tie shows by a 256-byte sweep that the signed tests decide as the model's unsigned ones; "
            "the tie is for char = signed char (x86-64).  Translator limits: "
            "forming a pointer past a buffer is not checked, only accesses are; memory safety of the C beyond what the checked "
            "accessors of the regenerated functions show is observed (guard page, sanitizers); finite byte sweeps (<256) lifted "
            "by a proved lemma. No axioms (Print Assumptions under every tie theorem: closed).",
    "technique": "Rocq proof (div/mod-64 arithmetic by lia over the six length ranges, byte sweeps lifted by lemma) + translator tie "
                 "(c2int: regenerated integer model = proved model, 8 theorems re-proved per run) + extracted-model vs C "
                 "correspondence with guard pages",
}
