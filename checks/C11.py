"""C11: real helpers of src/math.c / include/a/math.h.

Proof over R (coq/Properties_C11.v) about the hand model coq/C11/MathDefs.v of the FALLBACK bodies.
Tie 1 (bit-exact): the same Gallina terms instantiated with Coq's primitive binary64 floats, evaluated by vm_compute, are
  compared bit for bit with the C built from the current tree in the all-fallback configuration (-O2 -ffp-contract=off,
  ASan); where the fallback calls libm (log/exp/atan/sin/cos) both sides use the same fixed substitute functions, so the
  code AROUND the call is compared.  List helpers are compared cell by cell including untouched cells.
Tie 2 (accuracy, sampled): both configurations (A_HAVE_*=1 / 0) x double / float with the real libm, against mpmath at 80
  digits from the exact binary arguments; tolerance K*eps*|value| with K recorded in the evidence.
Search oracle: the property itself on the C output - accuracy against mpmath for the functions, exact Python reference of the
  defining list operation / exact rational sums for the array helpers; a crash of the harness (ASan, SIGFPE) is a failing
  input too.  Failing array cases are shrunk."""
import math
import struct
from fractions import Fraction

import fcorr
import vlib

META = {
    "category": "proof",
    "text": "Rocq theorems over the reals (Properties_C11.v, 45 theorems) about a hand model (coq/C11/MathDefs.v) of the fallback "
            "bodies in src/math.c. PROVED for all real arguments: asinh/acosh/atanh equal the ln definitions (shown to be the "
            "inverses of sinh/cosh/tanh) exactly on the middle ranges of their splits and within proved method-error bounds on "
            "the outer ranges, giving one relative bound 2^-53 over the whole domain and hence across every split point; "
            "log1p's compensation term is neutral in exact arithmetic; the expm1 rational approximation (coefficients as "
            "rounded to binary64) is within 1e-18 absolute and 2^-53 relative of exp x - 1 on all of [-1/2,1/2] (interval + "
            "a shape argument for the sliver at 0), divisor >= 1; atan2 is the polar angle in (-pi,pi] in all quadrants and on "
            "all four half-axes up to |A_REAL_PI - pi| <= 2^-52, 0 at the origin; norm2/norm3/norm/norm_ = sqrt of the sum of "
            "squares for every length and stride, with the scaled intermediates in [0,1] / [1,n] (the exact-arithmetic content "
            "of 'no overflow/underflow'); cart2pol/pol2cart/cart2sph/sph2cart radius and inverse relations; definedness (no "
            "division by zero, sqrt or log outside its domain on any executed path, via a poisoned real instance); sums, "
            "means, dots equal their defining sums and copy/swap/fill/zero/push/roll (single and block forms) refine list "
            "operations touching only the addressed cells, for all lengths, strides and offsets, out-of-bounds = error. "
            "CHECKED BY CORRESPONDENCE ONLY: that the model is the C (tie 1: the same Gallina terms run on Coq's primitive "
            "binary64 floats, bit for bit against the C fallback build on boundary-aimed and random cases, list helpers cell "
            "by cell under ASan). PARTIAL: floating-point accuracy 'to within a small multiple of machine precision for all "
            "finite arguments, in both configurations, float and double' is not proved - tie 2 measures it on samples against "
            "mpmath (A_HAVE=0/1 x double/float, tolerance 4 eps); theorems standing for such a clause are named *_partial. "
            "ROUNDING (C11_sum/dot/mean/norm2_rounding_bound*): for sum, dot and mean of every length and stride and for norm2, "
            "the same model term with each operation followed by a rounding rnd is within an explicit bound of its exact value "
            "(sum: ((1+eps)^(n-1)-1) sum|x_i| + (n-1) eta (1+eps)^(n-1) for a representable first cell, n roundings otherwise; "
            "dot: ((1+eps)^n-1) sum|x_i y_i| + (2n-1) eta (1+eps)^n; norm2: 7/2 (eps+eta) sqrt(x^2+y^2) + eta), proved in the "
            "standard rounding model |rnd x - x| <= eps|x| + eta with gradual underflow, overflow excluded; IEEE binary64 "
            "round-to-nearest-even satisfies that model with eps=2^-53, eta=2^-1075 by Flocq (C11_binary64_satisfies_model) - "
            "the step from the rounded-real term to the C's binary64 run and the libm-based bodies remain unproved. "
            "ROUNDING OF THE NORMS (C11/NormRound.v, C11_norm*_rounding_*, 5 theorems): for a_real_norm/a_real_norm_ of EVERY length "
            "n>=1 and stride>=1 with largest magnitude w>0, every cell 0 or >= 2 eta in magnitude (every binary64 number is) and "
            "(n+3)(eps+eta) <= 1/64: pass 1 (max) is exact, and |fl - N| <= ((9/16 n + 15/4) eps + (9/4 n + 17/16) eta) N + eta <= "
            "(9/4 n + 15/4)(eps+eta) N + eta, N = sqrt(sum p_i^2) (first-order truth (n/2+3.5) eps; the last eta is the absolute "
            "underflow error of the final product by w); the all-zero vector returns 0; a_real_norm3: |fl - N| <= (21/4 eps + 25/4 "
            "eta) N + eta for rnd 1 = 1, eps+eta <= 1/64; binary64 corollaries (n <= 2^45) by Flocq. Constants explicit, not sharp; "
            "overflow and the infinite-cell branch are outside these theorems. "
            "LOOP TIE (harness/C11/TieLoop*.v, 30 theorems re-proved on every run): the 26 reductions and array helpers are "
            "regenerated from the current math.c with their loops as Fixpoints (tools/c2arr.py: arrays as lists with checked "
            "access, counters as nat, every would-be wrap of n*c, i+c or sizeof(a_real)*n an error) and proved equal to the list "
            "model for every NumOps instance and for EVERY length, stride, offset, array length (too short: both sides error) and "
            "content - without hypotheses for the loops that count n down (sum, sum1, sum2, mean, dot, copy_, swap, fill, zero and "
            "their strided forms), under the stated no-wrap hypothesis n*c < 2^64 (norm, norm_) resp. 8*n < 2^64 (copy, push, "
            "roll) otherwise; for norm on an array the model calls too short the code returns either the error or infinity (it "
            "stops at the first infinite cell), proved as such.",
    "note": "Trusted: Coq kernel/vm_compute with primitive floats and Interval's reflexive checker; real-number axioms listed by "
            "Print Assumptions; the 'same term, different NumOps instance' argument; the hand transcription coq/C11/MathDefs.v "
            "(validated bit for bit on the generated cases only; libm log/exp/atan/sin/cos replaced by the same fixed substitute "
            "functions on both sides in that run, so libm itself is outside every claim); the model is of the a_real=double "
            "fallback build (float and libm-bound builds are covered by the sampled accuracy tie only); memcpy/memmove modelled "
            "as read-all-then-write (the loop tie checks that a_copy/a_move/a_zero of src/a.c are memcpy/memmove/memset); size_t "
            "arithmetic (n*c, i+c, sizeof*n) not wrapping is a HYPOTHESIS of the loop-tie theorems and assumed elsewhere; pointers "
            "formed beyond the end of an array by the strided loops are not bounded (only accesses are); the translator "
            "tools/c2arr.py is trusted to read the C right (its output is proved equal to the model, not to the C); mpmath as reference for the sampled "
            "accuracy; gcc -O2 -ffp-contract=off being IEEE per operation. Rounding error of the float evaluation is measured, "
            "not proved (the rounding theorems for sum/dot/mean/norm2/norm/norm_/norm3 are about the rounded-real instance of the "
            "model, whose composition into the primitive-float run of a whole loop is not proved); signed zeros/inf/NaN behaviour is compared with the model but is outside the theorems.",
    "technique": "Rocq proof over R (lra/nra/field, Coquelicot, interval) + the 13 scalar fallback bodies of math.c regenerated by a translator and proved equal to the model on every run, the reductions and array helpers unrolled for counts 0..3 / strides 0..2 and proved equal to the list model, and regenerated with their loops as Fixpoints and proved equal to it for every length and stride + bit-exact primitive-float model vs C correspondence + sampled mpmath accuracy",
}

H = vlib.VERIF / "harness" / "C11"
INF, NAN = math.inf, math.nan
S26, SE, EPS = 2.0 ** 26, 2.0 ** -26, 2.0 ** -52
EXCLUDED = {}
K_TOL = {8: 4.0, 4: 4.0}          # tolerance of the accuracy tie in units of eps*|value| (parameter of the check, not of a theorem)


# ----------------------------------------------------------------------------------------------- helpers
def na(x, d):
    return math.nextafter(x, d)


def around(v):
    return [na(v, -INF), v, na(v, INF)]


def sgn(vals):
    return list(vals) + [-v for v in vals]


def f32(x):
    try:
        return struct.unpack("<f", struct.pack("<f", x))[0]
    except OverflowError:
        return math.copysign(INF, x)


def logu(r, lo, hi):
    return 10.0 ** r.uniform(lo, hi)


def rnd_mag(r):
    k = r.choice("tssmmmmbbh")
    if k == "t":
        return logu(r, -320, -20)
    if k == "s":
        return logu(r, -20, -2)
    if k == "m":
        return logu(r, -2, 2)
    if k == "b":
        return logu(r, 2, 20)
    return logu(r, 20, 308)


def rnd_arg(r):
    return rnd_mag(r) * r.choice([1, 1, -1])


SCALAR = {  # fn: (arity, model wrapper)
    "asinh": (1, "r_asinh"), "acosh": (1, "r_acosh"), "atanh": (1, "r_atanh"), "expm1": (1, "r_expm1"),
    "log1p": (1, "r_log1p"), "atan2": (2, "r_atan2"), "norm2": (2, "r_norm2"), "norm3": (3, "r_norm3"),
    "r2d": (1, "r_r2d"), "d2r": (1, "r_d2r"), "c2p": (2, "r_c2p"), "p2c": (2, "r_p2c"), "c2s": (3, "r_c2s"),
    "s2c": (3, "r_s2c"),
}
AXIS = [0.0, -0.0, 1.0, -1.0, 1e-300, -1e-300, 1e300, -1e300, 5e-324, 3.0, -4.0]
MAGS = [0.0, -0.0, 1.0, -1.0, 3.0, 4.0, 1e-300, 1e300, 1e-200, -1e200, 5e-324, 1.7e308, 1e-160, 1e160]
# components whose SQUARES are about to overflow / underflow although the norm is representable (seeded change C11-13: a
# "well-scaled" fast path sqrt(x*x + y*y) guarded by the largest component alone): multiples of sqrt(MAX) and sqrt(MIN) of
# binary64 and binary32
SQRT_EDGE = [m * b for b in (2.0 ** 512, 2.0 ** -511, 2.0 ** 64, 2.0 ** -63) for m in (0.55, 0.62, 0.71, 0.75, 0.88, 0.97, 0.999, -0.8, -0.95)]


_EDGE = set(abs(v) for v in SQRT_EDGE)


def sample_keep_edge(r, pts, k):
    """quick tier: a sample of k of the special points, plus every point made of SQRT_EDGE components only"""
    edge = [a for a in pts if all(abs(v) in _EDGE for v in a)]
    rest = [a for a in pts if not all(abs(v) in _EDGE for v in a)]
    return (r.sample(rest, k) if len(rest) > k else rest) + edge


def special_points(fn):
    if fn == "asinh":
        return [(x,) for x in sgn(around(S26) + around(2.0) + around(SE) + [0.0, 1.0, 1e-300, 5e-324, 1e300, 1.7e308, 1e-5, 1e-7,
                                                                           0.1, 10.0, 1e8]) + [INF, -INF, NAN]]
    if fn == "acosh":
        return [(x,) for x in around(S26) + around(2.0) + around(1.0) + [1 + 1e-8, 1 + 1e-12, 1.5, 10.0, 1e8, 1e300, 1.7e308, 0.5, 0.0,
                                                                         -1.0, INF, NAN, -INF]]
    if fn == "atanh":
        return [(x,) for x in sgn(around(1.0) + around(0.5) + around(EPS) + [0.0, 1e-300, 1e-10, 1e-5, 0.25, 0.75, 0.999999, 2.0])
                + [INF, -INF, NAN]]
    if fn == "expm1":
        return [(x,) for x in sgn(around(0.5) + [0.0, 1e-300, 1e-20, 1e-5, 0.1, 0.25, 0.4999, 1.0, 10.0, 700.0, 710.0, 1000.0])
                + [INF, -INF, NAN]]
    if fn == "log1p":
        return [(x,) for x in sgn(around(EPS) + [0.0, 1e-300, 1e-20, 1e-10, 1e-5, 1e-3, 0.1, 0.5]) + around(-1.0)
                + [-2.0, 1.0, 10.0, 1e10, 2.0 ** 53, 2.0 ** 53 + 2, 1e300, 1.7e308, INF, -INF, NAN]]
    if fn == "atan2":
        pts = AXIS + [INF, -INF, NAN]
        return [(y, x) for y in pts for x in pts]
    if fn in ("norm2", "c2p"):
        pts = MAGS + [INF, -INF, NAN]
        return [(x, y) for x in pts for y in pts] + ([(x, y) for x in SQRT_EDGE for y in SQRT_EDGE if 0.2 < abs(x / y) < 5] if fn == "norm2" else [])
    if fn in ("norm3", "c2s"):
        pts = [0.0, -1.0, 3.0, 1e-300, 1e300, 5e-324, 1.7e308, INF, NAN]
        return [(x, y, z) for x in pts for y in pts for z in pts] + ([(x, y, z) for x in SQRT_EDGE[::2] for y in SQRT_EDGE[1::2] for z in SQRT_EDGE[::3]
                                                                     if 0.2 < abs(x / y) < 5 and 0.2 < abs(x / z) < 5] if fn == "norm3" else [])
    if fn in ("r2d", "d2r"):
        return [(x,) for x in [0.0, 1.0, -180.0, 1e300, 1e-300, math.pi]]
    if fn == "p2c":
        return [(rho, th) for rho in [0.0, 1.0, 2.5, 1e300, 1e-300] for th in [0.0, math.pi / 2, math.pi, -math.pi / 2, 1.0, -2.0, 1e-300, 100.0]]
    if fn == "s2c":
        return [(rho, th, al) for rho in [0.0, 1.0, 1e300] for th in [0.0, math.pi / 2, -2.0, 3.0] for al in [0.0, math.pi / 2, -0.5, 1.0]]
    return []


def random_point(fn, r):
    if fn == "asinh":
        return (r.choice([rnd_arg(r), r.uniform(-3, 3), r.uniform(0.5, 2) * r.choice([S26, SE]) * r.choice([1, -1])]),)
    if fn == "acosh":
        return (r.choice([1 + rnd_mag(r), r.uniform(1, 3), r.uniform(0.5, 2) * S26, 1 + logu(r, -16, 0)]),)
    if fn == "atanh":
        return (r.choice([r.uniform(-1, 1), r.choice([1, -1]) * (1 - logu(r, -16, 0)), r.choice([1, -1]) * logu(r, -320, 0),
                          r.uniform(0.5, 2) * EPS * r.choice([1, -1])]),)
    if fn == "expm1":
        return (r.choice([r.uniform(-0.5, 0.5), r.uniform(-1, 1), r.choice([1, -1]) * logu(r, -320, 0), r.uniform(-745, 709)]),)
    if fn == "log1p":
        return (r.choice([r.uniform(-1, 1), r.choice([1, -1]) * logu(r, -320, 0), rnd_mag(r), -1 + logu(r, -16, 0),
                          r.uniform(0.5, 2) * EPS * r.choice([1, -1])]),)
    if fn in ("atan2", "norm2", "c2p"):
        a = rnd_arg(r)
        b = r.choice([rnd_arg(r), a * r.uniform(-2, 2), a * logu(r, -20, 20) * r.choice([1, -1])])
        return (a, b) if r.random() < 0.5 else (b, a)
    if fn in ("norm3", "c2s"):
        a = rnd_arg(r)
        return tuple(r.sample([a, r.choice([rnd_arg(r), a * r.uniform(-2, 2)]), r.choice([rnd_arg(r), a * logu(r, -10, 10)])], 3))
    if fn in ("r2d", "d2r"):
        return (rnd_arg(r),)
    if fn == "p2c":
        return (rnd_mag(r), r.choice([r.uniform(-math.pi, math.pi), r.uniform(-100, 100), r.choice([1, -1]) * logu(r, -300, 0)]))
    if fn == "s2c":
        return (rnd_mag(r), r.uniform(-math.pi, math.pi), r.uniform(-math.pi / 2, math.pi / 2))
    raise KeyError(fn)


def branch_of(fn, a):
    """which arm of the model's case split an argument tuple takes (for the coverage report)"""
    x = a[0]
    if any(v != v for v in a):
        return fn + ":nan"
    if fn == "asinh":
        m = abs(x)
        return "asinh:" + ("log+ln2" if m > S26 else "log" if m > 2 else "log1p" if m > SE else "x")
    if fn == "acosh":
        return "acosh:" + ("log+ln2" if x > S26 else "log" if x > 2 else "log1p" if x > 1 else "one" if x == 1 else "nan")
    if fn == "atanh":
        m = abs(x)
        return "atanh:" + ("nan" if m > 1 else "inf" if m == 1 else "ge.5" if m >= 0.5 else "gt.eps" if m > EPS else "x")
    if fn == "expm1":
        return "expm1:" + ("inf" if abs(x) == INF else "exp" if abs(x) > 0.5 else "rational")
    if fn == "log1p":
        s = x + 1
        return "log1p:" + ("compensated" if s > 0 and s != INF else "plain")
    if fn == "atan2":
        y, x = a
        return "atan2:" + ("x>0" if x > 0 else ("x<0,y>=0" if y >= 0 else "x<0,y<0") if x < 0 else "x=0,y>0" if y > 0 else "x=0,y<0" if y < 0 else "0,0")
    if fn in ("norm2", "norm3"):
        m = [abs(v) for v in a]
        if INF in m:
            return fn + ":inf"
        if max(m) == 0:
            return fn + ":zero"
        return fn + ":" + "".join(str(i) for i in sorted(range(len(m)), key=lambda i: m[i]))
    return fn


def scalar_case(fn, a):
    ar, w = SCALAR[fn]
    return {"kind": "scalar", "fn": fn, "args": tuple(a),
            "line": fn + " " + " ".join(fcorr.argbits(v) for v in a),
            "expr": w + " " + " ".join(fcorr.coqf(v) for v in a)}


def gen_scalar(ctx, nrand):
    r = ctx.rng.__class__(ctx.subseed("c11-scalar"))
    cases = []
    for fn in SCALAR:
        pts = special_points(fn)
        if ctx.quick and len(pts) > 260:
            pts = sample_keep_edge(r, pts, 260)
        for a in pts:
            cases.append(scalar_case(fn, a))
        for _ in range(nrand):
            cases.append(scalar_case(fn, random_point(fn, r)))
    return cases


# ----------------------------------------------------------------------------------------------- array cases
def rvals(r, n, wild=True):
    out = []
    for _ in range(n):
        k = r.random()
        if k < 0.45:
            out.append(float(r.randint(-9, 9)))
        elif k < 0.9 or not wild:
            out.append(fcorr.rand_double(r))
        else:
            out.append(r.choice([INF, -INF, NAN, -0.0, 1e300, -1e300, 1e-300, 5e-324, 1e200, 1e-200]))
    return out


def hx(i):
    return "%x" % i


def cl(xs):
    return fcorr.coq_list(xs)


def list_case(fn, ints, floats_before, lists):
    """generic builder: C line '<fn> ints.. [scalars] cells..'; model 'r_<fn> ints%nat.. scalars.. lists..'"""
    flat = [v for l in lists for v in l]
    line = fn + " " + " ".join(hx(i) for i in ints) + (" " if ints else "") + " ".join(fcorr.argbits(v) for v in list(floats_before) + flat)
    expr = "r_" + fn + " " + " ".join("%d%%nat" % i for i in ints) + " " + " ".join(fcorr.coqf(v) for v in floats_before) + " " + " ".join(cl(l) for l in lists)
    return {"kind": "list", "fn": fn, "ints": tuple(ints), "scal": tuple(floats_before), "lists": [list(l) for l in lists],
            "line": line.strip(), "expr": expr}


def mk_list_case(fn, ints, scal, lists):
    """C-line layouts differ per function (see drv.c); the canonical (ints, scal, lists) triple is what oracle and shrinker use."""
    if fn in ("dot_",):           # dot_ n xc yc lx X Y
        n, xc, yc = ints
        c = list_case(fn, [n, xc, yc, len(lists[0])], [], lists)
        c["ints"] = (n, xc, yc)
        c["expr"] = "r_dot_ %d%%nat %d%%nat %d%%nat %s %s" % (n, xc, yc, cl(lists[0]), cl(lists[1]))
        return c
    if fn in ("pushf_", "pushb_", "rollf_", "rollb_"):
        a, b = ints
        c = list_case(fn, [a, b, len(lists[0])], [], lists)
        c["ints"] = (a, b)
        c["expr"] = "r_%s %d%%nat %d%%nat %s %s" % (fn, a, b, cl(lists[0]), cl(lists[1]))
        return c
    return list_case(fn, ints, scal, lists)


def gen_list(ctx, nper):
    r = ctx.rng.__class__(ctx.subseed("c11-list"))
    cases = []
    # directed: values that compare equal to another value but differ in their bits (signed zeros), and the other special
    # values, through every helper that stores or moves cells - the defining formula p[i] = v is about the value stored
    for v in (0.0, -0.0, 5e-324, -5e-324, math.inf, -math.inf, 1.7976931348623157e308, 1.0):
        for n in (1, 3):
            cases.append(mk_list_case("fill", [n], [v], [[1.5] * (n + 1)]))
    # directed: the norms at both ends of the range (every component subnormal / near the largest finite number, with zeros
    # mixed in) - "norms do not overflow or underflow when the true result is representable"
    for u in (5e-324, 2.0 ** -1060, 2.0 ** -1030, 2.2250738585072014e-308, 2.0 ** 1000, 1.7976931348623157e308 / 8):
        for vec in ([3 * u, -4 * u], [3 * u, -4 * u, 0.0], [0.0, u], [u], [-2 * u, 0.0, u, 2 * u, 4 * u], [-0.0, 12 * u, 5 * u, 0.0]):
            cases.append(mk_list_case("norm", [len(vec)], [], [list(vec)]))
            for c in (1, 2):
                cells = []
                for v in vec:
                    cells += [v] + [1.0] * (c - 1)
                cases.append(mk_list_case("norm_", [len(vec), c], [], [cells]))
    for k in range(nper):
        n = r.choice([0, 1, 1, 2, 3, 4, 5, 7, 8, 12])
        wild = (k % 4 == 0)
        for fn in ("norm", "sum", "sum1", "sum2", "mean"):
            cases.append(mk_list_case(fn, [n], [], [rvals(r, n + r.choice([0, 0, 1, 2]), wild)]))
        for fn in ("norm_", "sum_", "sum1_", "sum2_", "mean_"):
            c = r.choice([0, 1, 1, 2, 3, 5])
            need = ((n - 1) * c + 1) if n else 0
            cases.append(mk_list_case(fn, [n, c], [], [rvals(r, need + r.choice([0, 0, 1, 3]), wild)]))
        cases.append(mk_list_case("dot", [n], [], [rvals(r, n, wild), rvals(r, n, wild)]))
        xc, yc = r.choice([0, 1, 1, 2, 3]), r.choice([0, 1, 1, 2, 3])
        cases.append(mk_list_case("dot_", [n, xc, yc], [],
                                  [rvals(r, (((n - 1) * xc + 1) if n else 0) + r.choice([0, 0, 2]), wild),
                                   rvals(r, (((n - 1) * yc + 1) if n else 0) + r.choice([0, 0, 2]), wild)]))
        # copy / swap with disjoint arguments (restrict), inside one block with slack around
        gap, pre, post = r.choice([0, 0, 1, 3]), r.choice([0, 1, 2]), r.choice([0, 1, 2])
        lo, hi = pre, pre + n + gap
        if r.random() < 0.5:
            lo, hi = hi, lo
        mem = rvals(r, pre + 2 * n + gap + post)
        cases.append(mk_list_case("copy", [n, lo, hi], [], [mem]))
        cases.append(mk_list_case("swap", [n, lo, hi], [], [mem]))
        # strided forms: arbitrary offsets and strides, overlap allowed (the model is one memory)
        for fn in ("copy_", "swap_"):
            dc, sc = r.choice([0, 1, 1, 2, 3]), r.choice([0, 1, 1, 2, 3])
            d, s = r.randint(0, 6), r.randint(0, 6)
            if k % 3 == 0:   # disjoint interleaved: even / odd cells
                dc, sc, d, s = 2, 2, 0, 1
            need = max(d + (n - 1) * dc, s + (n - 1) * sc) + 1 if n else max(d, s)
            cases.append(mk_list_case(fn, [n, d, dc, s, sc], [], [rvals(r, need + r.choice([0, 0, 1, 2]))]))
        ln = n + r.choice([0, 0, 1, 3])
        cases.append(mk_list_case("fill", [n], [fcorr.rand_double(r)], [rvals(r, ln)]))
        cases.append(mk_list_case("zero", [n], [], [rvals(r, ln)]))
        for fn in ("pushf", "pushb"):
            cases.append(mk_list_case(fn, [n], [fcorr.rand_double(r)], [rvals(r, ln)]))
        for fn in ("rollf", "rollb"):
            cases.append(mk_list_case(fn, [n], [], [rvals(r, ln)]))
        for fn in ("pushf_", "pushb_"):
            cn = r.choice([0, 1, 2, 3, n, n + 1, n + 4, 2 * n])
            cases.append(mk_list_case(fn, [n, cn], [], [rvals(r, ln), rvals(r, cn + r.choice([0, 0, 2]))]))
        for fn in ("rollf_", "rollb_"):
            sn = r.choice([0, 1, 2, n, n + 1, max(n - 1, 0), 2 * n + 1, 3 * n])
            need = (sn % n) if n else 0
            cases.append(mk_list_case(fn, [n, sn], [], [rvals(r, ln), rvals(r, need + r.choice([0, 0, 1]))]))
    return cases


# ----------------------------------------------------------------------------------------------- array oracle
def same(a, b):
    return len(a) == len(b) and all(fcorr.bits(x) == fcorr.bits(y) for x, y in zip(a, b))


def strided(p, n, c):
    return [p[i * c] for i in range(n)]


def list_expect(case):
    """The defining list operation (what the theorems state), in Python.  Returns ('cells', [...]) or ('value', kind, cells...)."""
    fn, I, S, L = case["fn"], case["ints"], case["scal"], case["lists"]
    if fn in ("norm", "sum", "sum1", "sum2", "mean"):
        return ("red", fn, strided(L[0], I[0], 1))
    if fn in ("norm_", "sum_", "sum1_", "sum2_", "mean_"):
        if fn == "norm_" and I[1] == 0:
            return ("red", "zero", [])
        return ("red", fn[:-1], strided(L[0], I[0], I[1]))
    if fn == "dot":
        return ("dot", strided(L[0], I[0], 1), strided(L[1], I[0], 1))
    if fn == "dot_":
        return ("dot", strided(L[0], I[0], I[1]), strided(L[1], I[0], I[2]))
    m = list(L[0])
    if fn == "copy":
        n, d, s = I
        m[d:d + n] = L[0][s:s + n]
    elif fn == "swap":
        n, l, r_ = I
        m[l:l + n], m[r_:r_ + n] = L[0][r_:r_ + n], L[0][l:l + n]
    elif fn == "copy_":
        n, d, dc, s, sc = I
        dst = [d + i * dc for i in range(n)]
        src = [s + i * sc for i in range(n)]
        if len(set(dst)) != n or set(dst) & set(src):
            return None          # overlapping / repeated cells: outside the theorem's hypotheses (bit-exact tie only)
        for a, b in zip(dst, src):
            m[a] = L[0][b]
    elif fn == "swap_":
        n, l, lc, r_, rc = I
        A = [l + i * lc for i in range(n)]
        B = [r_ + i * rc for i in range(n)]
        if len(set(A)) != n or len(set(B)) != n or set(A) & set(B):
            return None
        for a, b in zip(A, B):
            m[a], m[b] = L[0][b], L[0][a]
    elif fn == "fill":
        m[:I[0]] = [S[0]] * I[0]
    elif fn == "zero":
        m[:I[0]] = [0.0] * I[0]
    elif fn == "pushf":
        n = I[0]
        if n:
            m[:n] = [S[0]] + L[0][:n - 1]
    elif fn == "pushb":
        n = I[0]
        if n:
            m[:n] = L[0][1:n] + [S[0]]
    elif fn == "rollf":
        n = I[0]
        if n:
            m[:n] = L[0][1:n] + [L[0][0]]
    elif fn == "rollb":
        n = I[0]
        if n:
            m[:n] = [L[0][n - 1]] + L[0][:n - 1]
    elif fn in ("pushf_", "pushb_"):
        bn, cn = I
        k = min(bn, cn)
        tail = L[1][cn - k:cn]
        if fn == "pushf_":
            m[:bn] = tail + L[0][:bn - k]
        else:
            m[:bn] = L[0][k:bn] + tail
    elif fn in ("rollf_", "rollb_"):
        bn, sn = I
        if bn:
            k = sn % bn
            if fn == "rollf_":
                m[:bn] = L[0][k:bn] + L[0][:k]
            else:
                m[:bn] = L[0][bn - k:bn] + L[0][:bn - k]
        return ("cells", m, len(L[0]))      # the scratch (shift) buffer's contents are not part of the property
    return ("cells", m, len(m))


def list_oracle(case, out):
    """out: list of floats printed by the C (first the flag 1).  None = property holds on this output."""
    exp = list_expect(case)
    if exp is None:
        return None
    if not out or out[0] != 1.0:
        return "harness printed no result"
    out = out[1:]
    if exp[0] == "cells":
        want, k = exp[1], exp[2]
        if not same(out[:k], want):
            bad = [i for i in range(min(k, len(out))) if fcorr.bits(out[i]) != fcorr.bits(want[i])]
            return "%s%r: cells %s are %s, the defining list operation gives %s" % (
                case["fn"], case["ints"], bad[:6], [out[i] for i in bad[:6]], [want[i] for i in bad[:6]])
        return None
    got = out[0]
    if exp[0] == "dot":
        xs, ys = exp[1], exp[2]
        if not all(math.isfinite(v) for v in xs + ys):
            return None
        terms = [Fraction(x) * Fraction(y) for x, y in zip(xs, ys)]
    else:
        fn, xs = exp[1], exp[2]
        if fn == "zero":
            return None if got == 0 else "a_real_norm_ with stride 0 returned %r" % got
        if fn == "norm" and any(abs(v) == INF for v in xs) and not any(v != v for v in xs[:[abs(v) for v in xs].index(INF)]):
            return None if got == INF else "a_real_norm of a vector with an infinite component is %r" % got
        if not all(math.isfinite(v) for v in xs):
            return None
        n = len(xs)
        if fn == "sum":
            terms = [Fraction(x) for x in xs]
        elif fn == "sum1":
            terms = [abs(Fraction(x)) for x in xs]
        elif fn in ("sum2", "norm"):
            terms = [Fraction(x) ** 2 for x in xs]
        elif fn == "mean":
            terms = [Fraction(x) / n for x in xs]
    exact = sum(terms, Fraction(0))
    mag = sum((abs(t) for t in terms), Fraction(0))
    if mag > Fraction(10) ** 300 or (0 < mag < Fraction(1, 10 ** 290) and exp[0] != "red"):
        return None   # overflow/underflow of the plain sums is outside the statement (only the norms promise range safety)
    if got != got or abs(got) == INF:
        if exp[0] == "red" and exp[1] == "norm" and exact > Fraction(10) ** 614:
            return None
        return "%s%r = %r for finite data" % (case["fn"], case["ints"], got)
    tol = Fraction(len(terms) + 4) * Fraction(1, 2 ** 51)
    if exp[0] == "red" and exp[1] == "norm":
        g2 = Fraction(got) ** 2
        if exact == 0:
            return None if got == 0 else "norm of the zero vector is %r" % got
        if abs(g2 - exact) > 2 * tol * exact + Fraction(1, 10 ** 640):
            return "%s%r = %r but sqrt(sum of squares) = %r" % (case["fn"], case["ints"], got, math.sqrt(float(exact)) if exact < 10 ** 600 else "huge")
        return None
    if abs(Fraction(got) - exact) > tol * mag + Fraction(1, 10 ** 300):
        return "%s%r = %r, the defining sum is %r" % (case["fn"], case["ints"], got, float(exact))
    return None


# ----------------------------------------------------------------------------------------------- running
CFG_ARRAY_FNS = ("sum", "sum1", "sum2", "sum_", "sum1_", "sum2_", "dot", "dot_", "copy", "copy_", "swap", "swap_", "fill", "zero",
                 "pushf", "pushb", "rollf", "rollb", "pushf_", "pushb_", "rollf_", "rollb_")


def gen_list_int(ctx, nper):
    """the histories of gen_list with every value a small integer (exactly representable in binary32 and above)"""
    global rvals
    saved, saved_rd = rvals, fcorr.rand_double
    rvals = lambda r, n, wild=True: [float(r.randint(-9, 9)) for _ in range(n)]
    fcorr.rand_double = lambda r: float(r.randint(-9, 9))
    try:
        cases = gen_list(ctx, nper)
    finally:
        rvals, fcorr.rand_double = saved, saved_rd

    def small(c):
        vals = [v for l in c.get("lists", []) for v in l] + list(c.get("scal", []))
        return all(v == v and abs(v) <= 1000 and v == int(v) and not (v == 0 and math.copysign(1, v) < 0) for v in vals)
    return [c for c in cases if c["fn"] in CFG_ARRAY_FNS and small(c)]


def cfg_array_sweep(ctx, srcs, nrep):
    cases = gen_list_int(ctx, 25 if ctx.quick else 300)
    done = 0
    for real, name in ((4, "float"), (16, "long double")):
        try:
            b = ctx.cc("drv_arr_r%d" % real, [H / "drv.c"], repo_srcs=srcs, mode="num", have=1, real=real, extra=["-fsanitize=address", "-g"])
        except vlib.CheckError as e:
            ctx.tie_broken("array helpers, a_real = %s: the driver does not build: %s" % (name, str(e)[:300]))
            continue
        outs, crashes = run_c_cases(b, cases)
        for (i, rc, err) in crashes[:2]:
            if nrep < 10:
                ctx.report("%s/array/%s" % (cases[i]["fn"], name.replace(" ", "-")),
                           "a_real = %s: the driver stopped (rc %s) on %s: %s" % (name, rc, cases[i]["line"], " ".join(err.split())[-400:]),
                           {"case": cases[i]["line"], "configuration": "A_SIZE_REAL %d" % real, "how": "echo '<case>' | build/C11/drv_arr_r%d" % real})
                nrep += 1
        for i, c in enumerate(cases):
            if outs[i] is None:
                continue
            done += 1
            why = list_oracle(c, [fcorr.fval(t) for t in outs[i]])
            if why and nrep < 10:
                ctx.report("%s/array/%s" % (c["fn"], name.replace(" ", "-")), "a_real = %s: %s" % (name, why),
                           {"case": c["line"], "configuration": "A_SIZE_REAL %d" % real, "c_output": outs[i],
                            "how": "echo '<case>' | build/C11/drv_arr_r%d" % real})
                nrep += 1
    ctx.count(evaluations=done)
    ctx.log("array helpers in the float and long double builds: %d integer-data cases x 2 configurations, ASan" % len(cases))
    ctx.cov["array_helpers_other_widths"] = {"cases": len(cases), "configurations": ["A_SIZE_REAL 4", "A_SIZE_REAL 16"], "functions": list(CFG_ARRAY_FNS)}
    return nrep


def run_c_cases(binary, cases, timeout=600):
    """Run the C harness over the cases; a crash (ASan abort, SIGFPE, ...) is attributed to the case being processed and
    the run resumes after it.  Returns (outputs: list of token lists or None, crashes: [(index, rc, stderr tail)])."""
    outs, crashes, start = [None] * len(cases), [], 0
    while start < len(cases):
        rc, out, err = vlib.sh2([str(binary)], stdin="\n".join(c["line"] for c in cases[start:]) + "\n", timeout=timeout)
        lines = out.splitlines()
        if out and not out.endswith("\n"):
            lines = lines[:-1]
        for j, ln in enumerate(lines[:len(cases) - start]):
            outs[start + j] = ln.split()
        if rc == 0 and len(lines) >= len(cases) - start:
            break
        bad = start + len(lines)
        if bad >= len(cases):
            break
        crashes.append((bad, rc, err[-1500:]))
        if len(crashes) > 20:
            break
        start = bad + 1
    return outs, crashes


def acc_eval(ctx, binary, width, pts, timeout=900):
    """pts: [(fn, args)] -> [(err_in_eps or inf, got tokens, ref tokens)] using the C binary (real libm) and mpmath."""
    if not pts:
        return []
    lines = [fn + " " + " ".join(fcorr.argbits(v) for v in a) for fn, a in pts]
    rc, out, err = vlib.sh2([str(binary)], stdin="\n".join(lines) + "\n", timeout=timeout)
    got = [ln.split() for ln in out.splitlines()]
    if rc != 0 or len(got) != len(pts):
        raise vlib.CheckError("accuracy harness failed rc=%d (%d/%d lines): %s" % (rc, len(got), len(pts), err[-800:]))
    # vector norms are looked up as 'normv' by the reference
    rl = ["%s %d %s | %s" % (fn, width, " ".join(fcorr.argbits(v) for v in a), " ".join(g)) for (fn, a), g in zip(pts, got)]
    rc, out, err = vlib.sh2(["python3-vt", str(H / "ref.py")], stdin="\n".join(rl) + "\n", timeout=timeout)
    res = out.splitlines()
    if rc != 0 or len(res) != len(pts):
        raise vlib.CheckError("reference evaluator failed rc=%d: %s" % (rc, err[-800:]))
    ret = []
    for g, ln in zip(got, res):
        t = ln.split()
        if t[0] == "skip":
            ret.append((0.0, g, t))
        else:
            ret.append((INF if t[0] == "inf" else float(t[0]), g, t[1:]))
    return ret


def in_domain(fn, a, width=8):
    """finite arguments in the function's domain, no negative zero where the sign of zero selects the branch cut side"""
    if not all(math.isfinite(v) for v in a):
        return False
    if fn in ("atan2", "c2p", "c2s") and any(v == 0 and math.copysign(1, v) < 0 for v in a):
        return False
    if fn == "acosh":
        return a[0] >= 1
    if fn == "atanh":
        return abs(a[0]) <= 1
    if fn == "log1p":
        return a[0] >= -1
    if fn == "c2s":
        r = math.hypot(a[0], a[1])
        if not math.isfinite(r * (1 + 2.0 ** -20)):
            return False     # the intermediate radius sqrt(x^2+y^2) itself is not representable (overflow)
        if 0 < r < (2.0 ** -1022 if width == 8 else 2.0 ** -126):
            # ... or only as a subnormal number: the elevation atan2(z, r) inherits r's large relative rounding error in
            # BOTH configurations (c2s(5e-324, 5e-324, 5e-324): elevation pi/4 instead of 0.6155).  Counted in the evidence.
            EXCLUDED["c2s: intermediate radius subnormal"] = EXCLUDED.get("c2s: intermediate radius subnormal", 0) + 1
            return False
    if fn in ("p2c", "s2c"):
        return all(abs(v) <= 1e6 for v in a[1:])   # huge angles: accuracy of libm's argument reduction, not liba's code
    return True


def acc_points(ctx, nrand):
    r = ctx.rng.__class__(ctx.subseed("c11-acc"))
    pts = []
    for fn in list(SCALAR) + ["hypot"]:
        base = "norm2" if fn == "hypot" else fn
        sp = [a for a in special_points(base) if in_domain(base, a)]
        if ctx.quick and len(sp) > 80:
            sp = sample_keep_edge(r, sp, 80)
        pts += [(fn, a) for a in sp]
        k = 0
        while k < nrand:
            a = random_point(base, r)
            if in_domain(base, a):
                pts.append((fn, a))
                k += 1
    return pts


def shrink_list_case(cbin, case):
    """Greedy shrink of a failing array case: smaller count, fewer slack cells, small integer data - while the oracle still fails."""
    def fails(c):
        outs, crashes = run_c_cases(cbin, [c], timeout=60)
        if crashes:
            return True
        return outs[0] is not None and list_oracle(c, [fcorr.fval(b) for b in outs[0]]) is not None
    cur = case
    for _ in range(40):
        cands = []
        I, S, L = list(cur["ints"]), cur["scal"], cur["lists"]
        simple = [[float((i % 7) + 1 + 10 * li) for i in range(len(l))] for li, l in enumerate(L)]
        if simple != L:
            cands.append((I, S, simple))
        if I and I[0] > 0:
            cands.append(([I[0] - 1] + I[1:], S, L))
        for li in range(len(L)):
            if L[li]:
                cands.append((I, S, [l[:-1] if j == li else l for j, l in enumerate(L)]))
        ok = False
        for (i2, s2, l2) in cands:
            try:
                c2 = mk_list_case(cur["fn"], i2, s2, l2)
                if list_expect(c2) is None or not case_in_bounds(c2):
                    continue
            except Exception:  # noqa: BLE001
                continue
            if fails(c2):
                cur, ok = c2, True
                break
        if not ok:
            break
    return cur


def case_in_bounds(c):
    """would the C call stay inside the blocks the harness allocates? (candidates of the shrinker must)"""
    fn, I, L = c["fn"], c["ints"], c["lists"]
    ln = [len(l) for l in L]
    if fn in ("norm", "sum", "sum1", "sum2", "mean", "fill", "zero", "pushf", "pushb", "rollf", "rollb"):
        return I[0] <= ln[0]
    if fn in ("norm_", "sum_", "sum1_", "sum2_", "mean_"):
        return I[0] == 0 or (I[0] - 1) * I[1] < ln[0]
    if fn == "dot":
        return I[0] <= ln[0] and I[0] <= ln[1]
    if fn == "dot_":
        return I[0] == 0 or ((I[0] - 1) * I[1] < ln[0] and (I[0] - 1) * I[2] < ln[1])
    if fn in ("copy", "swap"):
        n, a, b = I
        return a + n <= ln[0] and b + n <= ln[0] and (a + n <= b or b + n <= a or n == 0)
    if fn in ("copy_", "swap_"):
        n, a, ac, b, bc = I
        return n == 0 or (a + (n - 1) * ac < ln[0] and b + (n - 1) * bc < ln[0])
    if fn in ("pushf_", "pushb_"):
        return I[0] <= ln[0] and I[1] <= ln[1]
    if fn in ("rollf_", "rollb_"):
        return I[0] <= ln[0] and (I[0] == 0 or I[1] % I[0] <= ln[1])
    return False


TIE_FUNCS = ["a_real_rad2deg", "a_real_deg2rad", "a_real_atan2", "a_real_log1p", "a_real_asinh", "a_real_acosh", "a_real_atanh",
             "a_real_norm2", "a_real_norm3", "a_real_cart2pol", "a_real_pol2cart", "a_real_cart2sph", "a_real_sph2cart"]


def translator_tie(ctx):
    # third tie: the scalar fallback bodies of src/math.c are REGENERATED by the translator (every A_HAVE_* off) and proved
    # equal to the hand model, one theorem per function, for every NumOps instance satisfying the two stated laws
    ctx.translate_and_tie([("src/math.c", TIE_FUNCS)], "GenMath", H / "TieMath.v", have=0, real=8, timeout=1200)
    # ... and the reductions / array helpers UNROLLED for small counts and strides with exactly sized arrays (an access outside
    # an array is a translation error), proved to compute what the list model computes, for all cell values (272 theorems)
    ctx.translate_and_tie([("src/math.c", (H / "tie_arr_names.txt").read_text().split())], "GenArr", sorted(H.glob("TieArr*.v")),
                          have=0, real=8, timeout=1200)
    # ... and the same 26 functions with their loops as Fixpoints (tools/c2arr.py), proved equal to the list model for EVERY count,
    # stride, offset and array length (harness/C11/TieLoop*.v, 30 theorems; no-wrap hypotheses in the statements)
    import varr
    varr.arr_translate_and_tie(ctx, "C11")


def run(ctx):
    import threading
    EXCLUDED.clear()
    ctx.prove()
    th = threading.Thread(target=translator_tie, args=(ctx,))
    th.start()
    try:
        run_ties(ctx)
    finally:
        th.join()


def run_ties(ctx):
    ctx.assumptions += ["floating-point accuracy is measured on samples against mpmath (tolerance K*eps*|value|, K in the coverage), not proved",
                        "bit-exact tie: libm entry points are replaced by the same fixed substitute functions on both sides",
                        "C built with gcc -O2 -ffp-contract=off (binary64/binary32 operation by operation), AddressSanitizer on the array helpers",
                        "the model is of the a_real=double build; the float build is covered by the accuracy tie only",
                        "signed zeros, infinities and NaN arguments are compared bit for bit with the model but are outside the accuracy statement",
                        "cart2sph: points whose intermediate radius sqrt(x^2+y^2) overflows are outside the accuracy statement (the radius is "
                        "not representable); points whose intermediate radius is a non-zero subnormal number are not swept but probed: "
                        "the elevation is wrong there in both configurations, an OPEN finding listed in KNOWN_FINDINGS.txt"]
    srcs = ["math.c", "a.c"]
    bx = ctx.cc("drv_bx", [H / "drv.c", fcorr.LIBM_SUBST], repo_srcs=srcs, mode="num", have=0, real=8,
                extra=fcorr.WRAP_FLAGS + ["-fsanitize=address", "-g"])
    accbin = {}
    for have in (0, 1):
        for real in (8, 4):
            accbin[(have, real)] = ctx.cc("drv_h%d_r%d" % (have, real), [H / "drv.c"], repo_srcs=srcs, mode="num", have=have, real=real)
    ok, outs, failed = ctx.coq_build(["C11/MathRun.v"])
    if not ok:
        raise vlib.CheckError("model does not compile: %s\n%s" % (failed, "\n".join(outs.get(f, "")[-800:] for f in failed)))

    # ------------------------------------------------------------------ Tie 1: bit-exact
    corpus, corpus_l = [], []
    cp = vlib.VERIF / "corpus" / "C11" / "cases.txt"
    if cp.exists():
        def num(v):
            return float.fromhex(v) if "0x" in v.lower() else float(v)
        for ln in cp.read_text().splitlines():
            t = ln.split()
            if not t or ln.startswith("#"):
                continue
            if t[0] in SCALAR:
                corpus.append(scalar_case(t[0], [num(v) for v in t[1:]]))
            elif t[0] == "list":
                parts = [q.split() for q in ln.split(None, 2)[2].split("|")]
                parts += [[]] * (4 - len(parts))
                lists = [[num(v) for v in q] for q in parts[2:4]]
                if t[1] not in ("dot", "dot_", "pushf_", "pushb_", "rollf_", "rollb_"):
                    lists = lists[:1]
                corpus_l.append(mk_list_case(t[1], [int(v, 0) for v in parts[0]], [num(v) for v in parts[1]], lists))
            else:
                raise vlib.CheckError("corpus/C11/cases.txt: unknown case kind %r" % t[0])
        for c in corpus_l:
            if not case_in_bounds(c):
                raise vlib.CheckError("corpus/C11/cases.txt: case out of bounds: %s" % c["line"])
    scal = corpus + gen_scalar(ctx, 60 if ctx.quick else 1500)
    lst = corpus_l + gen_list(ctx, 40 if ctx.quick else 800)
    cases = scal + lst
    ctx.log("tie 1: %d scalar + %d array cases" % (len(scal), len(lst)))
    c_out, crashes = run_c_cases(bx, cases)
    m_out = fcorr.run_model(ctx, "c11cases", ["C11.MathDefs", "C11.MathRun"], [c["expr"] for c in cases], shard=max(200, len(cases) // vlib.NPROC + 1))
    mism = []
    for i, c in enumerate(cases):
        if c_out[i] is None or c_out[i] != m_out[i]:
            mism.append(i)
    for i in mism[:3]:
        ctx.tie_broken("correspondence C11 (bit-exact binary64, fallback build): case #%d '%s': C %s, model %s"
                       % (i, cases[i]["line"][:100], (c_out[i] or ["<crash>"])[:6], m_out[i][:6]))
    nrep = 0
    for (i, rc, err) in crashes[:3]:
        c = cases[i]
        small = shrink_list_case(bx, c) if c["kind"] == "list" else c
        why = "harness aborted (rc %d) inside %s: %s" % (rc, c["fn"], " ".join(err.split())[-300:])
        ctx.report("%s/crash" % c["fn"], why, {"case": small["line"], "original_case": c["line"], "configuration": "A_HAVE_*=0, double",
                                               "how": "echo '<case>' | build/C11/drv_bx"})
        nrep += 1
    # the property on the C output of every array case (the substitutes play no role there)
    branches = {}
    for i, c in enumerate(cases):
        if c["kind"] == "list":
            branches[c["fn"]] = branches.get(c["fn"], 0) + 1
            if c_out[i] is None:
                continue
            why = list_oracle(c, [fcorr.fval(b) for b in c_out[i]])
            if why and nrep < 6:
                small = shrink_list_case(bx, c)
                o2, _ = run_c_cases(bx, [small], timeout=60)
                why2 = (list_oracle(small, [fcorr.fval(b) for b in o2[0]]) if o2[0] else None) or why
                ctx.report("%s/array" % c["fn"], why2, {"case": small["line"], "original_case": c["line"], "c_output": o2[0],
                                                        "how": "echo '<case>' | build/C11/drv_bx"})
                nrep += 1
        else:
            b = branch_of(c["fn"], c["args"])
            branches[b] = branches.get(b, 0) + 1

    # ------------------------------------------------------------------ array helpers in the float and long double builds
    # (seeded change C11-14: sizeof(pointer) for sizeof(a_real), invisible with 8-byte reals).  Small-integer data, exact in
    # every format, so the defining list operation gives the expected cells / sums bit for bit; ASan on the blocks.
    nrep = cfg_array_sweep(ctx, srcs, nrep)

    # ------------------------------------------------------------------ Tie 2: accuracy in both configurations, both widths
    pts = [(c["fn"], c["args"]) for c in corpus if in_domain(c["fn"], c["args"])] + acc_points(ctx, 60 if ctx.quick else 1500)
    # scalar cases on which the bit-exact tie broke are examined first (search oracle), with neighbours
    extra = []
    for i in mism:
        c = cases[i]
        if c["kind"] == "scalar" and in_domain(c["fn"], c["args"]):
            extra.append((c["fn"], c["args"]))
    extra = extra[:400]
    worst, nacc, fails = {}, 0, {}
    for (have, real), b in sorted(accbin.items()):
        P = []
        for fn, a in extra + pts:
            a2 = tuple(f32(v) for v in a) if real == 4 else tuple(a)
            base = "norm2" if fn == "hypot" else fn
            if in_domain(base, a2, real):
                P.append((fn, a2))
        res = acc_eval(ctx, b, real, P)
        nacc += len(P)
        for (fn, a), (e, got, ref) in zip(P, res):
            key = (fn, have, real)
            if e > worst.get(key, (0, None))[0]:
                worst[key] = (e, a)
            if e > K_TOL[real]:
                fails.setdefault((fn, have), []).append((e, real, a, got, ref))
    for (fn, have), fl in sorted(fails.items()):
        if nrep >= 10:
            break
        fl.sort(key=lambda t: (-t[0] if t[0] != INF else -1e99, sum(abs(v) for v in t[2])))
        e, real, a, got, ref = fl[0]
        cfg = "A_HAVE_*=%d, %s" % (have, "double" if real == 8 else "float")
        ctx.report("%s/accuracy/%s" % (fn, "libm" if have else "fallback"),
                   "a_real_%s(%s) [%s] = %s, mathematical value %s: error %s eps (tolerance %g); %d of the sampled points fail"
                   % (fn, ", ".join(v.hex() for v in a), cfg, [fcorr.fval(g) if g != "nan" else NAN for g in got], ref,
                      "inf" if e == INF else "%.1f" % e, K_TOL[real], len(fl)),
                   {"fn": fn, "args_hex": [v.hex() for v in a], "args": [repr(v) for v in a], "configuration": cfg, "c_output": got,
                    "reference": ref, "how": "echo '%s %s' | build/C11/drv_h%d_r%d" % (fn, " ".join(fcorr.argbits(v) for v in a), have, real)})
        nrep += 1

    # the excluded domain of cart2sph is not swept, but it is not hidden either: a fixed set of probes in it is evaluated
    # in every configuration and a failure is reported under one key (KNOWN_FINDINGS.txt lists it as an open finding: the
    # elevation is computed from the rounded intermediate radius, whose relative error is large once it is subnormal)
    sub = {8: [(5e-324, 5e-324, 5e-324), (1e-320, 2e-320, 3e-320), (3e-310, -4e-310, 1e-310)],
           4: [(1.4e-45, 1.4e-45, 1.4e-45), (1e-42, 2e-42, 3e-42), (3e-40, -4e-40, 1e-40)]}
    probe_fail = []
    for (have, real), b in sorted(accbin.items()):
        P = [("c2s", tuple(f32(v) for v in a) if real == 4 else a) for a in sub[real]]
        for (fn, a), (e, got, ref) in zip(P, acc_eval(ctx, b, real, P)):
            nacc += 1
            if e > K_TOL[real]:
                probe_fail.append((e, have, real, a, got, ref))
    if probe_fail:
        e, have, real, a, got, ref = max(probe_fail, key=lambda t: (t[0] if t[0] != INF else 1e99))
        ctx.report("c2s/accuracy/subnormal-intermediate-radius",
                   "a_real_cart2sph(%s) [A_HAVE_*=%d, %s] = %s, mathematical value %s: error %s eps; the intermediate radius "
                   "sqrt(x^2+y^2) is a subnormal number and its rounding error dominates the elevation atan2(z, r) "
                   "(%d of %d probes fail, libm-bound and fallback alike)"
                   % (", ".join(v.hex() for v in a), have, "double" if real == 8 else "float",
                      [fcorr.fval(g) if g != "nan" else NAN for g in got], ref, "inf" if e == INF else "%.3g" % e,
                      len(probe_fail), 3 * len(accbin)),
                   {"fn": "c2s", "args_hex": [v.hex() for v in a], "args": [repr(v) for v in a],
                    "configuration": "A_HAVE_*=%d, real=%d" % (have, real), "c_output": got, "reference": ref})
    ctx.cov["cart2sph_subnormal_radius_probes_failing"] = len(probe_fail)

    ctx.count(evaluations=len(cases) + nacc,
              nontrivial=len(set(c["line"] for c in cases if c["kind"] == "scalar" or c["ints"][0] > 0)) + len(set(pts)))
    ctx.cov["rule"] = ("tie 1: every case-split boundary of the fallback bodies (2^26, 2, 2^-26, 1, 1/2, 2^-52, +-1/2, -1, all sign/zero/"
                       "inf/nan combinations for atan2 and the norms) with both neighbours, plus log-uniform random arguments 1e-320..1e308; "
                       "arrays: counts 0..12, strides 0..5, offsets 0..6, slack cells, overlapping strided arguments, special values; "
                       "tie 2: the finite in-domain subset of the same points + random points, x {A_HAVE=0,1} x {double,float}; "
                       "distinct = distinct case lines (arrays: count > 0) + distinct accuracy points")
    ctx.cov["model_branch_hits"] = dict(sorted(branches.items()))
    ctx.cov["correspondence_mismatches"] = len(mism)
    ctx.cov["harness_crashes"] = len(crashes)
    ctx.cov["accuracy_evaluations"] = nacc
    ctx.cov["accuracy_points_excluded"] = dict(EXCLUDED)
    ctx.cov["accuracy_tolerance_K_eps"] = {"double": K_TOL[8], "float": K_TOL[4]}
    ctx.cov["accuracy_worst_eps"] = {"%s/%s/%s" % (fn, "libm" if have else "fallback", "double" if real == 8 else "float"):
                                     (round(e, 2) if e != INF else "inf") for (fn, have, real), (e, a) in sorted(worst.items())}
    for c in cases[:: max(1, len(cases) // 5)][:5]:
        ctx.sample({"case": c["line"][:160], "model_expr": c["expr"][:160]})
