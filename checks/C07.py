"""C07 -- allocation failure never corrupts a container or leaks memory (a_str, a_vec, a_buf, a_que).

  prove   coq/Properties_C07.v: theorems about the C06 / C04 / C05 models extended with the fault
          view of coq/C07/*.v (for EVERY history and EVERY fault schedule): a refused request is
          reported, the container is kept, a retry behaves like the fault-free run, the ledger of
          heap blocks is balanced.
  tie     per container, FAULT ENUMERATION: every generated history is run fault-free, then once
          per allocation request k with only request k refused (and the refused operation
          re-issued at once: the retry), and once per k with request k and all later ones refused.
          The C implementation built from $VERIF_REPO (ASan+UBSan+LeakSanitizer, a_alloc replaced
          by a shim with the schedule and its own ledger) and the extracted Rocq model run the same
          case files; results, request traces and the ledger are compared line by line.
  search  oracle_*(): the property itself evaluated on what the C printed (failure value returned,
          dump before = dump after, retry run = fault-free run, shim ledger empty after the
          destructors, no release of a block that is not live, no sanitizer report).
"""
import json
import random
import re
import time
from concurrent.futures import ThreadPoolExecutor
from pathlib import Path

try:
    from tools import vlib
except ImportError:  # pragma: no cover
    import vlib

PID = "C07"
H = vlib.VERIF / "harness" / PID
CORPUS = vlib.VERIF / "corpus" / PID

META = {
    "text": "Rocq theorems, per container, for EVERY operation history and EVERY allocator fault schedule (not only the "
            "enumerated ones), about the C06/C04/C05 models, whose operations already consume one schedule answer per a_alloc "
            "request and log it: (reports) an operation in which a request was refused returns its failure value (A_OMEMORY, "
            "null element pointer / null handle, -1 for a_str_catc, 0 for a_str_catf, NULL for a_str_exit); (preserves) the "
            "container is as before: a_str keeps length, capacity, block size, byte string, invariant and a terminator that stood "
            "after the content; the vector/buffer world and the queue world are IDENTICAL to the world before the call up to the "
            "pending schedule (hence contents, invariants, ledger); (retry) re-issuing the operation is the step of the fault-free "
            "run, and with nothing pending in the schedule nothing is refused; (ledger) a_str: a ledger machine with block "
            "identities over construction / a_str_new / operations / a_str_exit hand-over / destruction never sees a release or "
            "resize of a non-live block and is empty after the destructors, without any precondition; a_vec/a_buf: no EvBad "
            "(release/resize of a non-live block) along any history satisfying C04's preconditions, the ledger holds exactly the "
            "blocks the handles own, once each, and is empty after a_vec_die/a_buf_die; a_que: the heap holds exactly the two "
            "sentinels plus the nodes the two objects account for (enqueued + recycled) after every operation, failed ones "
            "included, and nothing but the sentinels after a_que_dtor. a_que_drop / a_que_setz are proved all-or-nothing as "
            "repaired (fix commits 2e456ba, 8678f0c) and refuted by witness as found; a_str_catv as found (before ac1fa53) is "
            "refuted by witness. Tie: FAULT ENUMERATION - each generated history is run fault-free, then with each single "
            "request index refused (the refused call re-issued at once) and with each index and all later ones refused, by the "
            "C built from the current tree (ASan+UBSan+LeakSanitizer, a_alloc replaced by a scheduling shim with its own ledger) "
            "and by the extracted models; results, container dumps, request traces (kind, size, answer) and ledger are compared "
            "line by line; the oracle re-checks the four clauses on the C output alone. Second tie (translators tools/c2str.py and "
            "tools/c2vec.py, the same as in C06 / C04): str.c, vec.c and buf.c are regenerated from the current sources on every run "
            "and proved equal to StrDefs.v / VecDefs.v for every state, argument and allocator SCHEDULE - the refused-request paths "
            "are part of what is tied (31 + 70 tie theorems).",
    "note": "Trusted: Coq kernel; extraction (ExtrOcamlBasic only) and the drivers harness/C06/drv.c (c07 mode), harness/C04/drv.c, "
            "harness/C07/que_drv.c, harness/C07/{str,que}_mdrv.ml, harness/C04/mdrv.ml; the hand-written models of C06/C04/C05 "
            "(string and vector/buffer: tied by the translator tie theorems and by differential testing; queue: by differential "
            "testing, here under the enumerated schedules); the translators' reading of the C. Modelled, not verified: malloc/realloc/free "
            "as a schedule-driven oracle with a ledger (a refused realloc keeps the old block); for a_que the pool array is not a "
            "block of the model (it exists iff mem_ > 0), block sizes of queue nodes are not tracked (the tie compares the number "
            "of live blocks and the sizes in the request trace), 'no release of a non-live block' is expressed by the block count "
            "staying exact, queue operations are modelled with dtor = NULL, a_que_new/a_que_die (heap-allocated queue object) "
            "are not modelled; string theorems (reports/preserves/retry) assume the documented size preconditions op_ok "
            "(sizes < 2^64 - 8, formatter output < INT_MAX), vector/buffer ledger theorem assumes C04's hist_pre; queue theorems "
            "assume a_que_swap_ is applied to enqueued elements. Memory safety of the C is observed by the sanitizers, not proved. "
            "No axioms.",
    "technique": "Rocq proof (invariants over histories and fault schedules, control-flow analysis of every allocation point, "
                 "ledger/cardinality accounting) + str.c / vec.c / buf.c regenerated by translators and proved equal to the models for "
                 "every allocator schedule + fault-enumerating extracted-model vs C correspondence under ASan/UBSan/LSan",
    "category": "proof",
}


# ====================================================================================== generic
class Case:
    __slots__ = ("cid", "head", "ops", "sched", "info")

    def __init__(self, cid, ops, sched=None, head=None, info=None):
        self.cid, self.ops, self.sched, self.head, self.info = cid, list(ops), sched, head, info or {}


def split_cases(out, start="case "):
    res, cur, order = {}, None, []
    for ln in out.split("\n"):
        if ln.startswith(start):
            cur = ln[len(start):].strip()
            res[cur] = []
            order.append(cur)
        elif cur is not None and ln != "":
            res[cur].append(ln)
    return res, order


def crash_summary(err):
    m = re.search(r"ERROR: AddressSanitizer: (\S+)", err)
    kind = m.group(1) if m else None
    if not kind:
        m2 = re.search(r"runtime error: ([^\n]*)", err)
        if m2:
            kind = "ubsan:" + m2.group(1)[:60].replace(" ", "_")
        elif "LeakSanitizer" in err:
            kind = "leak"
        elif "HARNESS" in err:
            kind = "harness-abort"
        else:
            kind = "abort"
    fr = re.findall(r"#\d+ 0x[0-9a-f]+ in (a_\w+) [^\n]*?/src/(\w+\.c):(\d+)", err)
    where = "%s@%s:%s" % fr[0] if fr else "?"
    return "kind=%s where=%s" % (kind, where)


ASAN_ENV = {"ASAN_OPTIONS": "detect_leaks=1:allocator_may_return_null=1", "UBSAN_OPTIONS": "print_stacktrace=1",
            "C04_LINEBUF": "1"}       # harness/C04/drv.c: flush every line, so that a crash keeps the lines before it


def run_cases(cmd, cases, text_of, complete, sanitized=True, max_restarts=25, start="case ", by_order=False):
    """Run a driver over cases; an abort ends the case it occurred in with a CRASH line and the
    remaining cases run in a fresh process.  complete(line) says whether a line is whole.
    by_order: the driver announces cases by running number (start + n), not by id."""
    res = {}
    todo = list(cases)
    restarts = 0
    while todo:
        txt = "".join(text_of(c) for c in todo)
        rc, out, err = vlib.sh2(cmd, stdin=txt, timeout=900, env=ASAN_ENV if sanitized else None)
        got, order = split_cases(out, start)
        if by_order:
            got = {todo[i].cid: got[k] for i, k in enumerate(order) if i < len(todo)}
            order = [todo[i].cid for i in range(min(len(order), len(todo)))]
        if rc == 0:
            res.update(got)
            break
        if not order:
            raise vlib.CheckError("driver %s failed before the first case: rc=%d %s" % (cmd[0], rc, err[-800:]))
        last = order[-1]
        lines = got[last]
        part = ""
        if lines and not complete(lines[-1]):
            part = lines.pop()
        # a harness abort prints its reason on stdout
        why = crash_summary(err + "\n" + out[-300:])
        lines.append("CRASH rc=%d at[%s] %s" % (rc, part.strip()[:80], why))
        res.update(got)
        idx = next(i for i, c in enumerate(todo) if c.cid == last)
        todo = todo[idx + 1:]
        restarts += 1
        if restarts > max_restarts:
            for c in todo:
                res[c.cid] = ["SKIPPED too many crashes"]
            break
    return res


def usable_base(base_lines):
    return bool(base_lines) and not any(l.startswith(("CRASH", "SKIPPED")) for l in base_lines)


def fault_schedules(nreq):
    """(tag, schedule text, retry?) for every request index: single fault (with retry), tail fault."""
    out = []
    for k in range(nreq):
        out.append(("s%d" % k, "1" * k + "0", True))
        out.append(("t%d" % k, "1" * k + "0*", False))
    return out


def hx(bs):
    return bytes(bs).hex() if len(bs) else "-"


def show_sched(s):
    """run-length display of a schedule (the tail-fault schedules of the vector driver are long)"""
    if not s or len(s) < 40:
        return s
    return re.sub(r"0{20,}", lambda m: "0{%d}" % len(m.group(0)), re.sub(r"1{20,}", lambda m: "1{%d}" % len(m.group(0)), s))


# ====================================================================================== a_str
STR_LINE = re.compile(r"^(\d+) (\S+) r=(\S+) A=(\d),(\d+),(\d+),(\d+),(\S+) B=(\d),(\d+),(\d+),(\d+),(\S+) ev=(\S+?)( LEDGER-ERROR)?$")
STR_FAILVAL = {"catc": "i-1", "catc_": "i-1", "catn": "i4", "catn_": "i4", "cats": "i4", "cats_": "i4", "cat": "i4",
               "cat_": "i4", "utf": "i4", "setm": "i4", "setm_": "i4", "catf": "i0", "exit": "p0", "new": "i0"}
STR_CFUNC = {"utf": "a_utf_catc", "catf": "a_str_catf"}
PRINTABLE = list(range(0x21, 0x7f))


def str_cfunc(op):
    return STR_CFUNC.get(op, "a_str_" + op)


def str_text(c):
    l = ["case %s" % c.cid]
    if c.sched:
        l.append("sched " + c.sched)
    l.extend(c.ops)
    l.append("end")
    return "\n".join(l) + "\n"


def str_blob(rng, n, nul=True):
    out = []
    for _ in range(n):
        r = rng.random()
        if r < 0.08 and nul:
            out.append(0)
        elif r < 0.25:
            out.append(rng.randrange(0x80, 0x100))
        elif r < 0.35:
            out.append(0x20)
        else:
            out.append(rng.choice(PRINTABLE))
    return out


STR_SIZES = ["=", "R-1", "R+0", "R+1", "R+2", "R+7", "R+8", "R+9", "R+16", "0", "1", "7", "8", "9", "17", "30"]


def str_rand_op(rng):
    t = "A" if rng.random() < 0.65 else "B"
    r = rng.random()
    bl = lambda nul=True: hx(str_blob(rng, rng.randrange(1, 10), nul))
    if r < 0.10:
        return "catc%s %s %d" % (rng.choice(["", "_"]), t, rng.choice([0, 65, 255, -1, 321, rng.randrange(0, 256)]))
    if r < 0.26:
        return "catn%s %s %s %s" % (rng.choice(["", "_"]), t, bl(), rng.choice(STR_SIZES))
    if r < 0.34:
        return "cats%s %s %s %s" % (rng.choice(["", "_"]), t, bl(), rng.choice(STR_SIZES))
    if r < 0.44:
        return "cat%s %s %d" % (rng.choice(["", "_"]), t, 1 if rng.random() < 0.4 else 0)
    if r < 0.60:
        m = rng.random()
        if m < 0.6:
            return "catf %s s %s %s" % (t, bl(False), rng.choice(STR_SIZES))
        if m < 0.8:
            return "catf %s l %s %s" % (t, hx([rng.choice(PRINTABLE) for _ in range(rng.randrange(1, 8))]),
                                        rng.choice(STR_SIZES))
        v = rng.choice([0, -1, 99999, 2147483647, -2147483648, rng.randrange(-10 ** 6, 10 ** 6)])
        return "catf %s d %s = %d" % (t, hx(("%d" % v).encode()), v)
    if r < 0.66:
        return "utf %s %d" % (t, rng.choice([0, 0x41, 0x7ff, 0x800, 0xffff, 0x10000, 0x3ffffff, 0x7fffffff, 0xffffffff]))
    if r < 0.72:
        return "setm%s %s %s" % (rng.choice(["", "_"]), t, rng.choice(["M+1", "M+8", "M+9", "N+1", "N+9", "N+20", "M+0"]))
    if r < 0.78:
        return "exit %s" % t
    if r < 0.82:
        return "getn%s %s %d %s" % (rng.choice(["", "_"]), t, rng.randrange(2), rng.choice(["1", "3", "N-1", "N+1"]))
    if r < 0.85:
        return "getc%s %s" % (rng.choice(["", "_"]), t)
    if r < 0.88:
        return "%s %s %s" % (rng.choice(["rtrim", "ltrim", "trim", "trim_"]), t, rng.choice(["-", "2061", "20"]))
    if r < 0.90:
        return "setn %s %s" % (t, rng.choice(["N-1", "N+0", "M+0", "0", "N-3"]))
    if r < 0.92:
        return "swap"
    if r < 0.94:
        return "dtor %s" % t
    if r < 0.96:
        return "die %s" % t
    if r < 0.98:
        return "new %s" % t
    if r < 0.99:
        return "ctor %s" % t
    return "cmp %s" % t


def str_rand_hist(rng, hid):
    n = rng.choice([3, 5, 8, 12, 16])
    ops = []
    if rng.random() < 0.3:
        ops += ["die B", "new B"]
    if rng.random() < 0.15:
        ops += ["die A", "new A"]
    for _ in range(n):
        ops.append(str_rand_op(rng))
    return Case(hid, ops)


def str_systematic():
    """each allocating operation at each fill level, crossing its reservation boundary exactly"""
    txt = hx(b"abcdefghij")
    anyb = hx(bytes([0x80, 0x00, 0xff, 0x20, 0x41]))
    probes = []
    for o in ("catn", "catn_", "cats", "cats_"):
        for s in ("R-1", "R+0", "R+1", "R+9"):
            probes.append("%s A %s %s" % (o, txt if o.startswith("cats") else anyb, s))
    for s in ("0", "R-1", "R+0", "R+1", "R+8"):
        probes.append("catf A s %s %s" % (txt, s))
    probes += ["catc A 65", "catc_ A 66", "utf A 65", "utf A 2147483647", "cat A 0", "cat A 1", "cat_ A 0", "cat_ A 1",
               "exit A", "setm A M+1", "setm_ A N+9"]
    cases = []
    k = 0
    for f in (0, 5, 7, 8, 15):
        for fillop in ("catn_", "catn"):
            for p in probes:
                ops = ["cats B %s 3" % txt, "%s A %s %d" % (fillop, hx(b" a\tb"), f), p, "cmp A", "exit A"]
                cases.append(Case("ssys%d" % k, ops))
                k += 1
    return cases


def str_parse(ln):
    m = STR_LINE.match(ln)
    if not m:
        return None
    g = m.groups()

    def st(o):
        blk = bytes.fromhex(g[o + 4]) if g[o + 4] != "-" else b""
        return {"p": int(g[o]), "num": int(g[o + 1]), "mem": int(g[o + 2]), "bs": int(g[o + 3]), "blk": blk}
    evs = [] if g[13] == "-" else g[13].split(",")
    return {"k": int(g[0]), "op": g[1], "ret": g[2], "A": st(3), "B": st(8), "ev": evs, "lederr": bool(g[14])}


def str_view(s):
    """what 'the previous contents and the invariants' means for one object"""
    n = s["num"]
    term = n < s["mem"] and n < len(s["blk"]) and s["blk"][n] == 0
    return (s["p"], n, s["mem"], s["bs"], s["blk"][:n], term)


def str_keeps(before, after):
    b, a = str_view(before), str_view(after)
    return a[:5] == b[:5] and (a[5] or not b[5])


def str_nreq(lines):
    n = 0
    where = []
    for i, ln in enumerate(lines):
        p = str_parse(ln)
        if not p:
            continue
        for e in p["ev"]:
            if e[-1] in "+-":
                where.append(i)
                n += 1
    return n, where


STR_INIT = {"p": 0, "num": 0, "mem": 0, "bs": 0, "blk": b""}


def oracle_str(case, lines, base_lines=None):
    """The property on the C output of one case.  base_lines: the fault-free run of the same
    history (for the retry clause; case.info['retry_at'] = index of the re-issued operation)."""
    prev = {"A": dict(STR_INIT), "B": dict(STR_INIT)}
    parsed = []
    for i, opl in enumerate(case.ops):
        op = opl.split()[0]
        if i >= len(lines):
            return (i, str_cfunc(op) + "/no-output", "no output for op %d (%s)" % (i, opl))
        ln = lines[i]
        if ln.startswith("CRASH"):
            m = re.search(r"kind=(\S+)", ln)
            return (i, "%s/sanitizer:%s" % (str_cfunc(op), m.group(1) if m else "abort"),
                    "abort during op %d `%s` (schedule %s): %s" % (i, opl, show_sched(case.sched), ln))
        if ln.startswith("SKIPPED"):
            return None
        p = str_parse(ln)
        if not p or "BAD" in ln:
            return (i, "harness/bad-line", "unparsable line: " + ln[:200])
        parsed.append(p)
        if p["lederr"]:
            return (i, str_cfunc(op) + "/ledger", "op %d `%s`: release/resize of a block that is not live" % (i, opl))
        failed = any(e.endswith("-") for e in p["ev"])
        if failed:
            want = STR_FAILVAL.get(op)
            if want is None:
                return (i, str_cfunc(op) + "/unexpected-request", "op %d `%s` made an allocation request" % (i, opl))
            if p["ret"] != want:
                return (i, str_cfunc(op) + "/fault-not-reported",
                        "op %d `%s` (schedule %s): a request was refused (%s) but the call returned %s, expected %s"
                        % (i, opl, show_sched(case.sched), ",".join(p["ev"]), p["ret"][:40], want))
            for nm in ("A", "B"):
                if p[nm]["p"] == 3 and prev[nm]["p"] == 3:
                    continue
                if op == "new" and nm == opl.split()[1]:
                    if p[nm]["p"] != 3:
                        return (i, "a_str_new/fault-not-reported", "a_str_new refused but an object exists")
                    continue
                if not str_keeps(prev[nm], p[nm]):
                    return (i, str_cfunc(op) + "/fault-changes-container",
                            "op %d `%s` (schedule %s): request refused (%s) but object %s changed: before %s after %s"
                            % (i, opl, show_sched(case.sched), ",".join(p["ev"]), nm, str_view(prev[nm]), str_view(p[nm])))
        prev = {"A": p["A"], "B": p["B"]}
    # destructors: ledger empty
    if len(lines) > len(case.ops):
        e = lines[len(case.ops)]
        if e.startswith("CRASH"):
            m = re.search(r"kind=(\S+)", e)
            return (len(case.ops), "a_str_dtor/sanitizer:%s" % (m.group(1) if m else "abort"),
                    "abort at end of case (schedule %s): %s" % (show_sched(case.sched), e))
        if e.startswith("end") and e.strip() != "end live=0":
            return (len(case.ops), "a_str/leak", "blocks still live after the destructors (schedule %s): %s" % (show_sched(case.sched), e))
    # retry: the run with the refused operation re-issued equals the fault-free run
    j = case.info.get("retry_at")
    if j is not None and usable_base(base_lines) and j < len(parsed):
        mine = parsed[:j - 1] + parsed[j:]
        base_ops = case.ops[:j - 1] + case.ops[j:]
        for i, q in enumerate(mine):
            if i >= len(base_lines):
                break
            b = str_parse(base_lines[i])
            if not b:
                break
            same = q["ret"] == b["ret"]
            t = base_ops[i].split()
            if t[0] == "exit" and q["ret"] != "p0" and b["ret"] != "p0" and q["ret"][0] == "p" and b["ret"][0] == "p":
                # hand-over: equal up to and including the terminator
                n = mine[i - 1][t[1]]["num"] if i > 0 else 0
                same = bytes.fromhex(q["ret"][1:])[:n + 1] == bytes.fromhex(b["ret"][1:])[:n + 1]
            if not same or str_view(q["A"]) != str_view(b["A"]) or str_view(q["B"]) != str_view(b["B"]):
                op = case.ops[j].split()[0]
                return (j, str_cfunc(op) + "/retry-differs",
                        "schedule %s: after the refused `%s` was re-issued, op `%s` gives r=%s A=%s B=%s, the fault-free run "
                        "gives r=%s A=%s B=%s" % (show_sched(case.sched), case.ops[j], q["op"], q["ret"][:40], str_view(q["A"]),
                                                  str_view(q["B"]), b["ret"][:40], str_view(b["A"]), str_view(b["B"])))
    return None


class StrPart:
    name = "str"

    def build(self, ctx):
        self.cbin = ctx.cc("str_cdrv", [vlib.VERIF / "harness" / "C06" / "drv.c"], repo_srcs=["str.c", "utf.c", "a.c"],
                           mode="asan")
        ml = ctx.extract("C07/ExtractStr.v", ["C07/extracted/strfault.ml", "C07/extracted/strfault.mli"])
        self.mbin = ctx.ocaml_build("str_mdrv", ml[::-1] + [H / "str_mdrv.ml"])

    def histories(self, ctx):
        hs = []
        for f in sorted(CORPUS.glob("str_*.case")):
            hs += parse_str_corpus(f.read_text(), f.stem)
        nc = len(hs)
        hs += str_systematic() if not ctx.quick else str_systematic()[::3]
        rng = random.Random(ctx.subseed("C07/str"))
        n = 260 if ctx.quick else 2500
        for i in range(n):
            hs.append(str_rand_hist(rng, "sr%d" % i))
        return hs, nc

    def run_c(self, cases):
        return run_cases([str(self.cbin), "c07"], cases, str_text,
                         lambda l: bool(STR_LINE.match(l)) or l.startswith("end "))

    def run_m(self, cases):
        txt = "".join(str_text(c) for c in cases)
        rc, out, err = vlib.sh2([str(self.mbin)], stdin=txt, timeout=900)
        if rc != 0:
            raise vlib.CheckError("str model driver failed: rc=%d %s" % (rc, (out[-300:] + err[-500:])))
        return split_cases(out)[0]

    def expand(self, base, base_lines):
        """fault enumeration of one history given its fault-free model run"""
        nreq, where = str_nreq(base_lines)
        out = []
        for tag, sched, retry in fault_schedules(nreq):
            k = int(tag[1:])
            ops = list(base.ops)
            info = {"base": base.cid}
            if retry:
                j = where[k]
                ops = ops[:j + 1] + [ops[j]] + ops[j + 1:]
                info["retry_at"] = j + 1
            out.append(Case("%s.%s" % (base.cid, tag), ops, sched, info=info))
        return out, nreq

    def oracle(self, case, lines, base_lines):
        return oracle_str(case, lines, base_lines)

    @staticmethod
    def refused_line(l):
        m = re.search(r" ev=(\S+)", l)
        return bool(m) and any(len(e) > 1 and e.endswith("-") for e in m.group(1).split(","))

    text = staticmethod(str_text)

    @staticmethod
    def site(opl):
        return str_cfunc(opl.split()[0])


def parse_str_corpus(txt, stem):
    cases, cur = [], None
    for ln in txt.splitlines():
        ln = ln.split("#", 1)[0].strip()
        if not ln:
            continue
        t = ln.split()
        if t[0] == "case":
            cur = Case("%s:%s" % (stem, t[1]), [])
        elif t[0] == "end":
            if cur is not None:
                cases.append(cur)
            cur = None
        elif t[0] == "sched":
            pass            # schedules are enumerated
        elif cur is not None:
            cur.ops.append(" ".join(t))
    return cases


# ====================================================================================== a_vec / a_buf
VEC_LINE = re.compile(r"^(\S+) d=\[([^\]]*)\] e=\[([^\]]*)\](.*) L=(\d+):(\d+)$")
VEC_STATE = re.compile(r" (v0|v1|b):(nil|z=\d+,n=\d+,m=\d+,p=\d(?:,o=\d+)?\[[^\]]*\])")
VEC_TAGS = re.compile(r" (v0|v1|b):")
VEC_LIMIT = 0x10000
VEC_SIZES = [1, 2, 4, 8, 13, 0, 3]
VEC_FN = {"ins": "insert", "pushb": "push_back", "pushf": "push_fore", "pushs": "push_sort", "setm": "setm", "setn": "setn",
          "store": "store"}


def vec_text(c):
    return "H %x %s\n" % (VEC_LIMIT, c.sched or "-") + "".join(o + "\n" for o in c.ops)


def vec_parse(ln):
    m = VEC_LINE.match(ln)
    if not m:
        return None
    ret, d, e, st, lc, lb = m.groups()
    states = dict(VEC_STATE.findall(st))
    if len(states) != len(VEC_TAGS.findall(st)):
        return None       # a container state of the line was not understood: never judge on a partial parse
    return {"ret": ret, "d": d, "ev": [x for x in e.split(",") if x], "st": states, "L": (int(lc), int(lb))}


def vec_site(opl):
    t = opl.split()
    if t[0] == "v":
        return "a_vec_" + VEC_FN.get(t[2], t[2]), "v" + t[1], t[2]
    if t[0] == "b":
        return "a_buf_" + VEC_FN.get(t[1], t[1]), "b", t[1]
    return {"vn": "a_vec_new", "vd": "a_vec_die", "vs": "a_vec_swap", "bn": "a_buf_new", "bd": "a_buf_die"}[t[0]], \
        ("b" if t[0][0] == "b" else "v" + (t[1] if len(t) > 1 else "0")), t[0]


def vec_elem(rng, siz):
    siz = siz or 1
    return bytes(rng.choice([0, 1, 2, 3, 0x7f, 0x80, 0xff, rng.randrange(256)]) for _ in range(min(siz, 3))).hex()


def vec_rand_hist(rng, hid):
    ops = []
    siz = rng.choice(VEC_SIZES)
    mode = rng.random()
    have_b = False
    if mode < 0.65:
        ops.append("vn 0 %x" % siz)
        if rng.random() < 0.4:
            ops.append("vn 1 %x" % rng.choice(VEC_SIZES))
        tg = ["v 0"] * 3 + (["v 1"] if len(ops) > 1 else [])
    else:
        ops.append("bn %x %x" % (siz, rng.choice([0, 1, 2, 3, 5, 8, 9])))
        tg = ["b"]
        have_b = True
        if rng.random() < 0.3:
            ops.append("vn 0 %x" % siz)
            tg.append("v 0")
    n = 0
    for _ in range(rng.choice([3, 5, 8, 12, 18])):
        P = rng.choice(tg)
        e = lambda: vec_elem(rng, siz)
        c = rng.random()
        idx = rng.choice([0, 1, n // 2, max(n - 1, 0), n, n + 1, (1 << 64) - 1])
        if c < 0.22:
            ops.append("%s pushb %s" % (P, e()))
            n += 1
        elif c < 0.30:
            ops.append("%s pushf %s" % (P, e()))
            n += 1
        elif c < 0.40:
            ops.append("%s ins %x %s" % (P, idx, e()))
            n += 1
        elif c < 0.47:
            ops.append("%s pushs %s" % (P, e()))
            n += 1
        elif c < 0.57:
            k = rng.choice([0, 1, 2, 3, 7, 9])
            ops.append("%s store %x %s %d" % (P, idx, ",".join(e() for _ in range(k)) or "-", rng.randrange(2)))
            n += k
        elif c < 0.65:
            ops.append("%s setn %x %d %s" % (P, rng.choice([0, 1, n + 1, n + 8, n + 9, 20, 33]), rng.randrange(2), e()))
        elif c < 0.73:
            ops.append("%s setm %x" % (P, rng.choice([0, 1, n, n + 1, 8, 9, 17, 40, 1 << 61, (1 << 64) - 1])
                                       if P != "b" else rng.choice([0, 1, n, n + 1, 8, 9, 17, 40])))
        elif c < 0.79:
            ops.append("%s rem %x" % (P, idx))
            n = max(n - 1, 0)
        elif c < 0.83:
            ops.append("%s %s" % (P, rng.choice(["pullf", "pullb"])))
            n = max(n - 1, 0)
        elif c < 0.87:
            ops.append("%s erase %x %x %d" % (P, idx, rng.choice([0, 1, 2, n, (1 << 64) - 1]), rng.randrange(2)))
        elif c < 0.90:
            ops.append("%s setz %x %d" % (P, rng.choice(VEC_SIZES), rng.randrange(2)))
            n = 0
        elif c < 0.93:
            ops.append("%s %s" % (P, rng.choice(["sort", "sortf", "sortb", "top", "end", "at 0"])))
        elif c < 0.95:
            ops.append("vs")
        elif c < 0.97:
            if P == "b":
                ops += ["bd %d" % rng.randrange(2), "bn %x %x" % (rng.choice(VEC_SIZES), rng.choice([0, 2, 8]))]
            else:
                ops += ["vd %s %d" % (P[2], rng.randrange(2)), "vn %s %x" % (P[2], rng.choice(VEC_SIZES))]
            n = 0
        elif c < 0.985 and not have_b:
            ops.append("bn %x %x" % (siz, rng.choice([0, 1, 4, 8])))
            tg.append("b")
            have_b = True
        else:
            ops.append("vn 1 %x" % siz)
            if "v 1" not in tg:
                tg.append("v 1")
    ops += ["vd 0 %d" % rng.randrange(2), "vd 1 0", "bd %d" % rng.randrange(2)]
    return Case(hid, ops)


def vec_systematic():
    """growth boundaries: fill to k elements, then each allocating operation (the capacities of
    a_vec_setm are 0, 8, 16, 32, ...: k = 0, 7, 8, 15, 16 sit on both sides of each step)"""
    cases = []
    i = 0
    for siz in (1, 4):
        for k in (0, 7, 8, 15, 16):
            fill = ["v 0 pushb %02x" % (j + 1) for j in range(k)]
            for probe in ("v 0 pushb 7f", "v 0 pushf 7f", "v 0 ins 1 7f", "v 0 pushs 7f", "v 0 store 1 11,22 0",
                          "v 0 store 0 11,22,33,44,55,66,77,88,99 1", "v 0 setn %x 0 aa" % (k + 1), "v 0 setm %x" % (k + 1),
                          "v 0 setm 40"):
                ops = ["vn 0 %x" % siz, "vn 1 2", "v 1 pushb 0102"] + fill + [probe, "vs", "v 1 pushb 55", "vd 0 1",
                                                                              "vd 1 0", "bd 0"]
                cases.append(Case("vsys%d" % i, ops))
                i += 1
    for siz in (1, 8):
        for num in (0, 2, 8):
            for probe in ("b setm %x" % (num + 1), "b setm 0", "b setm 21", "b pushb 01"):
                ops = ["bn %x %x" % (siz, num)] + ["b pushb %02x" % (j + 1) for j in range(num)] + \
                      [probe, "b pushb 02", "b setm 3", "vd 0 0", "vd 1 0", "bd 1"]
                cases.append(Case("vsys%d" % i, ops))
                i += 1
    return cases


def oracle_vec(case, lines, base_lines=None):
    last = {}
    prevL = (0, 0)
    j = case.info.get("retry_at")
    for i, opl in enumerate(case.ops):
        site, tag, o = vec_site(opl)
        if i >= len(lines):
            return (i, site + "/no-output", "no output for op %d (%s)" % (i, opl))
        ln = lines[i]
        if ln.startswith("CRASH"):
            m = re.search(r"kind=(\S+)", ln)
            return (i, "%s/sanitizer:%s" % (site, m.group(1) if m else "abort"),
                    "abort during op %d `%s` (schedule %s): %s" % (i, opl, show_sched(case.sched), ln))
        if ln.startswith("SKIPPED"):
            return None
        p = vec_parse(ln)
        if not p:
            return (i, "harness/bad-line", "unparsable line: " + ln[:200])
        if "BAD" in p["ev"]:
            return (i, site + "/ledger", "op %d `%s` (schedule %s): release/resize of a block that is not live" % (i, opl, show_sched(case.sched)))
        if any(e.endswith("-") for e in p["ev"]):
            st = p["st"].get(tag)
            if o in ("vn", "bn"):
                bad = st != "nil"
                want = "a null handle"
            elif o in ("setm", "setn", "store"):
                bad = p["ret"] != "rc=4"
                want = "rc=4"
            elif o in ("pushs", "ins", "pushf", "pushb"):
                bad = p["ret"] != "ptr=NULL"
                want = "ptr=NULL"
            else:
                return (i, site + "/unexpected-request", "op %d `%s` made an allocation request" % (i, opl))
            if bad:
                return (i, site + "/fault-not-reported", "op %d `%s` (schedule %s): a request was refused (%s) but the call "
                        "returned %s %s, expected %s" % (i, opl, show_sched(case.sched), ",".join(p["ev"]), p["ret"], st, want))
            if (tag in last and st != last[tag]) or p["d"] or p["L"] != prevL:
                return (i, site + "/fault-changes-container",
                        "op %d `%s` (schedule %s): request refused (%s) but the container / ledger changed: before %s L=%s, "
                        "after %s L=%s, destructor calls [%s]" % (i, opl, show_sched(case.sched), ",".join(p["ev"]), last.get(tag), prevL,
                                                                 st, p["L"], p["d"]))
        last.update(p["st"])
        prevL = p["L"]
    if prevL != (0, 0) and len(lines) >= len(case.ops):
        return (len(case.ops) - 1, "a_vec/leak", "blocks still live after a_vec_die / a_buf_die (schedule %s): L=%d:%d"
                % (show_sched(case.sched), prevL[0], prevL[1]))
    if j is not None and usable_base(base_lines) and len(lines) >= len(case.ops):
        mine = lines[:j - 1] + lines[j:]
        d = vlib.first_diff(mine[:len(base_lines)], base_lines[:len(mine)])
        if d is not None:
            site = vec_site(case.ops[j])[0]
            return (j, site + "/retry-differs", "schedule %s: after the refused `%s` was re-issued the run differs from the "
                    "fault-free run at `%s`: `%s` vs fault-free `%s`" % (show_sched(case.sched), case.ops[j], (case.ops[:j - 1] + case.ops[j:])[d],
                                                                       mine[d][:160], base_lines[d][:160]))
    return None


class VecPart:
    name = "vec_buf"

    def build(self, ctx):
        h4 = vlib.VERIF / "harness" / "C04"
        self.cbin = ctx.cc("vec_cdrv", [h4 / "drv.c"], repo_srcs=["vec.c", "buf.c", "a.c"], mode="asan")
        ml = ctx.extract("C04/Extract.v", ["C04/extracted/vecmodel.ml", "C04/extracted/vecmodel.mli"])
        self.mbin = ctx.ocaml_build("vec_mdrv", ml[::-1] + [h4 / "mdrv.ml"])

    def histories(self, ctx):
        hs = []
        for f in sorted(CORPUS.glob("vec_*.case")):
            cur = None
            for ln in f.read_text().splitlines():
                ln = ln.split("#", 1)[0].strip()
                if ln.startswith("H"):
                    cur = Case("%s:%d" % (f.stem, len(hs)), [])
                    hs.append(cur)
                elif ln and cur is not None:
                    cur.ops.append(ln)
        nc = len(hs)
        sysc = vec_systematic()
        hs += sysc[::2] if ctx.quick else sysc
        rng = random.Random(ctx.subseed("C07/vec"))
        for i in range(220 if ctx.quick else 2500):
            hs.append(vec_rand_hist(rng, "vr%d" % i))
        return hs, nc

    def run_c(self, cases):
        return run_cases([str(self.cbin)], cases, vec_text, lambda l: bool(VEC_LINE.match(l)), start="H ", by_order=True)

    def run_m(self, cases):
        txt = "".join(vec_text(c) for c in cases)
        rc, out, err = vlib.sh2([str(self.mbin)], stdin=txt, timeout=900)
        if rc != 0:
            raise vlib.CheckError("vec model driver failed: rc=%d %s" % (rc, (out[-300:] + err[-500:])))
        got, order = split_cases(out, "H ")
        return {cases[i].cid: got[k] for i, k in enumerate(order) if i < len(cases)}

    def expand(self, base, base_lines):
        where = []
        for i, ln in enumerate(base_lines):
            p = vec_parse(ln)
            if p:
                where += [i] * sum(1 for e in p["ev"] if e[-1] in "+-")
        out = []
        for tag, sched, retry in fault_schedules(len(where)):
            k = int(tag[1:])
            ops = list(base.ops)
            info = {"base": base.cid}
            if retry:
                j = where[k]
                ops = ops[:j + 1] + [ops[j]] + ops[j + 1:]
                info["retry_at"] = j + 1
            else:
                sched = sched[:-1] + "0" * 300      # this driver has no "for ever" marker
            out.append(Case("%s.%s" % (base.cid, tag), ops, sched, info=info))
        return out, len(where)

    def oracle(self, case, lines, base_lines):
        return oracle_vec(case, lines, base_lines)

    @staticmethod
    def refused_line(l):
        m = re.search(r" e=\[([^\]]*)\]", l)
        return bool(m) and any(len(e) > 1 and e.endswith("-") for e in m.group(1).split(","))

    text = staticmethod(vec_text)

    @staticmethod
    def site(opl):
        return vec_site(opl)[0]


# ====================================================================================== a_que
QUE_LINE = re.compile(r"^(\d+) (\S+) r=(-?\d+) A:(\S+) B:(\S+) v=\[([^\]]*)\] t=\[([^\]]*)\] L=(\d+)$")
QUE_PTR_OPS = {"push_fore", "push_back", "pull_fore", "pull_back", "insert", "remove", "push_sort"}
QUE_FN = {"swap_e": "a_que_swap_"}
U64 = 1 << 64


def que_fn(op):
    return QUE_FN.get(op, "a_que_" + op)


def que_text(c):
    l = ["case %s" % c.cid]
    if c.sched:
        l.append("sched " + c.sched)
    l.extend(c.ops)
    l.append("end")
    return "\n".join(l) + "\n"


def que_parse(ln):
    m = QUE_LINE.match(ln)
    if not m:
        return None
    g = m.groups()

    def q(txt):
        mm = re.match(r"n=(\d+),z=(\d+),m=(\d+),f=(\[[^\]]*\]|BROKEN),b=(\[[^\]]*\]|BROKEN),p=\[([^\]]*)\]$", txt)
        if not mm:
            return None
        lst = lambda t: None if t == "BROKEN" else [int(x) for x in t[1:-1].split(",") if x]
        return {"n": int(mm.group(1)), "z": int(mm.group(2)), "m": int(mm.group(3)), "f": lst(mm.group(4)),
                "b": lst(mm.group(5)), "p": [x for x in mm.group(6).split(",") if x]}
    vals = {}
    for kv in g[5].split(","):
        if kv:
            a, b = kv.split(":")
            vals[int(a)] = b
    return {"k": int(g[0]), "op": g[1], "ret": int(g[2]), "A": q(g[3]), "B": q(g[4]), "v": vals,
            "t": [x for x in g[6].split(",") if x], "L": int(g[7])}


def que_contents(p, nm):
    """the abstract contents of one queue object: (address, value) in order"""
    q = p[nm]
    if q is None or q["f"] is None:
        return None
    return [(x, p["v"].get(x)) for x in q["f"]]


def que_rand_hist(rng, hid):
    ops = []
    n = [0, 0]
    ids = [[], []]
    nxt = 3
    two = rng.random() < 0.35
    pre = rng.choice([0, 0, 3, 7, 8, 9, 12, 17])
    for i in range(pre):
        ops.append("push_back 0 %d" % rng.randint(0, 9))
    n[0] = pre
    for _ in range(rng.choice([3, 5, 8, 12])):
        s = rng.choice([0, 1]) if two else 0
        c = rng.random()
        v = rng.randint(0, 9)
        idx = rng.choice([0, 1, max(n[s] - 1, 0), n[s], n[s] + 1, U64 - 1])
        if c < 0.16:
            ops.append("%s %d %d" % (rng.choice(["push_fore", "push_back"]), s, v))
            n[s] += 1
        elif c < 0.22:
            ops.append("insert %d %d %d" % (s, idx, v))
            n[s] += 1
        elif c < 0.27:
            ops.append("push_sort %d %d %d" % (s, rng.randrange(2), v))
            n[s] += 1
        elif c < 0.42:
            ops.append("%s %d" % (rng.choice(["pull_fore", "pull_back"]), s))
            n[s] = max(n[s] - 1, 0)
        elif c < 0.52:
            ops.append("remove %d %d" % (s, idx))
            n[s] = max(n[s] - 1, 0)
        elif c < 0.66:
            ops.append("drop %d" % s)
            n[s] = 0
        elif c < 0.80:
            ops.append("setz %d %d" % (s, rng.choice([0, 1, 4, 8, 9, 12, 24, 40])))
            n[s] = 0
        elif c < 0.84:
            ops.append("swap 0 1")
            n[0], n[1] = n[1], n[0]
            two = True
        elif c < 0.88:
            ops.append("reset %d %d" % (s, rng.choice([0, 1, 8, 24])))
            n[s] = 0
        elif c < 0.92:
            ops.append("%s %d %d" % (rng.choice(["sort_fore", "sort_back"]), s, rng.randrange(2)))
        elif c < 0.96:
            ops.append("at %d %d" % (s, rng.choice([0, -1, n[s], -n[s] - 1, 1])))
        else:
            ops.append("%s %d" % (rng.choice(["fore", "back"]), s))
    return Case(hid, ops)


def que_systematic():
    """pool-array growth boundaries (capacities 0, 8, 16, 32): n elements enqueued, k already
    recycled, then drop / setz / pulls; node-allocation boundaries (pool empty / not empty)"""
    cases = []
    i = 0
    for n in (1, 7, 8, 9, 16, 17, 20):
        for k in (0, 1, 8):
            pre = ["push_back 0 %d" % (j % 10) for j in range(n + k)] + ["pull_fore 0"] * k
            for probe in (["drop 0"], ["setz 0 24"], ["setz 0 4"], ["setz 0 0"], ["drop 0", "setz 0 40", "push_back 0 1"],
                          ["pull_back 0", "pull_fore 0"], ["remove 0 1", "remove 0 %d" % (U64 - 1)]):
                cases.append(Case("qsys%d" % i, pre + probe + ["push_fore 0 7", "push_back 0 8"]))
                i += 1
    for probe in (["push_fore 0 1"], ["push_back 0 1"], ["insert 0 0 1"], ["insert 0 5 1"], ["push_sort 0 1 4"]):
        for pre in ([], ["push_back 0 3", "push_back 0 5"], ["push_back 0 3", "push_back 0 5", "pull_fore 0"]):
            cases.append(Case("qsys%d" % i, pre + probe + ["swap 0 1", "push_back 1 2", "drop 1", "drop 0"]))
            i += 1
    return cases


def oracle_que(case, lines, base_lines=None):
    prev = None
    j = case.info.get("retry_at")
    parsed = []
    for i, opl in enumerate(case.ops):
        t = opl.split()
        op = t[0]
        site = que_fn(op)
        if i >= len(lines):
            return (i, site + "/no-output", "no output for op %d (%s)" % (i, opl))
        ln = lines[i]
        if ln.startswith("CRASH"):
            m = re.search(r"kind=(\S+)", ln)
            return (i, "%s/sanitizer:%s" % (site, m.group(1) if m else "abort"),
                    "abort during op %d `%s` (schedule %s): %s" % (i, opl, show_sched(case.sched), ln))
        if ln.startswith("SKIPPED"):
            return None
        p = que_parse(ln)
        if not p or p["A"] is None or p["B"] is None:
            return (i, site + "/bad-line", "op %d `%s` (schedule %s): unparsable line (broken ring?): %s"
                    % (i, opl, show_sched(case.sched), ln[:200]))
        parsed.append(p)
        for nm in ("A", "B"):
            q = p[nm]
            if q["f"] is None or q["b"] is None or q["f"] != q["b"][::-1] or q["n"] != len(q["f"]) or "?" in q["p"] \
                    or len(q["p"]) > q["m"] or len(set(q["f"]) | set(q["p"])) != len(q["f"]) + len(q["p"]):
                return (i, site + "/invariant", "op %d `%s` (schedule %s): queue %s violates its invariants: %s"
                        % (i, opl, show_sched(case.sched), nm, ln[:200]))
        if any(x.endswith(":0") for x in p["t"]):
            want = 0 if op in QUE_PTR_OPS else 4
            if op not in QUE_PTR_OPS and op not in ("drop", "setz"):
                return (i, site + "/unexpected-request", "op %d `%s` made an allocation request" % (i, opl))
            if p["ret"] != want:
                return (i, site + "/fault-not-reported", "op %d `%s` (schedule %s): a request was refused (%s) but the call "
                        "returned %d, expected %d" % (i, opl, show_sched(case.sched), ",".join(p["t"]), p["ret"], want))
            before = {nm: (que_contents(prev, nm) if prev else []) for nm in ("A", "B")}
            after = {nm: que_contents(p, nm) for nm in ("A", "B")}
            sizes_b = {nm: (prev[nm]["z"] if prev else 8) for nm in ("A", "B")}
            if before != after or any(p[nm]["z"] != sizes_b[nm] for nm in ("A", "B")):
                return (i, site + "/fault-changes-container",
                        "op %d `%s` (schedule %s): request refused (%s) but the contents changed: before A=%s B=%s, after A=%s B=%s"
                        % (i, opl, show_sched(case.sched), ",".join(p["t"]), before["A"], before["B"], after["A"], after["B"]))
        prev = p
    if len(lines) > len(case.ops):
        e = lines[len(case.ops)]
        if e.startswith("CRASH"):
            m = re.search(r"kind=(\S+)", e)
            return (len(case.ops), "a_que_dtor/sanitizer:%s" % (m.group(1) if m else "abort"),
                    "abort at end of case (schedule %s): %s" % (show_sched(case.sched), e))
        if e.startswith("end") and e.strip() != "end live=0":
            return (len(case.ops), "a_que/leak", "blocks still live after a_que_dtor (schedule %s): %s" % (show_sched(case.sched), e))
    if j is not None and usable_base(base_lines) and j < len(parsed):
        mine = parsed[:j - 1] + parsed[j:]
        for i, q in enumerate(mine):
            if i >= len(base_lines):
                break
            b = que_parse(base_lines[i])
            if not b:
                break
            if (q["ret"], q["A"], q["B"], q["v"], q["L"]) != (b["ret"], b["A"], b["B"], b["v"], b["L"]):
                return (j, que_fn(case.ops[j].split()[0]) + "/retry-differs",
                        "schedule %s: after the refused `%s` was re-issued, op `%s` gives %s, the fault-free run gives %s"
                        % (show_sched(case.sched), case.ops[j], q["op"], lines[(i if i < j - 1 else i + 1)][:200], base_lines[i][:200]))
    return None


class QuePart:
    name = "que"

    def build(self, ctx):
        self.cbin = ctx.cc("que_cdrv", [H / "que_drv.c"], repo_srcs=["que.c", "a.c"], mode="asan")
        ml = ctx.extract("C07/ExtractQue.v", ["C07/extracted/quefault.ml", "C07/extracted/quefault.mli"])
        self.mbin = ctx.ocaml_build("que_mdrv", ml[::-1] + [H / "que_mdrv.ml"])

    def histories(self, ctx):
        hs = []
        for f in sorted(CORPUS.glob("que_*.case")):
            hs += parse_str_corpus(f.read_text(), f.stem)
        nc = len(hs)
        sysc = que_systematic()
        hs += sysc[::3] if ctx.quick else sysc
        rng = random.Random(ctx.subseed("C07/que"))
        for i in range(240 if ctx.quick else 2500):
            hs.append(que_rand_hist(rng, "qr%d" % i))
        return hs, nc

    def run_c(self, cases):
        return run_cases([str(self.cbin)], cases, que_text,
                         lambda l: bool(QUE_LINE.match(l)) or l.startswith("end ") or l.endswith(" dead") or l.endswith("fault"))

    variant = "fixed"

    def run_m(self, cases, variant=None):
        txt = "".join(que_text(c) for c in cases)
        v = variant or self.variant
        rc, out, err = vlib.sh2([str(self.mbin)] + (["asfound"] if v == "asfound" else []), stdin=txt, timeout=900)
        if rc != 0:
            raise vlib.CheckError("que model driver failed: rc=%d %s" % (rc, (out[-300:] + err[-500:])))
        return split_cases(out)[0]

    def choose_variant(self, ctx, hs, base_c, base_m, stats):
        """Which a_que_drop / a_que_setz does the tree have?  The theorems are about the repaired
        ones (coq/C07/QueFaultDefs.v); a tree that still has the bodies as found (C05's q_drop /
        q_setz, refuted by que_drop_as_found_refuted / que_setz_as_found_refuted) is recognised by its
        fault-free request traces and tied to that model, and the oracle then reports the concrete
        failing inputs (keys a_que_drop/fault-changes-container, a_que_setz/fault-changes-container)."""
        self.variant = "fixed"
        differ = [h for h in hs if base_c.get(h.cid) != base_m.get(h.cid)]
        if differ:
            alt = self.run_m(hs, "asfound")
            if all(base_c.get(h.cid) == alt.get(h.cid) for h in hs):
                self.variant = "asfound"
                ctx.notes.append("src/que.c has a_que_drop / a_que_setz as found (not all-or-nothing): the tie uses the model of "
                                 "the code as found; the repaired model is the one the theorems are about")
        stats["que_c_variant"] = self.variant

    def expand(self, base, base_lines):
        where = []
        for i, ln in enumerate(base_lines):
            p = que_parse(ln)
            if p:
                where += [i] * len(p["t"])
        out = []
        for tag, sched, retry in fault_schedules(len(where)):
            k = int(tag[1:])
            ops = list(base.ops)
            info = {"base": base.cid}
            if retry:
                j = where[k]
                ops = ops[:j + 1] + [ops[j]] + ops[j + 1:]
                info["retry_at"] = j + 1
            out.append(Case("%s.%s" % (base.cid, tag), ops, sched, info=info))
        return out, len(where)

    def oracle(self, case, lines, base_lines):
        return oracle_que(case, lines, base_lines)

    @staticmethod
    def refused_line(l):
        m = re.search(r" t=\[([^\]]*)\]", l)
        return bool(m) and any(e.endswith(":0") for e in m.group(1).split(","))

    text = staticmethod(que_text)

    @staticmethod
    def site(opl):
        return que_fn(opl.split()[0])


# ====================================================================================== driver
def process_part(ctx, part, stats):
    """fault enumeration of one container; returns (cases, C output, model output, mismatches, failures)"""
    t0 = time.time()
    hs, ncorpus = part.histories(ctx)
    # the fault-free runs: they define the request indices that are enumerated
    base_c = part.run_c(hs)
    base_m = part.run_m(hs)
    if hasattr(part, "choose_variant"):
        part.choose_variant(ctx, hs, base_c, base_m, stats)
        base_m = part.run_m(hs)
    cases = []
    nreq_tot = 0
    for h in hs:
        bl = base_c.get(h.cid, [])
        if not bl or any(l.startswith(("CRASH", "SKIPPED")) for l in bl):
            bl = base_m.get(h.cid, [])
        ex, nreq = part.expand(h, bl)
        nreq_tot += nreq
        cases.append(h)
        cases += ex
    stats["histories"] = len(hs)
    stats["corpus_histories"] = ncorpus
    stats["requests_in_fault_free_runs"] = nreq_tot
    stats["cases"] = len(cases)
    chunk = 300
    chunks = [cases[i:i + chunk] for i in range(0, len(cases), chunk)]
    workers = max(2, min(8, vlib.NPROC // 2))
    cout, mout = {}, {}

    def job(ch):
        return part.run_c(ch), part.run_m(ch)
    with ThreadPoolExecutor(max_workers=workers) as ex:
        for c, m in ex.map(job, chunks):
            cout.update(c)
            mout.update(m)
    mism, fails = [], []
    nops = 0
    nfail_ops = 0
    by_site = {}
    for c in cases:
        cl, ml = cout.get(c.cid, []), mout.get(c.cid, [])
        nops += len(c.ops)
        for i, l in enumerate(cl[:len(c.ops)]):
            if part.refused_line(l):
                nfail_ops += 1
                fn = part.site(c.ops[i])
                by_site[fn] = by_site.get(fn, 0) + 1
        d = vlib.first_diff(cl, ml)
        if d is not None:
            mism.append((c, d, cl[d] if d < len(cl) else "<missing>", ml[d] if d < len(ml) else "<missing>"))
        base = c.info.get("base")
        f = part.oracle(c, cl, cout.get(base) if base else None)
        if f:
            fails.append((c, f))
    stats["ops_compared"] = nops
    stats["ops_with_refused_request"] = nfail_ops
    stats["refused_by_function"] = dict(sorted(by_site.items()))
    stats["wall_s"] = round(time.time() - t0, 1)
    return cases, cout, mout, mism, fails


def shrink_case(part, case, key, base_of):
    """delta-debug the op list of a failing fault case (the schedule is re-derived by position)"""
    def fails(ops):
        c = Case("s", ops, case.sched, info={})
        out = part.run_c([c])
        f = part.oracle(c, out.get("s", []), None)
        return bool(f) and f[1] == key
    if case.info.get("retry_at") is not None or not fails(case.ops):
        return case
    ops = vlib.ddmin(case.ops, fails, max_tests=120)
    return Case(case.cid + "-min", ops, case.sched, info={})


PARTS = [StrPart(), VecPart(), QuePart()]
# every entry point of the four containers that can ask the allocator for memory
EXPECTED_SITES = ["a_str_new", "a_str_setm", "a_str_setm_", "a_str_exit", "a_str_catc", "a_str_catc_", "a_str_catn", "a_str_catn_",
                  "a_str_cats", "a_str_cats_", "a_str_cat", "a_str_cat_", "a_str_catf", "a_utf_catc",
                  "a_vec_new", "a_vec_setm", "a_vec_setn", "a_vec_push_sort", "a_vec_insert", "a_vec_push_fore", "a_vec_push_back",
                  "a_vec_store", "a_buf_new", "a_buf_setm",
                  "a_que_push_fore", "a_que_push_back", "a_que_insert", "a_que_push_sort", "a_que_pull_fore", "a_que_pull_back",
                  "a_que_remove", "a_que_drop", "a_que_setz"]


def coqchk(ctx):
    """thorough: re-check the compiled property module with the independent checker"""
    rc, out = vlib.sh(["coqchk", "-silent", "-o", "-Q", ".", "LibaV", "LibaV.Properties_C07"], cwd=vlib.COQ, timeout=1500)
    ax = re.search(r"\* Axioms:\s*(.*?)\n\s*\n", out, flags=re.S)
    ok = rc == 0 and ax is not None and ax.group(1).strip() == "<none>"
    ctx.cov["coqchk"] = {"rc": rc, "axioms": ax.group(1).strip() if ax else "?"}
    if not ok:
        ctx.tie_broken("coqchk on LibaV.Properties_C07 failed or reports axioms: rc=%d %s" % (rc, out[-400:]))
    else:
        ctx.cov["trusted_base"].append("coqchk -o LibaV.Properties_C07: accepted, axioms <none>")


def run(ctx):
    if not ctx.quick:
        # rebuild this property's own files from clean
        for f in list((vlib.COQ / "C07").glob("*.vo")) + [vlib.COQ / "Properties_C07.vo"]:
            if f.exists():
                f.unlink()
    if ctx.prove() and not ctx.quick:
        coqchk(ctx)
    # translator ties of the container code this property is about (the same regenerated functions and tie theorems as in
    # C04 / C06: the models carry the allocator's fault schedule, so the failure paths are part of what is tied), run beside
    # the fault enumeration
    import threading
    import vstr
    import vvec
    vec_tie = vvec.start(ctx)
    str_box = {}

    def _str_tie():
        try:
            str_box["ok"] = vstr.str_translate_and_tie(ctx)
        except Exception as e:  # noqa: BLE001
            str_box["error"] = "%s: %s" % (type(e).__name__, e)
    str_th = threading.Thread(target=_str_tie, name="vstr")
    str_th.start()
    ctx.cov["parts"] = {}
    tot_ops = 0
    nontrivial = 0
    for part in PARTS:
        part.build(ctx)
        stats = {}
        cases, cout, mout, mism, fails = process_part(ctx, part, stats)
        ctx.cov["parts"][part.name] = stats
        ctx.log("%s: %d histories -> %d cases, %d ops, %d with a refused request, %.0fs"
                % (part.name, stats["histories"], stats["cases"], stats["ops_compared"],
                   stats["ops_with_refused_request"], stats["wall_s"]))
        tot_ops += stats["ops_compared"]
        nontrivial += stats["ops_with_refused_request"]
        mid = cases[len(cases) // 2]
        cl = cout.get(mid.cid, [])
        if cl:
            ctx.sample({"part": part.name, "case": mid.cid, "schedule": show_sched(mid.sched), "ops": mid.ops[:6],
                        "c_and_model_line": cl[min(len(cl), len(mid.ops)) - 1][:240]})
        seen = {}
        for c, f in sorted(fails, key=lambda cf: len(cf[0].ops)):
            seen.setdefault(f[1], (c, f))
        known_open = {k for (p, k), v in ctx.known.items() if p == PID and v.get("state") == "open"}
        failing = {c.cid: f for c, f in fails}
        explained = [x for x in mism if x[0].cid in failing and failing[x[0].cid][1] in known_open]
        mism = [x for x in mism if x not in explained]
        stats["mismatches_explained_by_known_findings"] = len(explained)
        if mism:
            c, d, cl, ml = mism[0]
            ctx.tie_broken("correspondence %s model vs C under fault enumeration: %d case(s) differ; first: case %s "
                           "(schedule %s) line %d: C `%s` / model `%s`"
                           % (part.name, len(mism), c.cid, show_sched(c.sched), d, cl[:220], ml[:220]))
        for n, (key, (c, f)) in enumerate(sorted(seen.items())):
            if n >= 6:
                break
            small = shrink_case(part, c, key, None)
            co = part.run_c([small]).get(small.cid, [])
            mo = part.run_m([small]).get(small.cid, [])
            f2 = part.oracle(small, co, cout.get(small.info.get("base")) if small.info.get("base") else None) or f
            ctx.report(key=key, what="%s -- %s" % (key, f2[2][:600]),
                       replay={"part": part.name, "case_file": part.text(small), "schedule": small.sched,
                               "failing_op_index": f2[0], "expected": f2[2], "c_output": co, "model_output": mo,
                               "original_case": c.cid}, found_input=True)
    ctx.count(evaluations=tot_ops, nontrivial=nontrivial)
    vvec.finish(ctx, vec_tie)
    str_th.join()
    if "ok" not in str_box:
        ctx.cov["obligations"] += 1
        ctx.tie_broken("translator tie of str.c (tools/vstr.py) did not run: %s" % str_box.get("error", "?"))
    reached = set()
    for st in ctx.cov["parts"].values():
        reached |= set(st.get("refused_by_function", {}))
    ctx.cov["allocation_sites_expected"] = EXPECTED_SITES
    ctx.cov["allocation_sites_never_refused_in_this_run"] = [f for f in EXPECTED_SITES if f not in reached]
    ctx.cov["trusted_base"] += [
        "hand-written models coq/C06/StrDefs.v, coq/C04/VecDefs.v, coq/C05/QueDefs.v + coq/C07/*Defs.v, tied to the C by the "
        "fault-enumerating correspondence of this check (and by checks/C06.py, C04.py, C05.py on their own histories)",
        "malloc/realloc/free modelled as a schedule-driven oracle with a ledger (a refused realloc keeps the old block; the "
        "harness allocators always move on realloc); vsnprintf by its contract (C06 StrDefs.vsn)",
        "a_que: the pool array is not a block of the model (exists iff mem_ > 0); sizes of queue node blocks are not tracked; "
        "dtor = NULL; a_que_new / a_que_die not modelled",
        "extraction (ExtrOcamlBasic) and the drivers harness/C06/drv.c (c07 mode), harness/C04/{drv.c,mdrv.ml}, "
        "harness/C07/{que_drv.c,que_mdrv.ml,str_mdrv.ml}",
        "ASan/UBSan/LeakSanitizer and the shim ledgers as observers of the C run"]
    ctx.cov["rule"] = ("evaluations = operations executed by both the C implementation and the extracted model under the "
                       "enumerated fault schedules and compared line by line (result, container dump, request trace, ledger); "
                       "distinct_nontrivial = operations among them in which an allocation request was refused")


def replay(ctx, path):
    """re-run the case of a replay file on the current tree: C and model lines, oracle verdict"""
    obj = json.loads(Path(path).read_text())
    rp = obj["replay"]
    part = next((p for p in PARTS if p.name == rp.get("part")), None)
    if part is None:
        ctx.tie_broken("replay file names no known part")
        return 1
    part.build(ctx)
    lines = rp["case_file"].splitlines()
    if part.name == "vec_buf":
        sched = lines[0].split()[2] if len(lines[0].split()) > 2 else None
        case = Case("replay", lines[1:], None if sched in (None, "-") else sched)
    else:
        sched = next((l.split()[1] for l in lines if l.startswith("sched ") and len(l.split()) > 1), None)
        case = Case("replay", [l for l in lines if l.split() and l.split()[0] not in ("case", "sched", "end")], sched)
    if hasattr(part, "choose_variant"):
        part.variant = "fixed"
    co = part.run_c([case]).get("replay", [])
    mo = part.run_m([case]).get("replay", [])
    print("\n".join("C: " + l[:300] for l in co))
    print("\n".join("M: " + l[:300] for l in mo))
    f = part.oracle(case, co, None)
    print("oracle:", f)
    if f:
        ctx.report(key=f[1], what="%s -- %s" % (f[1], f[2][:600]),
                   replay={"part": part.name, "case_file": part.text(case), "schedule": case.sched, "failing_op_index": f[0],
                           "expected": f[2], "c_output": co, "model_output": mo, "original_case": "replay of " + str(path)})
    elif vlib.first_diff(co, mo) is not None:
        ctx.tie_broken("replayed case: C and model differ")
    return 1 if f else 0
