"""C06 -- dynamic string (src/str.c, a_utf_catc) equals an abstract byte string, stays NUL-terminated.

  prove        coq/Properties_C06.v (theorems about the model coq/C06/StrDefs.v)
  tie          the extracted model (harness/C06/mdrv.ml) and the C implementation compiled from
               $VERIF_REPO (harness/C06/drv.c, ASan+UBSan, replacement a_alloc) run the same case
               files; every operation prints one canonical line (return value, both string objects
               with their whole heap block, allocator events, and the read-only API evaluated on both
               objects: acc= the driver's own comparison of a_str_ptr/len/mem/at/at_/of with the fields
               over whole index ranges, q= the values of those accessors, a_utf_len and a_str_cmp_ at
               indices derived from the operation number, which the model computes too:
               coq/C06/StrAccDefs.v) and the lines must be identical.
  tie 2        translator tools/c2str.py (wired by tools/vstr.py): the functions of src/str.c / include/a/str.h listed in
               c2str.functions() are regenerated from the CURRENT sources on every run (module Gen.StrGen) and proved equal to the
               model coq/C06/StrDefs.v by harness/C06/TieStr*.v, one `Theorem tie_<function>` each, for every string (invariant
               not assumed), every argument and every allocator schedule; Print Assumptions: closed.
  search       oracle_case(): the property itself, written independently of the Rocq model, is
               evaluated on what the C printed (abstract byte strings kept in Python); a sanitizer
               abort is a failing input too.  Failing cases are shrunk (ddmin on the op list).

Case file syntax (one op per line; T = A|B; sizes: decimal | '=' (blob length) | [NMR][+-]k
relative to T's num / mem / room before the op, '-' saturating; data = blob cycled to the size):
  case <id> / mk <a><b> / sched <0/1...> / end     (mk: how the C builds object A and B: s = a_str_ctor on static
                                                    storage + a_str_dtor, h = a_str_new + a_str_die, i = A_STR_INIT + a_str_dtor)
  dtor T | swap | exit T | setm T sz | setm_ T sz | setn T sz | setn_ T sz | getc T | getc_ T
  catc T int | catc_ T int | getn T want sz | getn_ T want sz | catn T blob sz | catn_ T blob sz
  cats T blob sz | cats_ T blob sz | cat T self | cat_ T self | catf T mode blob sz [arg]
  catv T mode blob sz [arg]   (catf through a direct a_str_catv call with a va_list)
  rtrim[_]/ltrim[_]/trim[_] T setblob | utf T u32 | cmp T | cmpn T blob sz | cmps T blob sz
"""
import json
import os
import random
import re
import time
from concurrent.futures import ThreadPoolExecutor
from pathlib import Path

try:
    from tools import vlib, vstr
except ImportError:  # pragma: no cover
    import vlib
    import vstr

PID = "C06"
H = vlib.VERIF / "harness" / PID
CORPUS = vlib.VERIF / "corpus" / PID
U64 = 1 << 64

CFUNC = {"utf": "a_utf_catc", "catf": "a_str_catf", "catv": "a_str_catv"}


def cfunc(op):
    return CFUNC.get(op, "a_str_" + op)


# ---------------------------------------------------------------------------------- cases
class Case:
    __slots__ = ("cid", "sched", "ops", "mk")

    def __init__(self, cid, ops, sched=None, mk=None):
        self.cid, self.ops, self.sched, self.mk = cid, list(ops), sched, mk

    def text(self):
        l = ["case %s" % self.cid]
        if self.mk:
            l.append("mk " + self.mk)
        if self.sched:
            l.append("sched " + self.sched)
        l.extend(self.ops)
        l.append("end")
        return "\n".join(l) + "\n"


def parse_case_file(txt, prefix=""):
    cases, cur = [], None
    for ln in txt.splitlines():
        ln = ln.split("#", 1)[0].strip()
        if not ln:
            continue
        t = ln.split()
        if t[0] == "case":
            cur = Case(prefix + t[1], [])
        elif t[0] == "end":
            if cur is not None:
                cases.append(cur)
            cur = None
        elif t[0] == "sched":
            cur.sched = t[1] if len(t) > 1 else None
        elif t[0] == "mk":
            cur.mk = t[1] if len(t) > 1 else None
        elif cur is not None:
            cur.ops.append(" ".join(t))
    return cases


def hx(bs):
    return bytes(bs).hex() if len(bs) else "-"


PRINTABLE = list(range(0x21, 0x7f))
WSP = [0x20, 0x09, 0x0a, 0x0b, 0x0c, 0x0d]
TRIMMY = [0x20, 0x09, 0x61, 0x62, 0x0a, 0xff, 0x2d, 0x0d, 0x80]


def blob(rng, kind, n):
    out = []
    for _ in range(n):
        r = rng.random()
        if kind == "trimmy":
            out.append(rng.choice(TRIMMY) if r < 0.9 else 0)
        elif kind == "trimmy0":
            out.append(rng.choice(TRIMMY))
        elif kind == "ascii":
            out.append(rng.choice(PRINTABLE) if r < 0.85 else 0x25)
        else:
            if r < 0.10 and kind == "any":
                out.append(0)
            elif r < 0.35:
                out.append(rng.randrange(0x80, 0x100))
            elif r < 0.55:
                out.append(rng.choice(WSP))
            else:
                out.append(rng.choice(PRINTABLE))
    return out


def data_size(rng):
    r = rng.random()
    if r < 0.30:
        return "="
    if r < 0.70:
        return rng.choice(["R-2", "R-1", "R+0", "R+1", "R+2", "R-7", "R-8", "R-9", "R+6", "R+7", "R+8", "R+9"])
    return str(rng.choice([0, 0, 1, 2, 3, 6, 7, 8, 9, 10, 14, 15, 16, 17, 18, 23, 24, 25, 31, 32, 33,
                           rng.randrange(0, 90)]))


UTF_EDGES = [0, 1, 0x7f, 0x80, 0x7ff, 0x800, 0xffff, 0x10000, 0x1fffff, 0x200000, 0x3ffffff,
             0x4000000, 0x7fffffff, 0x80000000, 0x80000041, 0xffffffff, 0x20ac, 0x1f600]


def fmt_num_op(rng, t):
    mode = rng.choice("dxu")
    if mode == "d":
        v = rng.choice([0, 1, -1, 9, 10, -10, 99999, 2147483647, -2147483648, rng.randrange(-10 ** 6, 10 ** 6)])
        txt = "%d" % v
    elif mode == "x":
        v = rng.choice([0, 255, 0xffffff, 0x1000000, 0xffffffff, rng.randrange(0, 1 << 32)])
        txt = "[%6x]" % v
    else:
        v = rng.choice([0, 7, 99999, 100000, 4294967295, rng.randrange(0, 1 << 32)])
        txt = "%05u|%-4s|" % (v, "ab")
    return "%s %s %s %s = %d" % (rng.choice(["catf", "catf", "catv"]), t, mode, hx(txt.encode()), v)


def rand_op(rng, kind):
    t = "A" if rng.random() < 0.7 else "B"
    r = rng.random()
    bl = lambda k=None, lo=1, hi=12: hx(blob(rng, k or kind, rng.randrange(lo, hi + 1)))
    if r < 0.10:
        return "catc%s %s %d" % (rng.choice(["", "_"]), t,
                                 rng.choice([0, 65, 32, 255, 128, -1, -128, 321, 256, rng.randrange(0, 256)]))
    if r < 0.24:
        return "catn%s %s %s %s" % (rng.choice(["", "_"]), t, bl(), data_size(rng))
    if r < 0.31:
        return "cats%s %s %s %s" % (rng.choice(["", "_"]), t, bl(), data_size(rng))
    if r < 0.38:
        return "cat%s %s %d" % (rng.choice(["", "_"]), t, 1 if rng.random() < 0.35 else 0)
    if r < 0.50:
        m = rng.random()
        cf = rng.choice(["catf", "catf", "catv"])
        if m < 0.45:
            return "%s %s s %s %s" % (cf, t, bl("txt" if kind != "trimmy" else "trimmy0"), data_size(rng))
        if m < 0.60:
            return "%s %s l %s %s" % (cf, t, bl("ascii"), data_size(rng))
        if m < 0.80:
            n = rng.randrange(1, 14)
            d = blob(rng, "txt", n)
            d[n // 2] = rng.choice([0, 0, 0x41, 0xff, 0x25])
            return "%s %s c %s =" % (cf, t, hx(d))
        return fmt_num_op(rng, t)
    if r < 0.55:
        return "utf %s %d" % (t, rng.choice(UTF_EDGES) if rng.random() < 0.6 else rng.randrange(0, 1 << 32))
    if r < 0.61:
        return "getc%s %s" % (rng.choice(["", "_"]), t)
    if r < 0.68:
        return "getn%s %s %d %s" % (rng.choice(["", "_"]), t, rng.randrange(2),
                                    rng.choice(["0", "1", "2", "3", "7", "8", "9", "N+0", "N+1", "N-1", "N-2",
                                                "18446744073709551615", str(rng.randrange(0, 40))]))
    if r < 0.80:
        o = rng.choice(["rtrim", "rtrim_", "ltrim", "ltrim_", "trim", "trim_"])
        if rng.random() < 0.4:
            s = "-"
        else:
            s = hx(blob(rng, "trimmy" if rng.random() < 0.7 else kind, rng.randrange(1, 5)))
        return "%s %s %s" % (o, t, s)
    if r < 0.85:
        return "setn %s %s" % (t, rng.choice(["N-1", "N+0", "N+1", "N-3", "M+0", "M+1", "M-1", "0", "N+2", "M-8",
                                              str(rng.randrange(0, 40))]))
    if r < 0.87:
        return "setn_ %s %s" % (t, rng.choice(["N-1", "N+0", "N-2", "M+0", "M-1", "0", "N-5", "M-7"]))
    if r < 0.90:
        return "setm %s %s" % (t, rng.choice(["0", "1", "8", "9", "M+0", "M+1", "M+8", "M+9", "N+1", "N+0",
                                              str(rng.randrange(0, 100))]))
    if r < 0.92:
        return "setm_ %s %s" % (t, rng.choice(["N+0", "N+1", "N+7", "N+8", "N+9", "M+0", "M+1", "N+20"]))
    if r < 0.95:
        m = rng.random()
        if m < 0.4:
            return "cmp %s" % t
        if m < 0.7:
            return "cmpn %s %s %s" % (t, bl(), rng.choice(["=", "N+0", "N-1", "N+1", "0", "1"]))
        return "cmps %s %s %s" % (t, bl(), rng.choice(["=", "N+0", "N-1", "N+1", "0"]))
    if r < 0.97:
        return "swap"
    if r < 0.99:
        return "exit %s" % t
    return "dtor %s" % t


def rand_case(rng, cid):
    kind = rng.choice(["any", "any", "txt", "trimmy", "trimmy"])
    n = rng.choice([4, 8, 12, 20, 30, 40])
    ops = []
    for _ in range(n):
        o = rand_op(rng, kind)
        ops.append(o)
    # catf mode s needs NUL-free text: "trimmy0" marks the NUL-free trimmy alphabet
    ops2 = []
    for o in ops:
        t = o.split()
        if t[0] in ("catf", "catv") and t[2] == "s":
            b = bytes.fromhex(t[3]) if t[3] != "-" else b""
            b = bytes(x if x else 0x20 for x in b) or b" "
            t[3] = b.hex()
            o = " ".join(t)
        ops2.append(o)
    if rng.random() < 0.5:
        ops2.append("exit A")
        if rng.random() < 0.5:
            ops2.append("exit B")
    sched = None
    if rng.random() < 0.06:
        sched = "".join(rng.choice("1110") for _ in range(rng.randrange(1, 12)))
    return Case(cid, ops2, sched, rng.choice(MK))


MK = ["ss", "hh", "ii", "sh", "hi", "is"]


def systematic_cases(maxfill, tag):
    """Every probe operation at every fill level, for both ways of filling (non-terminating: room
    may be 0; terminating: room >= 1): the capacity/terminator reservations of each function are
    crossed at R-1 / R / R+1 exactly."""
    probes = []
    txt = hx(b"abcdefghij")
    anyb = hx(bytes([0x80, 0x00, 0xff, 0x20, 0x41]))
    for o in ("catn", "catn_", "cats", "cats_"):
        for s in ("0", "1", "R-2", "R-1", "R+0", "R+1", "R+2", "R+7", "R+8", "R+9"):
            probes.append(["%s A %s %s" % (o, txt if o.startswith("cats") else anyb, s)])
    for s in ("0", "1", "R-2", "R-1", "R+0", "R+1", "R+2", "R+8"):
        probes.append(["catf A s %s %s" % (txt, s)])
        probes.append(["catf A l %s %s" % (hx(b"ab%cd"), s)])
    for s in ("0", "R-1", "R+0", "R+1"):
        probes.append(["catv A s %s %s" % (txt, s)])
    probes.append(["catf A c %s =" % hx(b"ab\0cd")])
    probes.append(["catv A c %s =" % hx(b"ab\0cd")])
    probes.append(["catf A d %s = -17" % hx(b"-17")])
    probes.append(["catv A d %s = -17" % hx(b"-17")])
    for c in (65, 0, 255, -2, 300):
        probes.append(["catc A %d" % c])
        probes.append(["catc_ A %d" % c])
    for u in (0, 0x41, 0x7f, 0x80, 0x7ff, 0x800, 0xffff, 0x10000, 0x1fffff, 0x200000, 0x3ffffff, 0x4000000,
              0x7fffffff, 0xffffffff):
        probes.append(["utf A %d" % u])
    for slf in (0, 1):
        probes.append(["cat A %d" % slf])
        probes.append(["cat_ A %d" % slf])
    probes += [["getc A"], ["getc_ A"], ["getn A 1 3"], ["getn_ A 1 3"], ["getn A 0 N+0"], ["getn A 1 N+1"],
               ["getn_ A 1 18446744073709551615"],
               ["setn A M+0"], ["setn A M+1"], ["setn A N-1"], ["setn_ A M+0", "getc A"], ["setn A M+0", "catc A 66"],
               ["setn A M+0", "catf A s %s 3" % txt], ["setm A N+1"], ["setm A M+1"], ["setm_ A N+0"], ["setm_ A N+1"],
               ["rtrim A -"], ["ltrim A -"], ["trim A -"], ["rtrim_ A 2061"], ["ltrim_ A 2061"], ["trim_ A 2061"],
               ["trim A 20610962"], ["ltrim A 20610962"], ["rtrim A 20610962"],
               ["cmp A"], ["cmpn A 2061 N+0"], ["cmps A 2061 N+1"], ["swap", "cat B 0"], ["dtor A"], []]
    cases = []
    fill_blob = hx(b" a\tb")
    k = 0
    for f in range(maxfill + 1):
        for fillop in ("catn_", "catn"):
            for p in probes:
                ops = ["cats B %s 3" % txt, "%s A %s %d" % (fillop, fill_blob, f)] + p + ["cmp A", "exit A", "exit B"]
                cases.append(Case("%s%d" % (tag, k), ops, None, MK[k % len(MK)]))
                k += 1
    return cases


# ---------------------------------------------------------------------------------- running
LINE_RE = re.compile(r"^(\d+) (\S+) r=(\S+) A=(\d),(\d+),(\d+),(\d+),(\S+) B=(\d),(\d+),(\d+),(\d+),(\S+) ev=(\S+) acc=(\S+) q=(\S+)$")


def split_cases(out):
    """{case id: [lines]} from a driver's stdout (the last line of a crashed run may be partial)."""
    res, cur, order = {}, None, []
    for ln in out.split("\n"):
        if ln.startswith("case "):
            cur = ln[5:].strip()
            res[cur] = []
            order.append(cur)
        elif cur is not None and ln != "":
            res[cur].append(ln)
    return res, order


def run_c(cbin, cases, max_restarts=100000):
    """Run the C driver; an abort (sanitizer) ends the case it occurred in with a CRASH line and
    the remaining cases are run in a fresh process."""
    res = {}
    todo = list(cases)
    restarts = 0
    while todo:
        txt = "".join(c.text() for c in todo)
        rc, out, err = vlib.sh2([str(cbin)], stdin=txt, timeout=900,
                                env={"ASAN_OPTIONS": "detect_leaks=1:allocator_may_return_null=1",
                                     "UBSAN_OPTIONS": "print_stacktrace=1"})
        got, order = split_cases(out)
        if rc == 0:
            res.update(got)
            break
        # crashed in the last case that was started
        if not order:
            raise vlib.CheckError("C driver failed before the first case: rc=%d %s" % (rc, err[-800:]))
        last = order[-1]
        lines = got[last]
        if lines and not LINE_RE.match(lines[-1]) and not lines[-1].startswith("end "):
            part = lines.pop()
        else:
            part = ""
        lines.append("CRASH rc=%d at[%s] %s" % (rc, part.strip(), crash_summary(err)))
        res.update(got)
        idx = next(i for i, c in enumerate(todo) if c.cid == last)
        todo = todo[idx + 1:]
        restarts += 1
        if restarts > max_restarts:
            for c in todo:
                res[c.cid] = ["SKIPPED too many crashes"]
            break
    return res


def crash_summary(err):
    m = re.search(r"ERROR: AddressSanitizer: (\S+)", err)
    kind = m.group(1) if m else None
    if not kind:
        m = re.search(r"runtime error: ([^\n]*)", err)
        kind = "ubsan:" + m.group(1)[:60].replace(" ", "_") if m else "abort"
    if "LeakSanitizer" in err and not m:
        kind = "leak"
    fr = re.findall(r"#\d+ 0x[0-9a-f]+ in (a_\w+) [^\n]*?/src/(\w+\.c):(\d+)", err)
    where = "%s@%s:%s" % fr[0] if fr else "?"
    acc = re.search(r"\n(READ|WRITE) of size (\d+)", err)
    return "kind=%s where=%s %s" % (kind, where, ("%s%s" % (acc.group(1), acc.group(2))) if acc else "")


def run_m(mbin, cases):
    txt = "".join(c.text() for c in cases)
    rc, out, err = vlib.sh2([str(mbin)], stdin=txt, timeout=900)
    if rc != 0:
        raise vlib.CheckError("model driver failed: rc=%d %s" % (rc, (out[-300:] + err[-500:])))
    return split_cases(out)[0]


# ---------------------------------------------------------------------------------- the oracle
def resolve(tok, st, bloblen=0):
    if tok == "=":
        return bloblen
    if tok[0].isdigit():
        return int(tok)
    p, num, mem, bs, blk = st
    base = {"N": num, "M": mem}.get(tok[0], mem - num if mem >= num else 0)
    k = int(tok[2:])
    return base + k if tok[1] == "+" else max(0, base - k)


def mkdata(blobtok, n):
    b = bytes.fromhex(blobtok) if blobtok != "-" else b""
    if not b:
        return bytes(n)
    return bytes(b[i % len(b)] for i in range(n))


def cstr(b):
    i = b.find(b"\0")
    return b if i < 0 else b[:i]


def utf8x(c):
    x = c & 0x7fffffff
    if x == 0:
        return b""
    if x < 0x80:
        return bytes([x])
    for n, lim, lead in ((2, 0x800, 0xC0), (3, 0x10000, 0xE0), (4, 0x200000, 0xF0), (5, 0x4000000, 0xF8),
                         (6, 0x80000000, 0xFC)):
        if x < lim:
            out = []
            for _ in range(n - 1):
                out.append(0x80 | (x & 0x3F))
                x >>= 6
            out.append(lead | x)
            return bytes(reversed(out))
    raise AssertionError


CSPACE = {9, 10, 11, 12, 13, 32}


def py_trim(op, content, setb):
    ins = (lambda c: c in CSPACE) if not setb else (lambda c: c in setb)
    a, b = 0, len(content)
    base = op.rstrip("_")
    if base in ("rtrim", "trim"):
        while b > a and ins(content[b - 1]):
            b -= 1
    if base in ("ltrim", "trim"):
        while a < b and ins(content[a]):
            a += 1
    return content[a:b]


def parse_state(g, off):
    p, num, mem, bs = int(g[off]), int(g[off + 1]), int(g[off + 2]), int(g[off + 3])
    blk = bytes.fromhex(g[off + 4]) if g[off + 4] != "-" else b""
    return (p, num, mem, bs, blk)


INIT = (0, 0, 0, 0, b"")
TERMINATING = {"catc", "catn", "cats", "cat", "catf", "utf"}


class Fail(Exception):
    def __init__(self, kind, msg, func=None):
        Exception.__init__(self, msg)
        self.kind = kind
        self.func = func          # the API function at fault when it is not the operation's own


def utf_walk(b):
    """(code points, bytes consumed) of a_utf_len on content b, from the documented decoder: a byte below 0x80 is one
    code point (NUL stops), a lead byte with k leading 1-bits below the top bit needs k continuation bytes 10xxxxxx
    inside a window of 6 bytes and inside the content (k = 0: a stray continuation byte counts as one), anything
    else stops the count."""
    pos = cnt = 0
    n = len(b)
    while pos < n:
        c = b[pos]
        if c < 0x80:
            if c == 0:
                break
            r = 1
        else:
            k, m = 0, 0x40
            while m and (c & m):
                k += 1
                m >>= 1
            if k + 1 > min(n - pos, 6) or any((b[pos + j] & 0xC0) != 0x80 for j in range(1, k + 1)):
                break
            r = k + 1
        pos += r
        cnt += 1
    return cnt, pos


Q_FIELDS = [("a_str_ptr", "a_str_ptr(s)"), ("a_str_len", "a_str_len(s)"), ("a_str_mem", "a_str_mem(s)"),
            ("a_str_at_", "a_str_at_(s, %(i1)d)"), ("a_str_at", "a_str_at(s, %(i2)d)"),
            ("a_str_of", "a_str_of(s, %(j)d)"), ("a_utf_len", "a_utf_len(s, &stop)"),
            ("a_utf_len", "stop of a_utf_len(s, &stop)"), ("a_utf_len", "a_utf_len(s, NULL)")]


def check_accessors(k, acc, q, new, branches=None):
    """The read-only API on what the C printed (objects satisfy the invariant here): the driver's own verdict (acc=)
    and the probed values (q=) against the fields / the content of the block, computed independently of the model."""
    if acc != "ok":
        m = re.match(r"BAD:(\w+):([^:]*):([^:]*):([AB])(-?\d+)$", acc)
        if not m:
            raise Fail("accessor", "unparsable acc token " + acc[:80], func="harness")
        if "," in m.group(2):
            raise Fail("construct", "object %s built through %s has ptr_!=NULL,num_,mem_ = %s, expected %s"
                       % (m.group(4), m.group(1), m.group(2), m.group(3)), func=m.group(1))
        raise Fail("accessor", "%s on object %s (num=%d mem=%d) with index %s returned %s, expected %s ('-' NULL, number = "
                   "offset from ptr_, W = outside the block)" % (m.group(1), m.group(4), new[m.group(4)][1], new[m.group(4)][2],
                                                                  m.group(5), m.group(2), m.group(3)), func=m.group(1))
    parts = q.split(";")
    if len(parts) != 3 or any(len(x.split(",")) != 9 for x in parts[:2]):
        raise Fail("accessor", "unparsable q token " + q[:120], func="harness")
    for nm, part in zip("AB", parts):
        p, num, mem, bs, blk = new[nm]
        h = (k * 2654435761 + 12345) % (1 << 32)       # drv.c mix(): the operation number, scrambled
        i1 = h % mem if mem else 0
        i2 = h // 7 % (mem + 2)
        j = h // 3 % (num + mem + 3) - (num + 1)
        n = j if j >= 0 else (j + U64 + num) % U64
        cnt, stop = utf_walk(blk[:num])
        want = ["0" if p else "-", str(num), str(mem), str(i1) if (p and mem) else "x",
                str(i2) if i2 < mem else "-", str(n) if n < mem else "-", str(cnt), str(stop), str(cnt)]
        if branches is not None:
            for lab, hit in (("at-null", i2 >= mem), ("at-inside", i2 < mem), ("of-negative-inside", j < 0 and n < mem),
                             ("of-negative-null", j < 0 and n >= mem), ("of-positive-null", j >= 0 and n >= mem),
                             ("utf-multibyte", cnt < stop), ("utf-stops-early", stop < num)):
                if hit:
                    branches["acc:" + lab] = branches.get("acc:" + lab, 0) + 1
        for (fn, desc), got, w in zip(Q_FIELDS, part.split(","), want):
            if got != w:
                raise Fail("accessor", "object %s (num=%d mem=%d content %s), k=%d: %s gave %s, expected %s ('-' NULL, number "
                           "= offset from ptr_ / count, W = outside the block)"
                           % (nm, num, mem, hx(blk[:num]), k, desc % {"i1": i1, "i2": i2, "j": j}, got, w),
                           func=fn)
    a = new["A"][4][:(k * 2654435761 + 12345) % (1 << 32) // 5 % (new["A"][1] + 1)]
    b = new["B"][4][:new["B"][1]]
    w = str((a > b) - (a < b))
    if branches is not None:
        branches["acc:cmp_-prefix" + w] = branches.get("acc:cmp_-prefix" + w, 0) + 1
    if parts[2] != w:
        raise Fail("accessor", "a_str_cmp_(<%s>, %d, <%s>, %d) has sign %s, bytewise lexicographic order with the length as "
                   "tie-break gives %s" % (hx(a), len(a), hx(b), len(b), parts[2], w), func="a_str_cmp_")


def oracle_case(case, lines, branches=None):
    """The property evaluated on the C driver's output for one case.
    Returns None or (op index, key, message).  `branches` (dict) collects coverage labels."""
    abs_ = {"A": b"", "B": b""}
    st = {"A": INIT, "B": INIT}
    if branches is not None and case.ops:
        for lab, ch in (("heap-object", "h"), ("init-object", "i")):
            if ch in (case.mk or ""):
                branches["acc:" + lab] = branches.get("acc:" + lab, 0) + 1
    for i, opl in enumerate(case.ops):
        t = opl.split()
        op = t[0]
        tg = t[1] if len(t) > 1 and t[1] in ("A", "B") else "A"
        ot = "B" if tg == "A" else "A"
        if i >= len(lines):
            return (i, cfunc(op) + "/no-output", "no output for op %d (%s)" % (i, opl))
        ln = lines[i]
        if ln.startswith("CRASH"):
            m = re.search(r"kind=(\S+)", ln)
            return (i, "%s/sanitizer:%s" % (cfunc(op), m.group(1) if m else "abort"),
                    "sanitizer/abort during op %d `%s`: %s" % (i, opl, ln))
        if ln.startswith("SKIPPED"):
            return None
        m = LINE_RE.match(ln)
        if not m or "BADGEN" in ln or "BADOP" in ln:
            return (i, "harness/bad-line", "unparsable or generator-inconsistent line: " + ln[:200])
        g = m.groups()
        ret, evs = g[2], ([] if g[13] == "-" else g[13].split(","))
        new = {"A": parse_state(g, 3), "B": parse_state(g, 8)}
        pre = st[tg]
        failed = any(e.endswith("-") for e in evs)
        content = abs_[tg]
        exp = dict(abs_)
        want_ret = None
        term = False
        br = "ok"
        try:
            if op == "dtor":
                exp[tg] = b""
                want_ret = "v"
            elif op == "swap":
                exp = {"A": abs_["B"], "B": abs_["A"]}
                want_ret = "v"
            elif op == "exit":
                if pre[0] == 0:
                    want_ret, br = "p0", "null"
                    exp[tg] = b""
                elif failed:
                    want_ret, br = "p0", "allocfail"
                else:
                    br = "grow" if evs else "fits"
                    if not ret.startswith("p") or ret in ("p0", "pwild"):
                        raise Fail("ret", "exit returned %s for a non-empty string object" % ret[:20])
                    blk = bytes.fromhex(ret[1:])
                    n = len(content)
                    if len(blk) <= n or blk[:n] != content or blk[n] != 0:
                        raise Fail("handover", "exit: returned block %s is not content %s followed by NUL inside the block"
                                   % (blk.hex(), content.hex()))
                    want_ret = ret
                    exp[tg] = b""
                    if new[tg][0] != 0 or new[tg][1] != 0 or new[tg][2] != 0:
                        raise Fail("handover", "exit: string object not reset")
            elif op in ("setm", "setm_"):
                mreq = resolve(t[2], pre)
                if mreq > U64 - 8:
                    return None          # out of contract (a_size_up wraps): nothing is claimed from here on
                if op == "setm_" and mreq < pre[1]:
                    return None          # out of contract: capacity below the length
                want_ret = "i4" if failed else "i0"
                br = "allocfail" if failed else ("realloc" if evs else "noop")
                if not failed and new[tg][2] < mreq:
                    raise Fail("capacity", "%s(%d) succeeded but mem=%d" % (op, mreq, new[tg][2]))
            elif op in ("setn", "setn_"):
                n = resolve(t[2], pre)
                if n > pre[2]:
                    if op == "setn_":
                        return None      # out of contract
                    want_ret, br = "i3", "obounds"
                else:
                    want_ret = "i0" if op == "setn" else "v"
                    if n <= len(content):
                        exp[tg], br = content[:n], "shrink"
                    else:
                        exp[tg], br = content + new[tg][4][len(content):n], "grow"   # "some bytes": the storage
                        if len(exp[tg]) != n:
                            raise Fail("content", "setn beyond the block")
            elif op in ("getc", "getc_"):
                if not content:
                    want_ret, br = "i-1", "empty"
                else:
                    c = content[-1]
                    want_ret = "i%d" % (c if c < 128 else c - 256)
                    exp[tg] = content[:-1]
                    term = op == "getc"
            elif op in ("catc", "catc_"):
                c = int(t[2])
                if failed:
                    want_ret, br = "i-1", "allocfail"
                else:
                    want_ret = "i%d" % c
                    exp[tg] = content + bytes([c & 0xFF])
                    term = op == "catc"
                    br = "grow" if evs else "fits"
            elif op in ("getn", "getn_"):
                want, n = t[2] == "1", resolve(t[3], pre)
                r = min(n, len(content))
                d = content[len(content) - r:] if (want and r) else b""
                want_ret = "z%d:%s" % (r, hx(d))
                exp[tg] = content[:len(content) - r]
                term = op == "getn" and r > 0
                br = "zero" if r == 0 else ("clipped" if n > len(content) else "part")
            elif op in ("catn", "catn_", "cats", "cats_"):
                blb = bytes.fromhex(t[2]) if t[2] != "-" else b""
                n = resolve(t[3], pre, len(blb))
                d = mkdata(t[2], n)
                if op.startswith("cats"):
                    d = cstr(d)
                if failed:
                    want_ret, br = "i4", "allocfail"
                else:
                    want_ret = "i0"
                    exp[tg] = content + d
                    term = op in ("catn", "cats")
                    br = ("grow" if evs else "fits") + ("-empty" if not d else "")
            elif op in ("cat", "cat_"):
                src = content if t[2] == "1" else abs_[ot]
                if failed:
                    want_ret, br = "i4", "allocfail"
                else:
                    want_ret = "i0"
                    exp[tg] = content + src
                    term = op == "cat"
                    br = ("self-" if t[2] == "1" else "") + ("grow" if evs else "fits") + ("-empty" if not src else "")
            elif op in ("catf", "catv"):
                blb = bytes.fromhex(t[3]) if t[3] != "-" else b""
                n = resolve(t[4], pre, len(blb))
                d = mkdata(t[3], n)
                if failed:
                    want_ret, br = "i0", "allocfail"
                else:
                    want_ret = "i%d" % len(d)
                    exp[tg] = content + d
                    term = True
                    room = pre[2] - pre[1]
                    br = ("grow" if evs else "fits") + ("-room0" if room == 0 else "") + \
                         ("-exact" if len(d) + 1 == room else "") + ("-empty" if not d else "")
            elif op.rstrip("_") in ("rtrim", "ltrim", "trim"):
                setb = bytes.fromhex(t[2]) if t[2] != "-" else b""
                exp[tg] = py_trim(op, content, setb)
                want_ret = "v"
                term = (not op.endswith("_")) and len(exp[tg]) < len(content)
                br = "none" if len(exp[tg]) == len(content) else ("all" if not exp[tg] else "some")
                br += "-space" if not setb else "-set"
            elif op == "utf":
                if failed:
                    want_ret, br = "i4", "allocfail"
                else:
                    e = utf8x(int(t[2]))
                    want_ret = "i0"
                    exp[tg] = content + e
                    term = True
                    br = "len%d-%s" % (len(e), "grow" if evs else "fits")
            elif op == "cmp":
                a, b = content, abs_[ot]
                want_ret = "i%d" % ((a > b) - (a < b))
                br = "null" if (pre[0] == 0 or st[ot][0] == 0) else want_ret
            elif op in ("cmpn", "cmps"):
                blb = bytes.fromhex(t[2]) if t[2] != "-" else b""
                d = mkdata(t[2], resolve(t[3], pre, len(blb)))
                if op == "cmps":
                    d = cstr(d)
                want_ret = "i%d" % ((content > d) - (content < d))
                br = "null" if pre[0] == 0 else want_ret
            else:
                return (i, "harness/bad-op", "unknown op " + op)
            if want_ret is not None and ret != want_ret:
                raise Fail("ret", "returned %s, expected %s" % (ret[:60], want_ret[:60]))
            for nm in ("A", "B"):
                p, num, mem, bs, blk = new[nm]
                if p == 2:
                    raise Fail("inv", "%s.ptr_ is not a live block" % nm)
                if num > mem:
                    raise Fail("inv", "%s: num=%d exceeds mem=%d" % (nm, num, mem))
                if (p == 0) != (mem == 0) or bs != mem:
                    raise Fail("inv", "%s: ptr/mem/block size inconsistent (ptr=%d mem=%d block=%d)" % (nm, p, mem, bs))
                if blk[:num] != exp[nm]:
                    raise Fail("content", "%s: content %s (len %d), abstract byte string %s (len %d)"
                               % (nm, blk[:num].hex(), num, exp[nm].hex(), len(exp[nm])))
            if term:
                p, num, mem, bs, blk = new[tg]
                if not (num < mem and num < len(blk) and blk[num] == 0):
                    raise Fail("terminator", "no NUL directly after the content inside the capacity (num=%d mem=%d)"
                               % (num, mem))
            check_accessors(i, g[14], g[15], new, branches)
        except Fail as f:
            return (i, "%s/%s" % (f.func or cfunc(op), f.kind), "%s `%s`: %s" % ("after op %d" % i if f.func else "op %d" % i,
                                                                                  opl[:120], f))
        if branches is not None:
            k = op + ":" + br
            branches[k] = branches.get(k, 0) + 1
        abs_ = exp
        st = new
    # end line
    if len(lines) > len(case.ops):
        e = lines[len(case.ops)]
        if e.startswith("CRASH"):
            m = re.search(r"kind=(\S+)", e)
            return (len(case.ops), "a_str_dtor/sanitizer:%s" % (m.group(1) if m else "abort"), "abort at end of case: " + e)
        if e.startswith("end") and e != "end live=0":
            fn = "a_str_die" if "h" in (case.mk or "") else "a_str_dtor"
            return (len(case.ops), fn + "/leak", "blocks still live after both objects were destroyed (mk %s): %s" % (case.mk or "ss", e))
    return None


EXPECTED_BRANCHES = """catf:fits catf:grow catf:grow-room0 catf:fits-exact catf:fits-empty catf:grow-room0-empty
catn:fits catn:grow catn:fits-empty catn:grow-empty catn_:fits catn_:grow catn_:fits-empty cats:fits cats:grow
cat:fits cat:grow cat:self-fits cat:self-grow cat_:self-grow cat_:grow cat:fits-empty cat:grow-empty
catc:fits catc:grow catc_:fits catc_:grow exit:null exit:fits exit:grow getc:empty getc:ok getc_:ok
getn:zero getn:clipped getn:part getn_:part setn:shrink setn:grow setn:obounds setm:noop setm:realloc setm_:realloc
rtrim:none-space rtrim:some-space rtrim:all-space rtrim:some-set ltrim:some-set ltrim:all-set trim:some-set trim:all-space
utf:len0-fits utf:len1-fits utf:len2-fits utf:len3-fits utf:len4-fits utf:len5-fits utf:len6-fits utf:len6-grow
cmp:null cmp:i0 cmp:i1 cmp:i-1 cmpn:i0 cmpn:i1 cmpn:i-1 cmps:i0 cmps:i1 cmps:i-1
catv:fits catv:grow catv:grow-room0 catv:fits-exact catv:fits-empty
acc:at-null acc:at-inside acc:of-negative-inside acc:of-negative-null acc:of-positive-null acc:utf-multibyte acc:utf-stops-early
acc:cmp_-prefix-1 acc:cmp_-prefix0 acc:cmp_-prefix1 acc:heap-object acc:init-object""".split()


# ---------------------------------------------------------------------------------- driver of a batch
def process(cbin, mbin, cases, collect=True):
    """Run a batch in both drivers, compare, evaluate the oracle.  Returns a dict."""
    cout = run_c(cbin, cases)
    mout = run_m(mbin, cases)
    res = {"ops": 0, "mismatch": [], "fail": [], "branches": {}, "nontrivial": set(), "samples": []}
    for c in cases:
        cl, ml = cout.get(c.cid, []), mout.get(c.cid, [])
        res["ops"] += len(c.ops)
        d = vlib.first_diff(cl, ml)
        if d is not None:
            res["mismatch"].append((c, d, cl[d] if d < len(cl) else "<missing>", ml[d] if d < len(ml) else "<missing>"))
        f = oracle_case(c, cl, res["branches"])
        if f:
            res["fail"].append((c, f))
        if collect:
            prev = ""
            for o, l in zip(c.ops, cl):
                m = LINE_RE.match(l)
                if m:
                    body = l.split(" ", 1)[1]
                    st = body.split(" r=", 1)[1].split(" ", 1)[1]
                    if st != prev or m.group(14) != "-" or m.group(3) not in ("v", "i0"):
                        res["nontrivial"].add(hash((o, prev)))
                    prev = st
    if cases and collect:
        c = cases[len(cases) // 2]
        cl = cout.get(c.cid, [])
        if cl and c.ops:
            j = min(len(c.ops), len(cl)) - 1
            res["samples"].append({"case": c.cid, "op": c.ops[j], "c_and_model_line": cl[j][:300]})
    return res


def shrink(cbin, case, key):
    def fails(ops):
        c = Case("s", ops, case.sched, case.mk)
        out = run_c(cbin, [c], max_restarts=2)
        f = oracle_case(c, out.get("s", []))
        return bool(f) and f[1] == key
    if not fails(case.ops):
        return case
    ops = vlib.ddmin(case.ops, fails, max_tests=250)
    return Case(case.cid + "-min", ops, case.sched, case.mk)


def build(ctx):
    cbin = ctx.cc("cdrv", [H / "drv.c"], repo_srcs=["str.c", "utf.c", "a.c"], mode="asan")
    ml = ctx.extract("C06/Extract.v", ["C06/extracted/strmodel.ml", "C06/extracted/strmodel.mli"])
    mbin = ctx.ocaml_build("mdrv", ml[::-1] + [H / "mdrv.ml"])
    return cbin, mbin


def gen_all(ctx):
    cases = []
    for f in sorted(CORPUS.glob("*.case")):
        cases += parse_case_file(f.read_text(), prefix=f.stem + ":")
    n_corpus = len(cases)
    cases += systematic_cases(18 if ctx.quick else 41, "sys")
    n_sys = len(cases) - n_corpus
    seeds = ["r0"] if ctx.quick else ["r0", "r1", "r2", "r3", "r4"]
    per_seed = 6000 if ctx.quick else 40000
    for s in seeds:
        rng = random.Random(ctx.subseed("C06/" + s))
        for i in range(per_seed):
            cases.append(rand_case(rng, "%s_%d" % (s, i)))
    return cases, n_corpus, n_sys


def report_failure(ctx, cbin, mbin, case, f, shrunk=True):
    i, key, msg = f
    small = shrink(cbin, case, key) if shrunk else case
    cout = run_c(cbin, [small], max_restarts=2).get(small.cid, [])
    mout = run_m(mbin, [small]).get(small.cid, [])
    f2 = oracle_case(small, cout) or f
    ctx.report(key=key, what="%s -- %s" % (key, f2[2][:600]),
               replay={"case_file": small.text(), "failing_op_index": f2[0], "expected": f2[2],
                       "c_output": cout, "model_output": mout, "original_case": case.cid,
                       "how": "VERIF_REPO=<tree> python3 tools/vcheck.py C06 --replay <this file>"},
               found_input=True)


def coqchk(ctx):
    """thorough: re-check the compiled property module with the independent checker"""
    rc, out = vlib.sh(["coqchk", "-silent", "-o", "-Q", ".", "LibaV", "LibaV.Properties_C06"], cwd=vlib.COQ, timeout=900)
    ax = re.search(r"\* Axioms:\s*(.*?)\n\s*\n", out, flags=re.S)
    ok = rc == 0 and ax is not None and ax.group(1).strip() == "<none>"
    ctx.cov["coqchk"] = {"rc": rc, "axioms": ax.group(1).strip() if ax else "?"}
    if not ok:
        ctx.tie_broken("coqchk on LibaV.Properties_C06 failed or reports axioms: rc=%d %s" % (rc, out[-400:]))
    else:
        ctx.cov["trusted_base"].append("coqchk -o LibaV.Properties_C06: accepted, axioms <none>")


# ---------------------------------------------------------------------------------- comparison with very long operands
def big_compare(ctx):
    """a_str_cmpn / a_str_cmp_ against 2^31 .. 2^33 zero bytes (sparse mapping) vs the model's closed form cmpn_zeros
    (coq/C06/StrBig.v, proved equal to cmpn for every length) evaluated by vm_compute; the oracle is the property itself:
    bytewise lexicographic order with the length as tie-break."""
    bbin = ctx.cc("bigcmp", [H / "bigcmp.c"], repo_srcs=["str.c", "a.c", "utf.c"], mode="asan")
    ok, outs, failed = ctx.coq_build(["C06/StrBig.v"])
    if not ok:
        ctx.tie_broken("coq/C06/StrBig.v does not compile: %s" % failed)
        return
    r = random.Random(ctx.subseed("c06-big"))
    lens = [0, 1, 2, 3, 7, 8, 2 ** 31 - 1, 2 ** 31, 2 ** 31 + 1, 3 * 2 ** 30, 2 ** 32 - 1, 2 ** 32, 2 ** 32 + 1, 2 ** 32 + 2 ** 31,
            2 ** 33 - 1, 2 ** 33]
    contents = ["-", "00", "0000", "000000", "00000000000000", "01", "0001", "000080", "00ff", "7f"]
    cases = [(c, n) for c in contents for n in lens]
    for _ in range(20 if ctx.quick else 400):
        k = r.randrange(0, 12)
        c = "".join(r.choice(["00", "00", "00", "01", "80", "ff"]) for _ in range(k)) or "-"
        cases.append((c, r.choice([r.randrange(0, 16), r.randrange(2 ** 31 - 4, 2 ** 31 + 4), r.randrange(2 ** 32 - 4, 2 ** 32 + 4),
                                   r.randrange(0, 2 ** 33)])))
    rc, out, err = vlib.sh2([str(bbin)], stdin="".join("%s %x\n" % cn for cn in cases), timeout=300,
                            env={"ASAN_OPTIONS": "detect_leaks=1"})
    c_lines = out.splitlines()
    if rc != 0 or len(c_lines) != len(cases) or any(l.startswith("HARNESS") for l in c_lines):
        ctx.tie_broken("big-operand comparison driver failed: rc=%d %s %s" % (rc, out[-200:], err[-300:]))
        return

    def coq_str(c):
        if c == "-":
            return "(mkStr None 0 0)"
        bs = [int(c[i:i + 2], 16) for i in range(0, len(c), 2)]
        return "(mkStr (Some [%s]) %d %d)" % ("; ".join(str(b) for b in bs), len(bs), len(bs))

    def sgn(z):
        return {"Some 0%Z": 0, "Some 1%Z": 1, "Some (-1)%Z": -1}.get(z)

    text = ("From Coq Require Import NArith ZArith List.\nFrom LibaV Require Import C06.StrDefs C06.StrBig.\nImport ListNotations.\n"
            "Local Open Scope N_scope.\n" +
            "".join("Eval vm_compute in (cmpn_zeros %s %d).\n" % (coq_str(c), n) for c, n in cases))
    rc, out = ctx.coq_eval("bigcmp_cases", text, timeout=600)
    m_vals = [" ".join(x.split()) for x in re.findall(r"=\s*(Some[^:]*?)\s*:\s*option Z", out)]
    if rc != 0 or len(m_vals) != len(cases):
        ctx.tie_broken("big-operand comparison: model evaluation failed (%d of %d values): %s" % (len(m_vals), len(cases), out[-300:]))
        return
    nbad = 0
    for (c, n), cl, mv in zip(cases, c_lines, m_vals):
        m = re.match(r"cmpn=(-?\d) cmp_=(-?\d) rcmp_=(-?\d)$", cl)
        got = tuple(int(x) for x in m.groups()) if m else None
        ms = sgn(mv)
        want = (ms, ms, -ms if ms is not None else None)
        # the property itself: lexicographic order of content vs n zero bytes, length as tie-break
        b = bytes.fromhex(c) if c != "-" else b""
        k = min(len(b), n)
        spec = (b[:k] > bytes(k)) - (b[:k] < bytes(k)) or ((len(b) > n) - (len(b) < n))
        if got != want:
            nbad += 1
            if nbad == 1:
                ctx.tie_broken("big-operand comparison: content %s vs %d zero bytes: C %s, model %s" % (c, n, got, want))
        if got is not None and got != (spec, spec, -spec):
            ctx.report("a_str_cmp_/long-operand",
                       "a_str_cmpn(<%s>, <%d zero bytes>, %d) has sign %s (a_str_cmp_ %s, reversed %s); bytewise lexicographic order with "
                       "the length as tie-break gives %d" % (c, n, n, got[0], got[1], got[2], spec),
                       {"content_hex": c, "operand": "%d zero bytes (sparse mapping)" % n, "observed": list(got), "expected": spec,
                        "how": "echo '%s %x' | build/C06/bigcmp" % (c, n)})
            break
    ctx.cov["big_operand_comparisons"] = {"cases": len(cases), "lengths_from_2^31": sum(1 for _, n in cases if n >= 2 ** 31),
                                          "disagreements": nbad}
    ctx.count(evaluations=3 * len(cases))



def int_utf_tie(ctx):
    """a_utf_len (str.c) with its callees a_utf_decode / a_utf_length (utf.c) regenerated by tools/c2int.py; the callees' ties are
    C18's files re-proved against this module, harness/C06/TieIntUtf.v ties a_utf_len to StrAccDefs.utf_len for every block"""
    h18 = vlib.VERIF / "harness" / "C18"
    return ctx.int_translate_and_tie(
        [("src/utf.c", ["a_utf_decode", "a_utf_length"]), ("src/str.c", ["a_utf_len"])], "UtfGen",
        [h18 / "TieIntDec.v", h18 / "TieIntLen.v", vlib.VERIF / "harness" / "C06" / "TieIntUtf.v"],
        fuel={"a_utf_decode": ["8%nat", "8%nat"], "a_utf_length": ["S (N.to_nat num)"]})


def run(ctx):
    if not ctx.quick:
        # rebuild this property's files from clean
        for f in list((vlib.COQ / "C06").glob("*.vo")) + [vlib.COQ / "Properties_C06.vo"]:
            if f.exists():
                f.unlink()
    if ctx.prove() and not ctx.quick:
        coqchk(ctx)
    cbin, mbin = build(ctx)
    big_compare(ctx)
    cases, n_corpus, n_sys = gen_all(ctx)
    ctx.log("cases: %d (corpus %d, systematic %d), ops: %d" % (len(cases), n_corpus, n_sys,
                                                                sum(len(c.ops) for c in cases)))
    chunk = 400
    chunks = [cases[i:i + chunk] for i in range(0, len(cases), chunk)]
    tot = {"ops": 0, "mismatch": [], "fail": [], "branches": {}, "nontrivial": set(), "samples": []}
    workers = max(2, min(8, vlib.NPROC // 2))
    with ThreadPoolExecutor(max_workers=workers) as ex, ThreadPoolExecutor(max_workers=1) as tie_ex:
        # second tie, in parallel with the correspondence: the functions of str.c regenerated by tools/c2str.py and proved
        # equal to the model (harness/C06/TieStr*.v)
        tie_job = tie_ex.submit(vstr.str_translate_and_tie, ctx)
        tie_job_utf = tie_ex.submit(int_utf_tie, ctx)      # a_utf_len: integer translator tools/c2int.py (after the string tie, same worker)
        for r in ex.map(lambda ch: process(cbin, mbin, ch), chunks):
            tot["ops"] += r["ops"]
            tot["mismatch"] += r["mismatch"]
            tot["fail"] += r["fail"]
            tot["nontrivial"] |= r["nontrivial"]
            tot["samples"] += r["samples"]
            for k, v in r["branches"].items():
                tot["branches"][k] = tot["branches"].get(k, 0) + v
    tie_job.result()
    tie_job_utf.result()
    ctx.count(evaluations=tot["ops"], nontrivial=len(tot["nontrivial"]))
    ctx.cov["rule"] = ("evaluations = operations executed by both the C implementation and the extracted model and compared "
                       "line by line (return value, both objects' num/mem/whole heap block, allocator events); "
                       "distinct_nontrivial = distinct (operation text, state of both objects before it) pairs whose execution "
                       "changed a block/num/mem, produced an allocator event, or returned something other than 0/void")
    ctx.cov["cases"] = {"total": len(cases), "corpus": n_corpus, "systematic_boundary": n_sys,
                        "random": len(cases) - n_corpus - n_sys}
    opmix = {}
    for k, v in tot["branches"].items():
        if k.startswith("acc:"):
            continue
        opmix[k.split(":")[0]] = opmix.get(k.split(":")[0], 0) + v
    ctx.cov["accessor_probe_hits"] = {k[4:]: v for k, v in sorted(tot["branches"].items()) if k.startswith("acc:")}
    ctx.cov["op_mix"] = dict(sorted(opmix.items()))
    ctx.cov["branch_hits"] = dict(sorted(tot["branches"].items()))
    ctx.cov["branches_not_reached"] = [b for b in EXPECTED_BRANCHES if b not in tot["branches"]]
    for s in tot["samples"][:6]:
        ctx.sample(s)
    ctx.cov["trusted_base"] += [
        "vsnprintf contract = StrDefs.vsn (writes min(len, room-1) bytes and a NUL when room > 0, returns len); the text is an input of the op",
        "malloc/realloc/free modelled by StrDefs.a_alloc (fault schedule, fresh bytes canonicalised to 0xA5 by the harness allocator)",
        "char is signed; isspace = C locale; memcpy/memmove/memchr/memcmp/strlen = list operations",
        "extraction (ExtrOcamlBasic) and the OCaml/C drivers harness/C06/{mdrv.ml,drv.c}",
        "read-only API (a_str_ptr/len/mem/at_/at/of, a_utf_len, a_str_cmp_): model coq/C06/StrAccDefs.v (a_utf_len = coq/C18/UtfDefs.v "
        "a_utf_length on the content) evaluated after every operation by both drivers (token q=); the C driver also compares the "
        "index accessors with the fields over whole index ranges (token acc=); objects are built by a_str_ctor, a_str_new and "
        "A_STR_INIT in turn (mk), a_str_catv is also called directly with a va_list (op catv)",
        "ASan/UBSan as observers of out-of-block accesses in the C run"]
    # a disagreement that is exactly a failure listed as open in KNOWN_FINDINGS.txt (same key, the
    # first differing line is the failing operation) is reported as KNOWN-FINDING and does not
    # count as a broken tie
    known_open = {k for (p, k), v in ctx.known.items() if p == PID and v.get("state") == "open"}
    if known_open:
        failing = {c.cid: f for c, f in tot["fail"]}
        explained = [x for x in tot["mismatch"]
                     if x[0].cid in failing and failing[x[0].cid][1] in known_open and failing[x[0].cid][0] == x[1]]
        tot["mismatch"] = [x for x in tot["mismatch"] if x not in explained]
        ctx.cov["mismatches_explained_by_known_findings"] = len(explained)
    if tot["mismatch"]:
        c, d, cl, ml = tot["mismatch"][0]
        ctx.tie_broken("correspondence a_str model vs C: %d case(s) differ; first: case %s line %d: C `%s` / model `%s`"
                       % (len(tot["mismatch"]), c.cid, d, cl[:240], ml[:240]))
    # the oracle ran on every case; report each distinct failure key once, smallest case first
    seen = {}
    for c, f in sorted(tot["fail"], key=lambda cf: len(cf[0].ops)):
        seen.setdefault(f[1], (c, f))
    for n, (key, (c, f)) in enumerate(sorted(seen.items())):
        if n >= 6:
            break
        report_failure(ctx, cbin, mbin, c, f)
    if tot["mismatch"] and not seen:
        # tie broken, the property still held on everything explored: look harder around the
        # disagreeing cases (fresh random histories) before giving up
        rng = random.Random(ctx.subseed("C06/extra"))
        extra = [rand_case(rng, "x_%d" % i) for i in range(1500)]
        r = process(cbin, mbin, extra, collect=False)
        ctx.count(evaluations=r["ops"])
        for c, f in sorted(r["fail"], key=lambda cf: len(cf[0].ops))[:1]:
            report_failure(ctx, cbin, mbin, c, f)


def replay(ctx, path):
    obj = json.loads(Path(path).read_text())
    cbin, mbin = build(ctx)
    cases = parse_case_file(obj["replay"]["case_file"])
    rc = 0
    for c in cases:
        cout = run_c(cbin, [c], max_restarts=2).get(c.cid, [])
        mout = run_m(mbin, [c]).get(c.cid, [])
        print("\n".join("C: " + l[:300] for l in cout))
        print("\n".join("M: " + l[:300] for l in mout))
        f = oracle_case(c, cout)
        print("oracle:", f)
        if f:
            rc = 1
            print("VIOLATION property=%s replay=%s" % (PID, path))
    return rc


META = {
    "text": "Rocq theorems for ALL finite operation histories from A_STR_INIT on two string objects, under EVERY allocator fault "
            "schedule: num<=mem and |block|=mem, no out-of-block access; every step either reports allocation failure with both "
            "byte strings unchanged or has exactly the return value and effect of the abstract byte-string operation (all "
            "appends incl. self-append, formatted text and code points, pop, trims, length change, hand-over, comparison); "
            "terminating variants leave a NUL directly after the content inside the capacity; formatted append returns |out| and "
            "appends exactly the formatter's output on both the one-pass and the measure-grow-format-again path; comparisons "
            "give the sign of bytewise lexicographic order with length tie-break; trims remove the maximal prefix/suffix. "
            "Tie: extracted model vs the C (ASan+UBSan, replacement a_alloc with fault schedule that always moves on realloc): "
            "return value, both objects' ptr/num/mem/block bytes and allocator events after every operation. "
            "Second tie (translator tools/c2str.py, re-run on the current sources every time): a_str_setn_, setn, dtor, swap, setm_, "
            "setm, exit, cmp_, cmp, cmpn, cmps, getc_, getc, catc_, catc, getn_, getn, catn_, catn, cats_, cats, cat_, cat (23, "
            "harness/C06/TieStr.v) and rtrim_, rtrim, ltrim_, ltrim, trim_, trim, a_utf_catc, a_str_catv (8, TieStrLoops.v; loops as "
            "Fixpoints on fuel, for every fuel above the length) are regenerated from clang's AST (a_size arithmetic with explicit "
            "wrap, checked block accesses, a_alloc with schedule and events, dangling-pointer guard) and each is PROVED equal to the "
            "model for all strings, arguments and schedules. The invariant is not assumed except, stated exactly: num < 2^64 for "
            "the trims and num <= |block| for ltrim/trim (both consequences of the proved invariant), |out| < INT_MAX for catv (the "
            "precondition of the formatted append in every theorem). isspace, memchr, vsnprintf and a_utf_encode enter by their "
            "contracts. a_utf_len (a pure integer/byte walk: a_utf_length on ctx->ptr_, ctx->num_) is regenerated with its callees "
            "a_utf_decode and a_utf_length by the integer translator tools/c2int.py and PROVED equal to StrAccDefs.utf_len for every "
            "block of bytes, every num_ <= |block| and both stop forms (harness/C06/TieIntUtf.v, on top of the C18 decoder/length "
            "ties re-proved against the same regenerated module). Correspondence-only: a_str_catf (variadic wrapper), the accessors "
            "a_str_ptr/len/mem/at/at_/of, a_str_new/die/ctor.",
    "note": "Trusted: Coq kernel; extraction (ExtrOcamlBasic only) + drivers; translator tools/c2str.py as a reader of the C (its "
            "output is proved equal to the model on every run, so it is not trusted to agree with the model); hand-written model "
            "coq/C06/StrDefs.v tied by the translator theorems for the functions listed and by "
            "differential testing on the generated histories (sizes relative to the running state hit every reservation "
            "boundary); vsnprintf is modelled by its contract (StrDefs.vsn), memcpy/memmove/memchr/memcmp/strlen as list "
            "operations, isspace as the C-locale set, char signed; preconditions op_ok (sizes below 2^64 - 8 etc.) are stated "
            "in the theorems. No axioms.",
    "technique": "Rocq proof (invariant + refinement to abstract byte strings by induction over histories and fault schedules) + C-to-Gallina translator with per-function tie theorems + extracted-model vs C correspondence under ASan",
}
