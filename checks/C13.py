"""C13: membership functions, fuzzy operators and the gain scheduling of the fuzzy-tuned PID controller.

Proof over R (coq/Properties_C13.v; models coq/C13/MfDefs.v, FuzzyDefs.v on top of coq/C12/PidDefs.v).
Tie: the same Gallina terms instantiated with Coq's primitive binary64 floats are evaluated by vm_compute and compared
BIT FOR BIT with the C built from the current tree ($VERIF_REPO/src/mf.c, fuzzy.c, pid_fuzzy.c, pid.c; -O2
-ffp-contract=off, AddressSanitizer); libm's exp/pow are replaced on both sides by the same fixed substitute functions
(-Wl,--wrap), so the code around the libm calls is still compared bit for bit.  The scratch buffer is compared cell by
cell after every controller step, in the documented single-block layout and as two exact-size heap blocks.
Search oracle: the property itself evaluated on a second build of the same harness WITH the real libm - every value in
[0,1], exactly 1 on the core, equal to the documented piecewise definition (exact rational arithmetic for the
piecewise-polynomial families, math.exp/pow for the others), complement pairs, dispatcher = specific function,
operator definitions/bounds, gains = base + weighted mean of the consequents of the active rules (independent Python
inference), output within limits, finite state, no sanitizer report when at most nfuzz sets are active."""
import json
import math
from fractions import Fraction

import fcorr
import vlib

META = {
    "category": "proof",
    "text": "ON THE PRIMITIVE-FLOAT RUN (C13/MfFloat.v, Common/F64Refine.v, 3 theorems): for ALL finite binary64 arguments and parameters "
            "of magnitude up to 2^1022, no ordering assumed, the float values of a_mf_tri / a_mf_trap / a_mf_lins / a_mf_linz (the instance compared "
            "bit for bit with the C) are finite, equal the rounded-real values and lie in [0,1]; beyond 2^1023 the claim is FALSE "
            "(C13_f64_span_overflow_refuted: NaN for finite well-ordered parameters whose span overflows) - seven open findings, one "
            "key per family, replayed on the C as strict probes on every run.  "
            "35 Rocq theorems over the reals (coq/Properties_C13.v), for ALL inputs and ALL parameter tuples: each of the 13 "
            "membership functions of src/mf.c lies in [0,1] (no ordering needed except dsig: equal slopes, centres ordered "
            "with the sign of the slope; refuted without), is exactly 1 on its core and 0 outside its support, is continuous "
            "at every x (stdlib continuity; non-zero widths), monotone on each flank (gauss, gauss2, gbell, sig, trap, tri, "
            "lins, linz, s, z, pi; dsig under its precondition with the peak at the midpoint of the centres; psig for slopes "
            "of equal sign), lins+linz=1 for all a,b and s+z=1 for a<b, pi and gauss2 "
            "are their glued pieces, every executed division has a non-zero denominator and every pow stays in its real "
            "domain (unconditionally for the piecewise families, a=b shoulders included); a_mf returns the specific "
            "function for all 13 tags, 0 otherwise, and reads exactly that function's parameters; the as-found lins/linz "
            "(0/0 at x=a=b) and tri (0 at the peak when b=c) are refuted and the repairs shown conservative.  Operators on "
            "[0,1]^2: the three intersections and three unions are closed, commutative, monotone in each argument, "
            "cap<=min, cup>=max, with the boundary cases at 0 and 1, De Morgan duals; a_fuzzy_equ (and a_fuzzy_equ_ for "
            "gamma in [0,1]) lies between algebraic product and sum; a_pid_fuzzy_opr dispatch; closed/commutative/monotone "
            "for every enumerator value.  Gain scheduling (a_pid_fuzzy_mf, a_pid_fuzzy_out_, run/pos/inc/zero over explicit "
            "bounds-checked scratch arrays of the A_PID_FUZZY_BFUZZ layout, on top of the C12 controller model): with at most "
            "nfuzz active sets per input the call succeeds (no access outside idx[2n], val[n(n+2)] or the nrule x nrule rule "
            "bases), and each gain is base + sum(w_ij*m_ij)*(1/sum w_ij) with w_ij>=0 and a positive, hence non-zero, "
            "divisor - so between base+min and base+max active consequent - or exactly the base gain when no rule fires or "
            "the rule base is NULL; the divisor is positive for six operators whenever both inputs have active sets and "
            "for the bounded product iff some pair of active memberships sums above 1; after every run/pos/inc step of "
            "every history the output is within outmin..outmax; a concrete 2x2 controller satisfies all hypotheses (gains "
            "computed in closed form; zero-sum case keeps the base gains; C13/Examples.v also shows by vm_compute on binary64 "
            "that the as-found a_pid_fuzzy_out_ stored NaN there and that an undersized block gives Fail ErrScratch).  NOT proved: monotone flanks of psig with slopes of "
            "opposite sign; those 35 are over the reals.  Rounded arithmetic (12 further theorems, C13/MfRound.v, MfMid64.v: the same terms at "
            "Rnd_ops rnd / with exp and pow as oracles constrained by orc_ok, rnd monotone with rnd 0=0, rnd 1=1, rnd 2=2, odd - "
            "binary64 round-to-nearest-even by Flocq - overflow outside the model): tri/trap/lins/linz lie in [0,1], are exactly 1 "
            "on the core and 0 outside the support provided the divided difference does not flush to zero (holds for binary64 "
            "parameters); s/z/pi are modelled as REPAIRED by proposed_fixes/C13-4 (x<=a and x>=b tested before the computed midpoint "
            "rnd(rnd(a+b)/2)): exactly 1 on the core and 0 outside the support with no side condition, in [0,1] whenever the "
            "executed quadratic branch squares a ratio with 2q^2<=1 (sz_in; needed: a coarse monotone rounding gives "
            "a_mf_s(1;0,2)=2), which holds for ALL binary64 numbers x,a,b (Flocq proof: the ratio of the rounded differences is "
            "at most 11/16, 2/3 attained at three consecutive doubles around a power of two) - so s, z, pi lie in [0,1] in binary64 "
            "with correctly rounded pow unconditionally; the bodies AS FOUND (midpoint tested first; the same real functions "
            "for a<=b) are refuted in binary64: a=1+2^-52, b=1+2^-51: a_mf_s(b,a,b)=2; a=1+2^-51, b=1+3*2^-52: a_mf_z(a,a,b)=2 "
            "(confirmed on the unrepaired C; both inputs and their neighbours are in corpus/C13 and reach the oracle and the "
            "bit-exact tie on every run); "
            "gauss/gauss2/gbell/sig/psig/dsig lie in [0,1] for any oracles with 0<=exp, exp<=1 on t<=0, exp monotone, pow>=0 "
            "(correctly rounded ones qualify; libm is assumed to); not/cap/cap_algebra/cap_bounded/cup/cup_bounded/equ map "
            "[0,1]^2 into [0,1], cup_algebra is >=0 (its bound <=1 is not proved).  Tie: the SAME Gallina terms instantiated "
            "with primitive binary64 floats are evaluated by vm_compute and compared bit for bit with the C built from the "
            "current tree (-O2 -ffp-contract=off, ASan; exp/pow replaced by identical substitutes on both sides): all 13 "
            "functions and the dispatcher on breakpoints and their neighbouring doubles, the operators, table walks, and "
            "controller histories with the whole scratch block compared cell by cell after every step, including "
            "deliberately undersized blocks where model (Fail ErrScratch) and ASan must agree.  Search oracle: the property "
            "evaluated on a real-libm build by an independent Python reference (exact rationals for the piecewise families; "
            "for s/z/pi with parameters a few ulps apart, where x lies between the computed and the exact midpoint, the value of "
            "either quadratic piece is accepted by the closeness test - the [0,1] test is unconditional).  Glue around the modelled core "
            "(differential tests, not theorems): the 10 C++ member functions of a_pid_fuzzy (list read from the header on every run) "
            "against the C functions they forward to, all state compared bit for bit; and one driver generic in a_real built as float, "
            "double and long double with ASan+UBSan: trap/tri/lins/linz/s/z/pi, the dispatcher, the min/max/algebraic/bounded operators "
            "and fuzzy-controller histories on dyadic data whose every intermediate fits binary32 must print exactly the documented "
            "values in all three builds, with every table and the scratch block of exactly A_PID_FUZZY_BFUZZ(n) bytes in one pool with "
            "guard bytes; the exp/pow/sqrt families are compared with a binary64 reference within 1e-5 relative + 1e-6 absolute. "
            "LOOP TIE (harness/C13/TieLoop1.v, TieLoop2.v, 5 theorems re-proved on every run): src/pid_fuzzy.c is regenerated from the "
            "current source with its loops as Fixpoints (tools/c2arr.py: scratch blocks and tables as lists with checked access, the "
            "switch on (int)tag as the chain of tests k <= v < k+1, the goto exits as in the source, the rule bases with a null flag, "
            "the operator member as a function, ++i and idx[i] *= nrule checked to fit 32 bits) and proved equal to the hand model "
            "C13/FuzzyDefs.v for every NumOps instance: the table walker a_pid_fuzzy_mf = mf_walk for every number of sets, table, "
            "scratch block and start cell; a_pid_fuzzy_out_ = fuzzy_out_ (both walks, joint membership and its sum, the guard on a "
            "non-positive sum, the three weighted means with present or NULL rule bases, gains = base + mean, and the same error "
            "cases) for EVERY rule-base order with nrule^2 < 2^32; a_pid_fuzzy_opr/set_opr = fuzzy_opr; a_pid_fuzzy_zero = fuzzy_zero. "
            "The calls of a_mf_* and a_fuzzy_* inside it are rendered as the model functions that harness/C13/TieMf.v ties to "
            "mf.c/fuzzy.c on the same run. Not regenerated: a_pid_fuzzy_set_bfuzz (byte arithmetic on a void pointer) and run/pos/inc "
            "(they add the a_pid_run_/pos_/inc_ of src/pid.c, tied for C12).",
    "note": "Trusted: Coq kernel/vm_compute with primitive floats; the standard real-number axioms listed by Print "
            "Assumptions (classical reals, functional extensionality); the 'same term, different NumOps instance' argument; "
            "the hand transcription coq/C13/MfDefs.v + FuzzyDefs.v (on coq/C12/PidDefs.v), validated bit for bit on the "
            "generated cases only (mf.c/fuzzy.c/fuzzy.h and now pid_fuzzy.c's walker, a_pid_fuzzy_out_, operator selection and zero "
            "additionally by the regenerated-model tie theorems; the translators tools/c2coq.py and tools/c2arr.py are trusted to "
            "read the C right - their output is proved equal to the model, not to the C; c2arr renders (int)v in the switch as "
            "k <= v < k+1 for the labels and sends everything else, NaN and out-of-range values included, to the default arm).  The rounded-"
            "arithmetic theorems assume pow/exp correctly rounded or constrained by orc_ok, no overflow, and x, a, b binary64 "
            "numbers for the unconditional s/z/pi range.  Modelled, not verified: in the R instance pow is the real power function Rpow of "
            "coq/C13/R13Ops.v (Rpower for a positive base, 0^y, integer powers of negative bases) and exp is Coq's exp - "
            "libm accuracy is not checked, the bit-exact run replaces exp/pow by substitutes; unsigned indices are nat (no "
            "2^32 wrap); the (int) truncation of table tags is modelled for finite values; NULL rule bases are None; the "
            "scratch block is two arrays idx[2n]/val[n(n+2)] (byte layout stated by bfuzz_bytes/val_offset and compared with "
            "the C's pointer arithmetic in the run); the active sets ae/aec of the gain theorems are characterised by the "
            "executable walk_spec (sets whose membership exceeds A_REAL_EPSILON), and 'at most nfuzz active sets' and "
            "'table long enough for its tags' are hypotheses.  The glue runs (tools/vglue.py, harness/glue/) are differential tests on "
            "generated inputs, not theorems; the float and long double builds are not modelled in Rocq, and what uses exp/pow/sqrt is "
            "only compared with a binary64 reference within a float-sized tolerance there.",
    "technique": "Rocq proof over R (case analysis + lra/nra/field, stdlib continuity and Rpower, forward simulation of the "
                 "loops over explicit scratch lists by induction) + mf.c/fuzzy.c/fuzzy.h (13 membership functions, the dispatcher per tag, "
                 "9 operators) regenerated by a translator and proved equal to the model on every run, pid_fuzzy.c (table walker, "
                 "a_pid_fuzzy_out_, operator selection) regenerated with its loops as Fixpoints and proved equal to the model for every "
                 "rule-base order + bit-exact "
                 "primitive-float model vs C correspondence under ASan + independent reference oracle",
}

H = vlib.VERIF / "harness" / "C13"
CORPUS = vlib.VERIF / "corpus" / "C13" / "cases.jsonl"
EPS = 2.0 ** -52
ARITY = {1: 2, 2: 4, 3: 3, 4: 2, 5: 4, 6: 4, 7: 4, 8: 3, 9: 2, 10: 2, 11: 2, 12: 2, 13: 4}
NAME = {1: "gauss", 2: "gauss2", 3: "gbell", 4: "sig", 5: "dsig", 6: "psig", 7: "trap", 8: "tri", 9: "lins", 10: "linz",
        11: "s", 12: "z", 13: "pi"}
OPNAME = ["equ", "cap", "cap_algebra", "cap_bounded", "cup", "cup_algebra", "cup_bounded"]
NOLIBM = (7, 8, 9, 10)          # families whose C code calls neither exp nor pow


# ------------------------------------------------------------------------------------------------ (de)serialisation
def enc(o):
    if isinstance(o, float):
        return o.hex()
    if isinstance(o, dict):
        return {k: enc(v) for k, v in o.items()}
    if isinstance(o, (list, tuple)):
        return [enc(v) for v in o]
    return o


def dec(o):
    if isinstance(o, str) and (o[:2] in ("0x", "-0", "na", "in", "-i") or o[:3] == "-0x"):
        try:
            return float.fromhex(o)
        except ValueError:
            return float(o)
    if isinstance(o, dict):
        return {k: dec(v) for k, v in o.items()}
    if isinstance(o, list):
        return [dec(v) for v in o]
    return o


def hx(x):
    return fcorr.argbits(float(x))


def cq(x):
    return fcorr.coqf(float(x))


def cql(xs):
    return fcorr.coq_list([float(v) for v in xs])


# ------------------------------------------------------------------------------------------------ case -> C line, Coq expr
def c_line(d):
    k = d["k"]
    if k == "mf":
        return "mf %x %s %s" % (d["tag"], hx(d["x"]), " ".join(hx(v) for v in d["p"]))
    if k == "op":
        return "op %s %s %s" % (hx(d["a"]), hx(d["b"]), hx(d["g"]))
    if k == "wk":
        return "wk %x %s %s" % (d["n"], hx(d["x"]), " ".join(hx(v) for v in d["tab"]))
    if k == "fz":
        head = "%s %x %x %x %x %x %x %x" % ("fzs" if d["split"] else "fz", d["nrule"], d["nfuzz"], d["opr"], d["mask"],
                                             len(d["me"]), len(d["mec"]), len(d["ops"]))
        nums = d["gains"] + d["lim"] + d["me"] + d["mec"] + d["mkp"] + d["mki"] + d["mkd"]
        ops = " ".join("%x %s %s" % (o[0], hx(o[1]), hx(o[2])) for o in d["ops"])
        return head + " " + " ".join(hx(v) for v in nums) + " " + ops
    raise ValueError(k)


def coq_expr(d):
    k = d["k"]
    if k == "mf":
        t, x, p = d["tag"], cq(d["x"]), [cq(v) for v in d["p"]]
        disp = "optf (mf F64_ops %d %s [%s])" % (t, x, "; ".join(p))
        if t in ARITY:
            return "[mf_%s F64_ops %s %s; %s]" % (NAME[t], x, " ".join(p[:ARITY[t]]), disp)
        return "[%s]" % disp
    if k == "op":
        return "op_case %s %s %s" % (cq(d["a"]), cq(d["b"]), cq(d["g"]))
    if k == "wk":
        return "wk_case %d %s %s" % (d["n"], cq(d["x"]), cql(d["tab"]))
    if k == "fz":
        def rb(bit, m):
            return "(Some %s)" % cql(m) if d["mask"] & bit else "None"
        ops = "; ".join(("FZero" if o[0] > 2 else "%s %s %s" % (("FRun", "FPos", "FInc")[o[0]], cq(o[1]), cq(o[2])))
                        for o in d["ops"])
        return ("fz_case %s (fz_init %d %d %d %s %s %s %s %s %s) [%s]"
                % ("true" if d["split"] else "false", d["nrule"], d["nfuzz"], d["opr"], rb(1, d["mkp"]), rb(2, d["mki"]),
                   rb(4, d["mkd"]), cql(d["me"]), cql(d["mec"]), " ".join(cq(v) for v in d["gains"] + d["lim"]), ops))
    raise ValueError(k)


# ------------------------------------------------------------------------------------------------ reference (the property)
def mf_pre(t, p):
    """ordering precondition of the property for family t"""
    if t == 1:
        return p[0] != 0
    if t == 2:
        return p[0] != 0 and p[2] != 0 and p[1] <= p[3]
    if t == 3:
        return p[0] != 0 and p[1] > 0
    if t in (4, 6):
        return True
    if t == 5:
        return p[0] == p[2] and ((p[0] >= 0 and p[1] <= p[3]) or (p[0] <= 0 and p[1] >= p[3]))
    if t == 7 or t == 13:
        return p[0] <= p[1] <= p[2] <= p[3]
    if t == 8:
        return p[0] <= p[1] <= p[2]
    if t in (9, 10):
        return p[0] <= p[1]
    if t in (11, 12):
        return p[0] < p[1]
    return True


def _exp(v):
    try:
        return math.exp(v)
    except OverflowError:
        return math.inf


def _pow(u, v):
    try:
        return math.pow(u, v)
    except OverflowError:
        return math.inf
    except (ValueError, ZeroDivisionError):
        return math.inf


def _sig(x, a, c):
    return 1.0 / (_exp((c - x) * a) + 1.0)


def _s(x, a, b):
    x, a, b = Fraction(x), Fraction(a), Fraction(b)
    if x <= a:
        return Fraction(0)
    if x >= b:
        return Fraction(1)
    if x <= (a + b) / 2:
        return 2 * ((x - a) / (b - a)) ** 2
    return 1 - 2 * ((b - x) / (b - a)) ** 2


def sz_alt(t, x, p):
    """a_mf_s / a_mf_z / a_mf_pi select the quadratic piece by comparing x with the COMPUTED midpoint (a+b)/2 (binary64).
    When x lies between the computed and the exact midpoint (parameters a few ulps apart) the piece evaluated is the
    other one: its exact value, else None.  Only the closeness test uses this; the range test [0,1] is unconditional."""
    if t == 13:
        if x < p[1]:
            t, a, b = 11, p[0], p[1]
        elif x > p[2]:
            t, a, b = 12, p[2], p[3]
        else:
            return None
    else:
        a, b = p[0], p[1]
    if not (a < x < b):
        return None
    cm = (a + b) / 2
    if cm != cm or abs(cm) == math.inf:
        return None
    X, A, B = Fraction(x), Fraction(a), Fraction(b)
    em, cm = (A + B) / 2, Fraction(cm)
    if not (min(em, cm) <= X <= max(em, cm)):
        return None
    lo, up = 2 * ((X - A) / (B - A)) ** 2, 1 - 2 * ((B - X) / (B - A)) ** 2
    v = up if X <= em else lo
    return float(v if t == 11 else 1 - v)


def _sq(v):
    return v * v       # inf instead of OverflowError for huge quotients


def mf_ref(t, x, p):
    """documented value (mf.h) of family t, with the core value 1 at degenerate shoulders; (value, on_core)"""
    if t == 1:
        return _exp(-_sq((x - p[1]) / p[0]) / 2), x == p[1]
    if t == 2:
        if x < p[1]:
            return _exp(-_sq((x - p[1]) / p[0]) / 2), False
        if x > p[3]:
            return _exp(-_sq((x - p[3]) / p[2]) / 2), False
        return 1.0, True
    if t == 3:
        return 1.0 / (_pow(abs((x - p[2]) / p[0]), 2 * p[1]) + 1.0), x == p[2]
    if t == 4:
        return _sig(x, p[0], p[1]), False
    if t == 5:
        return _sig(x, p[0], p[1]) - _sig(x, p[2], p[3]), False
    if t == 6:
        return _sig(x, p[0], p[1]) * _sig(x, p[2], p[3]), False
    X = Fraction(x)
    P = [Fraction(v) for v in p]
    if t == 7:
        a, b, c, dd = P
        if b <= X <= c:
            return 1.0, True
        if X <= a or X >= dd:
            return 0.0, False
        return float((X - a) / (b - a) if X < b else (dd - X) / (dd - c)), False
    if t == 8:
        a, b, c = P[:3]
        if X == b:
            return 1.0, True
        if X <= a or X >= c:
            return 0.0, False
        return float((X - a) / (b - a) if X < b else (c - X) / (c - b)), False
    if t in (9, 10):
        a, b = P[:2]
        v = Fraction(1) if X >= b else (Fraction(0) if X < a else (X - a) / (b - a))
        if t == 10:
            v = 1 - v
        return float(v), v == 1
    if t == 11:
        v = _s(x, p[0], p[1])
        return float(v), X >= P[1]
    if t == 12:
        v = 1 - _s(x, p[0], p[1])
        return float(v), X <= P[0]
    if t == 13:
        a, b, c, dd = P
        if X < b:
            return float(_s(x, p[0], p[1])), False
        if X > c:
            return float(1 - _s(x, p[2], p[3])), False
        return 1.0, True
    return 0.0, False


def close(a, b, rel=1e-9, ab=1e-12):
    if a != a or b != b:
        return False
    if a == b:
        return True
    return abs(a - b) <= ab + rel * max(abs(a), abs(b))


def op_ref(k, a, b):
    if k == 1:
        return min(a, b)
    if k == 2:
        return a * b
    if k == 3:
        return max(a + b - 1, 0.0)
    if k == 4:
        return max(a, b)
    if k == 5:
        return a + b - a * b
    if k == 6:
        return min(a + b, 1.0)
    return math.sqrt(max(a * b, 0.0)) * math.sqrt(max(1 - (1 - a) * (1 - b), 0.0))


def table_sets(tab, n):
    """the sets a_pid_fuzzy_mf visits: [(tag, params)] (stops at NUL / unknown tag / n sets); None if the table is short"""
    sets, k = [], 0
    while len(sets) < n:
        if k >= len(tab):
            return None
        v = tab[k]
        t = int(v) if (v == v and abs(v) < 1e9) else -1
        if t not in ARITY:
            break
        if k + 1 + ARITY[t] > len(tab):
            return None
        sets.append((t, tab[k + 1:k + 1 + ARITY[t]]))
        k += 1 + ARITY[t]
    return sets


def actives(sets, x):
    """[(i, y)] with y > eps by the documented definitions; flag `sharp` false if some y is too close to the threshold"""
    out, sharp, pre = [], True, True
    for i, (t, p) in enumerate(sets):
        if not mf_pre(t, p):
            pre = False
            continue
        y, _ = mf_ref(t, x, p + [0.0] * (4 - len(p)))
        if EPS / 4 < y < EPS * 4:
            sharp = False
        if y > EPS:
            out.append((i, y))
    return out, sharp, pre


# (tag, x, parameters): see the strict probes in run()
SPAN_PROBES = [
    (8, 0.9e308, [-1e308, 1e308, 1.5e308, 0.0]), (8, -0.9e308, [-1.5e308, -1e308, 1e308, 0.0]),
    (7, 0.9e308, [-1e308, 1e308, 1.2e308, 1.5e308]), (7, -0.9e308, [-1.5e308, -1.2e308, -1e308, 1e308]),
    (9, 0.9e308, [-1e308, 1e308, 0.0, 0.0]), (10, 0.9e308, [-1e308, 1e308, 0.0, 0.0]),
    (11, 1.7e308, [1.6e308, 1.75e308, 0.0, 0.0]), (11, 0.5e308, [-1e308, 1.5e308, 0.0, 0.0]),
    (12, 1.7e308, [1.6e308, 1.75e308, 0.0, 0.0]), (12, 0.5e308, [-1e308, 1.5e308, 0.0, 0.0]),
    (13, 1.7e308, [1.6e308, 1.75e308, 1.76e308, 1.77e308]), (13, -1.7e308, [-1.79e308, -1.78e308, -1.75e308, -1.6e308]),
]


def oracle(d, out):
    """The property on the C output `out` (list of floats; real-libm build).  Returns None or a description."""
    k = d["k"]
    if k == "mf":
        t, x, p = d["tag"], d["x"], d["p"]
        if any(v != v or abs(v) == math.inf for v in [x] + p):
            return None
        if t not in ARITY:
            return None if out == [0.0] else "a_mf(%d, ...) = %r, expected 0 for a tag that is no membership function" % (t, out)
        spec, disp = out[0], out[1]
        if fcorr.bits(spec) != fcorr.bits(disp):
            return "a_mf(A_MF_%s, x, a) = %r differs from a_mf_%s(x, ...) = %r" % (NAME[t].upper(), disp, NAME[t], spec)
        if not mf_pre(t, p):
            return None
        nm = "a_mf_%s(x=%r; %s)" % (NAME[t], x, ", ".join(repr(v) for v in p[:ARITY[t]]))
        if not (0.0 <= spec <= 1.0):
            return "%s = %r is outside [0,1]" % (nm, spec)
        ref, core = mf_ref(t, x, p)
        if core and spec != 1.0:
            return "%s = %r, but x lies on the core where the value must be exactly 1" % (nm, spec)
        if not close(spec, ref):
            alt = sz_alt(t, x, p) if t in (11, 12, 13) else None
            if alt is None or not close(spec, alt):
                return "%s = %r, the documented definition gives %r" % (nm, spec, ref)
        return None
    if k == "op":
        a, b, g = d["a"], d["b"], d["g"]
        if not (0 <= a <= 1 and 0 <= b <= 1):
            return None
        if not close(out[0], 1 - a, 1e-15, 1e-16):
            return "a_fuzzy_not(%r) = %r" % (a, out[0])
        for i, kk in enumerate([1, 2, 3, 4, 5, 6, 0]):
            v = out[1 + i]
            nm = "a_fuzzy_%s(%r, %r)" % (OPNAME[kk], a, b)
            if not (0.0 <= v <= 1.0):
                return "%s = %r is outside [0,1]" % (nm, v)
            if not close(v, op_ref(kk, a, b), 1e-14, 1e-16):
                return "%s = %r, definition gives %r" % (nm, v, op_ref(kk, a, b))
            if kk in (1, 2, 3) and v > min(a, b) + 4e-16:
                return "%s = %r exceeds min(a,b)" % (nm, v)
            if kk in (4, 5, 6) and v < max(a, b) - 4e-16:
                return "%s = %r is below max(a,b)" % (nm, v)
            if kk == 0 and not (a * b - 1e-15 <= v <= a + b - a * b + 1e-15):
                return "%s = %r is not between the algebraic product and the algebraic sum" % (nm, v)
        if 0 <= g <= 1:
            lo, hi = a * b, a + b - a * b
            if not (lo - 1e-12 <= out[8] <= hi + 1e-12):
                return "a_fuzzy_equ_(%r, %r, %r) = %r is not between a*b and a+b-a*b" % (g, a, b, out[8])
        for kk in range(8):
            want = out[1 + [1, 2, 3, 4, 5, 6, 0].index(kk if kk < 7 else 0)]
            if fcorr.bits(out[9 + kk]) != fcorr.bits(want):
                return "a_pid_fuzzy_opr(%d)(%r, %r) = %r, a_fuzzy_%s gives %r" % (kk, a, b, out[9 + kk], OPNAME[kk if kk < 7 else 0], want)
        return None
    if k == "wk":
        sets = table_sets(d["tab"], d["n"])
        if sets is None:
            return None
        act, sharp, pre = actives(sets, d["x"])
        if not (sharp and pre) or out == [-math.inf]:
            return None
        cnt = int(out[0])
        got_idx = [int(v) for v in out[1:1 + cnt]]
        got_val = out[1 + cnt:1 + 2 * cnt]
        if got_idx != [i for i, _ in act]:
            return "a_pid_fuzzy_mf recorded sets %s, the sets with membership > epsilon are %s" % (got_idx, [i for i, _ in act])
        for (i, y), v in zip(act, got_val):
            if not close(v, y):
                return "a_pid_fuzzy_mf recorded value %r for set %d, definition gives %r" % (v, i, y)
        return None
    if k == "fz":
        return fz_oracle(d, out)
    return None


def fz_oracle(d, out):
    n, nf = d["nrule"], d["nfuzz"]
    kp0, ki0, kd0 = d["gains"]
    summax, summin, outmax, outmin = d["lim"]
    sme, smec = table_sets(d["me"], n), table_sets(d["mec"], n)
    if sme is None or smec is None:
        return None
    per = 9 + 2 * nf + nf * (2 + nf)
    pos = 0
    if not d["split"]:
        if out[:4] != [float(8 * nf), float(8 * nf + 8 * nf * (2 + nf)), 0.0, float(nf)]:
            return ("a_pid_fuzzy_set_bfuzz layout: val offset %r bytes, A_PID_FUZZY_BFUZZ(%d) = %r bytes, bfuzz() offset %r, nfuzz %r"
                    % (out[0], nf, out[1], out[2], out[3]))
        pos = 4
    prev_err = 0.0
    fits_all = True
    for si, (kind, set_, fdb) in enumerate(d["ops"]):
        crashed = len(out) - pos < per
        if kind > 2:
            if crashed:
                return "sanitizer report in a_pid_fuzzy_zero at step %d" % si
            st = out[pos:pos + per]
            pos += per
            if st[4] != 0 or st[5] != 0 or st[6] != 0 or st[7] != 0 or st[8] != 0:
                return "a_pid_fuzzy_zero left non-zero state %r at step %d" % (st[4:9], si)
            prev_err = 0.0
            continue
        e = set_ - fdb
        ec = e - prev_err
        ae, sh1, pre1 = actives(sme, e)
        aec, sh2, pre2 = actives(smec, ec)
        fits = len(ae) <= nf and len(aec) <= nf
        if not (sh1 and sh2 and pre1 and pre2):
            return None      # too close to the activity threshold / table outside the property's precondition: not judged
        if crashed:
            if fits and fits_all:
                return ("sanitizer report (scratch overrun) at step %d although only %d / %d sets are active and nfuzz = %d"
                        % (si, len(ae), len(aec), nf))
            return None
        fits_all = fits_all and fits
        if not fits_all:
            return None      # more than nfuzz active sets: outside the precondition, contents of the scratch block undefined
        st = out[pos:pos + per]
        pos += per
        o, kp, ki, kd, sm = st[0], st[1], st[2], st[3], st[4]
        if not (outmin <= o <= outmax) or o != st[5]:
            return "step %d: output %r (state out %r) outside the limits [%r, %r]" % (si, o, st[5], outmin, outmax)
        if any(v != v or abs(v) == math.inf for v in st[:9]):
            return "step %d: controller state not finite: out kp ki kd sum out var fdb err = %r" % (si, st[:9])
        # gains = base + weighted mean of the consequents of the active rules
        want = [kp0, ki0, kd0]
        rng = [(kp0, kp0), (ki0, ki0), (kd0, kd0)]
        if ae and aec:
            w = [[op_ref(d["opr"] if d["opr"] < 7 else 0, y1, y2) for _, y2 in aec] for _, y1 in ae]
            tot = sum(sum(r) for r in w)
            if tot > 1e-13:
                for gi, (bit, m) in enumerate(((1, d["mkp"]), (2, d["mki"]), (4, d["mkd"]))):
                    if d["mask"] & bit:
                        cons = [m[i * n + j] for i, _ in ae for j, _ in aec]
                        acc = sum(w[a][b] * m[ae[a][0] * n + aec[b][0]] for a in range(len(ae)) for b in range(len(aec)))
                        want[gi] += acc / tot
                        rng[gi] = (rng[gi][0] + min(cons), rng[gi][1] + max(cons))
            elif tot > 0:
                want = None   # ill-conditioned weighted mean: only the range is judged
                for gi, (bit, m) in enumerate(((1, d["mkp"]), (2, d["mki"]), (4, d["mkd"]))):
                    if d["mask"] & bit:
                        cons = [m[i * n + j] for i, _ in ae for j, _ in aec]
                        rng[gi] = (rng[gi][0] + min(cons), rng[gi][1] + max(cons))
        for gi, (nm, v) in enumerate((("kp", kp), ("ki", ki), ("kd", kd))):
            lo, hi = rng[gi]
            tol = 1e-9 * max(abs(lo), abs(hi), 1.0)
            if not (lo - tol <= v <= hi + tol):
                return ("step %d (e=%r, ec=%r, operator %d): derived %s = %r is not between base + smallest and base + largest "
                        "active consequent [%r, %r]" % (si, e, ec, d["opr"], nm, v, lo, hi))
            if want is not None and not close(v, want[gi], 1e-9, 1e-9):
                return ("step %d (e=%r, ec=%r, operator %d): derived %s = %r, base + weighted mean of the active rule consequents "
                        "is %r" % (si, e, ec, d["opr"], nm, v, want[gi]))
        prev_err = e
    return None


# ------------------------------------------------------------------------------------------------ generators
def near(r, v):
    """v, or a neighbour of v (the comparisons in mf.c are strict/non-strict mixes)"""
    c = r.random()
    if c < 0.5:
        return v
    if c < 0.75:
        return math.nextafter(v, math.inf)
    return math.nextafter(v, -math.inf)


def sorted_params(r, k):
    style = r.choice("iiffd")
    if style == "i":
        vals = sorted(float(r.randint(-6, 6)) for _ in range(k))
    elif style == "f":
        vals = sorted(r.uniform(-5, 5) for _ in range(k))
    else:   # degenerate shoulders
        base = sorted(float(r.randint(-4, 4)) for _ in range(k))
        j = r.randrange(k - 1)
        base[j + 1] = base[j]
        vals = sorted(base)
        if r.random() < 0.3:
            vals = [vals[0]] * k
    return vals


def gen_mf(r, t):
    ar = ARITY[t]
    if t in (7, 8, 9, 10, 11, 12, 13):
        p = sorted_params(r, ar)
        if r.random() < 0.06:
            r.shuffle(p)                      # outside the precondition: tie only
        pts = list(p) + [(p[0] + p[1]) / 2, (p[-2] + p[-1]) / 2, p[0] - 1, p[-1] + 1, r.uniform(p[0] - 1, p[-1] + 1),
                         r.uniform(p[0], p[-1]), r.uniform(p[0], p[-1])]
        x = near(r, r.choice(pts))
    elif t in (1, 2):
        p = [r.choice([r.uniform(0.05, 3), float(r.randint(1, 3)), -r.uniform(0.1, 2)]), r.uniform(-3, 3) if r.random() < 0.5 else float(r.randint(-3, 3))]
        if t == 2:
            p += [r.choice([r.uniform(0.05, 3), 1.0]), p[1] + r.choice([0.0, 1.0, r.uniform(0, 3), -0.5 if r.random() < 0.1 else 0.25])]
        cs = [p[1]] + ([p[3]] if t == 2 else [])
        x = near(r, r.choice(cs + [r.uniform(-8, 8), r.uniform(-8, 8), cs[0] - 40.0, cs[-1] + 40.0]))
    elif t == 3:
        p = [r.choice([r.uniform(0.1, 3), 1.0, -2.0]), r.choice([1.0, 2.0, 0.5, r.uniform(0.1, 4), 3.0]), r.choice([0.0, float(r.randint(-3, 3)), r.uniform(-3, 3)])]
        x = near(r, r.choice([p[2], p[2] + p[0], p[2] - p[0], r.uniform(-8, 8), r.uniform(-8, 8), 1e6]))
    else:
        a = r.choice([r.uniform(0.1, 8), float(r.randint(1, 5)), -r.uniform(0.1, 8), 0.0])
        c1 = r.uniform(-3, 3) if r.random() < 0.6 else float(r.randint(-3, 3))
        p = [a, c1]
        if t in (5, 6):
            if t == 5 and r.random() < 0.8:     # the property's precondition: equal slopes, ordered centres
                d = r.choice([0.0, 1.0, r.uniform(0, 4)])
                p += [a, c1 + d if a >= 0 else c1 - d]
            else:
                p += [r.choice([a, -a, r.uniform(-5, 5)]), r.uniform(-3, 3)]
        x = near(r, r.choice([c1, r.uniform(-8, 8), r.uniform(-8, 8), 300.0, -300.0]))
    return {"k": "mf", "tag": t, "x": float(x), "p": [float(v) for v in p] + [0.0] * (4 - len(p))}


def gen_op(r):
    def deg():
        return r.choice([0.0, 1.0, 0.5, r.random(), r.random(), r.random(), r.random() * 1e-9, 1 - r.random() * 1e-9])
    a, b = deg(), deg()
    if r.random() < 0.15:
        b = 1 - a                 # a + b == 1: the bounded operators' kink
    if r.random() < 0.03:
        a = r.uniform(-1, 2)      # outside [0,1]: tie only
    return {"k": "op", "a": a, "b": b, "g": r.choice([0.0, 1.0, 0.5, r.random()])}


def gen_table(r, ns, style, L=3.0):
    """membership parameter table with ns sets over [-L, L]; returns flat list (without terminator)"""
    tab = []
    h = 2 * L / max(ns - 1, 1)
    ov = r.choice([1.0, 1.0, 1.5, 2.0, 2.6, 0.75])
    for i in range(ns):
        c = -L + i * h if ns > 1 else 0.0
        w = h * ov
        st = style if style != "mixed" else r.choice(["tri", "trap", "gauss", "gbell", "pi", "lin", "sz", "sig"])
        if style == "pl":
            st = r.choice(["tri", "trap", "lin"])
        if st == "tri":
            tab += [8.0, c - w, c, c + w]
        elif st == "trideg":
            tab += [8.0, c - w, c, c] if i % 2 else [8.0, c, c, c + w]
        elif st == "trap":
            tab += [7.0, c - w, c - w / 4, c + w / 4, c + w]
        elif st == "gauss":
            tab += [1.0, w / 2, c] if r.random() < 0.7 else [2.0, w / 2, c - w / 4, w / 3, c + w / 4]
        elif st == "gbell":
            tab += [3.0, w / 2, r.choice([1.0, 2.0, 1.5]), c]
        elif st == "pi":
            tab += [13.0, c - w, c - w / 4, c + w / 4, c + w]
        elif st == "lin":
            tab += ([10.0, c, c + w] if i == 0 else [9.0, c - w, c] if i == ns - 1 else [8.0, c - w, c, c + w])
        elif st == "sz":
            tab += ([12.0, c, c + w] if i == 0 else [11.0, c - w, c] if i == ns - 1 else [13.0, c - w, c, c, c + w])
        elif st == "sig":
            tab += r.choice([[4.0, 4 / w, c], [6.0, 4 / w, c - w / 2, -4 / w, c + w / 2], [5.0, 4 / w, c - w / 2, 4 / w, c + w / 2]])
    return tab


def gen_fz(r, over=False, quick=True):
    n = r.choice([1, 2, 3, 3, 4, 5, 5, 6, 7, 7, 9])
    pl = over or r.random() < 0.45
    style = r.choice(["tri", "trap", "lin", "pl", "trideg"]) if pl else r.choice(["gauss", "gbell", "pi", "sz", "sig", "mixed", "mixed"])
    ns = n if r.random() < 0.8 else r.randint(1, n)
    L = 3.0

    def table():
        t = gen_table(r, ns, style, L)
        if ns < n or r.random() < 0.3:
            t = t + [r.choice([0.0, 0.0, 0.5, -0.5, 14.0, -3.0, 99.0])]
        if r.random() < 0.1:       # non-integer tags: (int) truncation
            k, out = 0, list(t)
            while k < len(out) and int(out[k]) in ARITY:
                tg = int(out[k])
                out[k] = tg + r.choice([0.25, 0.5, 0.999])
                k += 1 + ARITY[tg]
            t = out
        return t
    me = table()
    mec = table() if r.random() < 0.6 else list(me)
    nops = r.randint(1, 10 if n <= 5 else 6)
    ops, fdb = [], 0.0
    centres = [-L + i * (2 * L / max(ns - 1, 1)) for i in range(ns)]
    prev = 0.0
    for _ in range(nops):
        kind = r.choice([0, 1, 1, 1, 2, 2, 2, 3]) if r.random() < 0.25 else r.choice([1, 2])
        c = r.random()
        if c < 0.3:
            e = r.choice(centres)                    # exactly on a core / a breakpoint
        elif c < 0.4:
            e = near(r, r.choice(centres))
        elif c < 0.9:
            e = r.uniform(-L - 0.5, L + 0.5)
        else:
            e = r.choice([L + 50.0, -L - 50.0, 0.0])  # outside every support: ne == 0
        if r.random() < 0.5:
            fdb = r.choice([0.0, float(r.randint(-2, 2)), r.uniform(-2, 2)])
        set_ = e + fdb
        if r.random() < 0.2:                          # aim ec at a centre instead: ec = e - prev
            set_ = (prev + r.choice(centres)) + fdb
        ops.append([kind, float(set_), float(fdb)])
        prev = 0.0 if kind > 2 else (set_ - fdb)
    d = {"k": "fz", "split": False, "nrule": n, "nfuzz": n, "opr": r.choice([0, 1, 2, 3, 3, 4, 5, 6, 6, 7, 100] if not over else [1, 2, 3, 6]),
         "mask": r.choice([7, 7, 7, 7, 1, 2, 4, 5, 0, 3, 6]), "me": me, "mec": mec,
         "mkp": [float(r.randint(-9, 9)) if r.random() < 0.5 else r.uniform(-3, 3) for _ in range(n * n)],
         "mki": [r.uniform(-0.5, 0.5) for _ in range(n * n)],
         "mkd": [r.uniform(-0.1, 0.1) for _ in range(n * n)],
         "gains": [r.uniform(0, 20), r.uniform(0, 2), r.uniform(0, 0.5)],
         "lim": r.choice([[10.0, -10.0, 10.0, -10.0], [1.0, -1.0, 2.0, -2.0], [100.0, -100.0, 50.0, -50.0], [0.5, -0.5, 0.25, -0.25]]),
         "ops": ops}
    if pl:
        # piecewise-linear tables: the active sets are known exactly, so nfuzz can be tight (or, `over`, too small)
        sme, smec = table_sets(me, n), table_sets(mec, n)
        mx, pe = 0, 0.0
        for kind, s, f in ops:
            if kind > 2:
                pe = 0.0
                continue
            e = s - f
            for sets, x in ((sme, e), (smec, e - pe)):
                mx = max(mx, sum(1 for (t, p) in sets if mf_ref(t, x, p + [0.0] * (4 - len(p)))[0] > 0))
            pe = e
        if over:
            d["nfuzz"] = max(0, mx - r.choice([1, 1, 2]))
            d["split"] = True
        elif r.random() < 0.7:
            d["nfuzz"] = max(mx, 1)
            d["split"] = r.random() < 0.5
    return d


def gen_fz_foot(r):
    """directed (seeded change C13-18): an operating point at the very foot of a lone triangular set in both inputs with the
    algebraic product - every firing strength is far below machine epsilon although the memberships are far above it; the
    weighted mean is still that of the active consequents (all of one sign here, so base + 0 is outside their range)"""
    n = r.choice([2, 3, 5])
    L = 3.0
    h = 2 * L / (n - 1)
    w = h * 0.4
    me = []
    for i in range(n):
        c = -L + i * h
        me += [8.0, c - w, c, c + w]
    c = -L + r.randrange(n) * h
    delta = r.choice([1e-9, 3e-9, 2e-10, 6e-9, 1e-8])
    e = (c - w) + w * delta if r.random() < 0.5 else (c + w) - w * delta
    sg = r.choice([1.0, -1.0])
    return {"k": "fz", "split": False, "nrule": n, "nfuzz": n, "opr": 2, "mask": 7, "me": me, "mec": list(me),
            "mkp": [sg * r.uniform(1, 9) for _ in range(n * n)], "mki": [sg * r.uniform(0.1, 0.5) for _ in range(n * n)],
            "mkd": [sg * r.uniform(0.01, 0.1) for _ in range(n * n)], "gains": [10.0, 1.0, 0.1],
            "lim": [100.0, -100.0, 50.0, -50.0], "ops": [[r.choice([1, 2]), float(e), 0.0]]}


def gen_wk(r):
    n = r.randint(0, 6)
    ns = r.randint(0, 6)
    tab = gen_table(r, ns, r.choice(["tri", "trap", "mixed", "mixed", "lin", "sz", "trideg"])) if ns else []
    tab += [r.choice([0.0, 0.9, -0.9, -1.0, 14.0, 13.999, 8.0, 1e9, -5.0])]
    if r.random() < 0.3:
        k, out = 0, list(tab)
        while k < len(out) and int(out[k]) in ARITY:
            tg = int(out[k])
            out[k] = tg + r.choice([0.25, 0.5, 0.999])
            k += 1 + ARITY[tg]
        tab = out
    return {"k": "wk", "n": n, "x": near(r, r.choice([0.0, 1.5, -3.0, 3.0, r.uniform(-4, 4), r.uniform(-4, 4)])), "tab": tab}


def gen_cases(ctx, tag="cases", scale=1.0):
    r = ctx.rng.__class__(ctx.subseed("c13-" + tag))
    q = ctx.quick
    n_mf = int((160 if q else 1600) * scale)
    cases = []
    for t in range(1, 14):
        for _ in range(n_mf):
            cases.append(gen_mf(r, t))
    for t in (0, 14, 15, 1000):
        cases.append({"k": "mf", "tag": t, "x": r.uniform(-3, 3), "p": [r.uniform(-3, 3) for _ in range(4)]})
    # directed: legal but extreme widths / slopes ("for every input and every well-ordered parameter set ... in [0,1], exactly one
    # on its core"): the quotient (x-c)/sigma is formed first by the code, so nothing overflows or underflows
    for sg, c, xs in ((1e-170, 3.0, (3.0, 3.0 + 1e-170, 3.0 - 2e-170, 4.0)), (1e-300, 0.0, (0.0, 1e-300, -3e-300)),
                      (1e160, 0.0, (1e160, -1e160, 0.0, 3e160)), (1e300, 5.0, (1e300, 5.0, -2e300))):
        for x in xs:
            cases.append({"k": "mf", "tag": 1, "x": float(x), "p": [sg, c, 0.0, 0.0]})
            cases.append({"k": "mf", "tag": 2, "x": float(x), "p": [sg, c, sg, c]})
            cases.append({"k": "mf", "tag": 3, "x": float(x), "p": [sg, 2.0, c, 0.0]})
    for _ in range(int((500 if q else 5000) * scale)):
        cases.append(gen_op(r))
    for _ in range(int((250 if q else 2500) * scale)):
        cases.append(gen_wk(r))
    for i in range(int((320 if q else 4200) * scale)):
        cases.append(gen_fz(r, over=(i % 8 == 7), quick=q))
    rf = ctx.rng.__class__(ctx.subseed("c13-foot-" + tag))
    for _ in range(int((12 if q else 120) * scale)):
        cases.append(gen_fz_foot(rf))
    return cases


def load_corpus():
    if not CORPUS.exists():
        return []
    out = []
    for ln in CORPUS.read_text().splitlines():
        ln = ln.strip()
        if ln and not ln.startswith("#"):
            out.append(dec(json.loads(ln)))
    return out


# ------------------------------------------------------------------------------------------------ running
def shrink_fz(d, fails):
    """delta-debug the operation list, then try the simplest settings that keep the failure"""
    ops = vlib.ddmin(d["ops"], lambda sub: fails(dict(d, ops=sub)), max_tests=60)
    best = dict(d, ops=ops)
    for key, val in (("mask", 1), ("split", False), ("gains", [1.0, 0.0, 0.0])):
        cand = dict(best, **{key: val})
        if cand != best and fails(cand):
            best = cand
    return best


def par_run_c(binary, lines):
    """the harness forks once per controller case (slow under ASan): run slices of the case list in parallel"""
    from concurrent.futures import ThreadPoolExecutor
    k = max(1, min(vlib.NPROC, len(lines) // 50))
    sl = [lines[i::k] for i in range(k)]
    with ThreadPoolExecutor(max_workers=k) as ex:
        res = list(ex.map(lambda ls: fcorr.run_c(binary, ls) if ls else [], sl))
    out = [None] * len(lines)
    for j, r in enumerate(res):
        if len(r) != len(sl[j]):
            raise vlib.CheckError("C harness printed %d lines for %d cases" % (len(r), len(sl[j])))
        out[j::k] = r
    return out


def par_run_model(ctx, name, exprs):
    """vm_compute in parallel coqc processes; cases are dealt round-robin so that the (large) controller cases spread evenly"""
    k = max(1, min(2 * vlib.NPROC, len(exprs) // 20))
    order = [i for j in range(k) for i in range(j, len(exprs), k)]
    per = (len(exprs) + k - 1) // k
    res = fcorr.run_model(ctx, name, ["C12.PidDefs", "C13.MfDefs", "C13.FuzzyDefs", "C13.FuzzyShow"],
                          [exprs[i] for i in order], shard=per)
    out = [None] * len(exprs)
    for pos, i in enumerate(order):
        out[i] = res[pos]
    return out


def controller_part(ctx, scale=1.0):
    """The fuzzy-tuned controller alone: a_pid_fuzzy_run/pos/inc/zero histories (kind "fz") through the bit-exact correspondence
    (C vs the PrimFloat model of C13/FuzzyDefs.v, which calls the C12 step functions after the gain update) and through the
    oracle fz_oracle (output inside the limits, state finite, gains = base + weighted mean of the active consequents, scratch
    block).  Used by checks/C12.py, whose property names the fuzzy-tuned controller too; findings are reported through `ctx`."""
    import os
    srcs = ["mf.c", "fuzzy.c", "pid_fuzzy.c", "pid.c"]
    c_sub = ctx.cc("fz_subst", [H / "drv.c", fcorr.LIBM_SUBST], repo_srcs=srcs, mode="num",
                   extra=["-fsanitize=address"] + fcorr.WRAP_FLAGS)
    c_lib = ctx.cc("fz_libm", [H / "drv.c"], repo_srcs=srcs, mode="num", extra=["-fsanitize=address"])
    ok, outs, failed = ctx.coq_build(["C13/FuzzyShow.v"])
    if not ok:
        raise vlib.CheckError("model does not compile: %s" % failed)
    os.environ.update({"ASAN_OPTIONS": "detect_leaks=0:abort_on_error=0:exitcode=23"})
    r = ctx.rng.__class__(ctx.subseed("c13-controller"))
    cases = [d for d in load_corpus() if d["k"] == "fz"]
    ncorp = len(cases)
    for i in range(int((200 if ctx.quick else 3000) * scale)):
        cases.append(gen_fz(r, over=(i % 8 == 7), quick=ctx.quick))
    lines = [c_line(d) for d in cases]
    out_sub = par_run_c(c_sub, lines)
    out_lib = par_run_c(c_lib, lines)
    m_out = par_run_model(ctx, "fzcases", [coq_expr(d) for d in cases])
    nd = 0
    for i, d in enumerate(cases):
        if out_sub[i] != m_out[i]:
            nd += 1
            if nd <= 3:
                j = vlib.first_diff(out_sub[i], m_out[i])
                ctx.tie_broken("correspondence fuzzy-tuned controller (bit-exact binary64, libm substituted): case #%d `%s`: output %s: "
                               "C %s, model %s" % (i, lines[i][:90], j, out_sub[i][j:j + 3] if j is not None else "",
                                                   m_out[i][j:j + 3] if j is not None else ""))

    def c_eval(dd):
        return [fcorr.fval(b) for b in fcorr.run_c(c_lib, [c_line(dd)])[0]]

    reported = set()
    masks = {}
    for i, d in enumerate(cases):
        masks[d["mask"]] = masks.get(d["mask"], 0) + 1
        why = oracle(d, [fcorr.fval(b) for b in out_lib[i]])
        if why:
            key = "a_pid_fuzzy/" + ("scratch" if "sanitizer" in why else "layout" if "layout" in why else "limits" if "limits" in why
                                    else "state" if "finite" in why else "gains")
            if key in reported:
                continue
            reported.add(key)
            d2 = shrink_fz(d, lambda c: oracle(c, c_eval(c)) is not None)
            ctx.report(key, oracle(d2, c_eval(d2)) or why,
                       {"case": enc(d2), "harness_line": c_line(d2), "c_output": out_lib[i][:40],
                        "how": "echo '<harness_line>' | build/%s/fz_libm" % ctx.pid})
    ctx.count(evaluations=len(cases))
    ctx.cov["fuzzy_controller_cases"] = len(cases)
    ctx.cov["fuzzy_controller_corpus_cases"] = ncorp
    ctx.cov["fuzzy_controller_rule_base_masks"] = {str(k): v for k, v in sorted(masks.items())}
    ctx.cov["fuzzy_controller_correspondence_mismatches"] = nd
    return nd


MF_NAMES = ["a_mf_gauss", "a_mf_gauss2", "a_mf_gbell", "a_mf_sig", "a_mf_dsig", "a_mf_psig", "a_mf_trap", "a_mf_tri", "a_mf_lins",
            "a_mf_linz", "a_mf_s", "a_mf_z", "a_mf_pi"] + ["a_mf@e=%d" % i for i in range(0, 15)]
OPR_NAMES = ["a_fuzzy_not", "a_fuzzy_cap", "a_fuzzy_cap_algebra", "a_fuzzy_cap_bounded", "a_fuzzy_cup", "a_fuzzy_cup_algebra",
             "a_fuzzy_cup_bounded", "a_fuzzy_equ", "a_fuzzy_equ_"]


def run(ctx):
    ctx.prove()
    # second tie: mf.c, fuzzy.c and fuzzy.h are REGENERATED by the translator and proved equal to the hand model, one theorem per
    # membership function, per dispatcher tag and per operator, for every NumOps instance
    ctx.translate_and_tie([("src/mf.c", MF_NAMES), ("src/fuzzy.c", OPR_NAMES)], "GenMf", H / "TieMf.v", have=1, real=8)
    # third tie: src/pid_fuzzy.c (table walker, joint membership / defuzzifier, operator selection) regenerated with its loops as
    # Fixpoints (tools/c2arr.py) and proved equal to the hand model C13/FuzzyDefs.v for every rule-base order (harness/C13/TieLoop*.v)
    import varr
    varr.arr_translate_and_tie(ctx, "C13")
    ctx.assumptions += ["floating-point rounding and libm accuracy are not part of the theorems; the oracle compares the real-libm "
                        "build with the documented definitions to 1e-9",
                        "C built with gcc -O2 -ffp-contract=off -fsanitize=address; exp/pow substituted identically in the bit-exact run"]
    srcs = ["mf.c", "fuzzy.c", "pid_fuzzy.c", "pid.c"]
    c_sub = ctx.cc("drv_subst", [H / "drv.c", fcorr.LIBM_SUBST], repo_srcs=srcs, mode="num",
                   extra=["-fsanitize=address"] + fcorr.WRAP_FLAGS)
    c_lib = ctx.cc("drv_libm", [H / "drv.c"], repo_srcs=srcs, mode="num", extra=["-fsanitize=address"])
    ok, outs, failed = ctx.coq_build(["C13/FuzzyShow.v"])
    if not ok:
        raise vlib.CheckError("model does not compile: %s\n%s" % (failed, "\n".join(outs.get(f, "")[-800:] for f in failed)))
    # non-vacuity examples (a concrete controller satisfying every hypothesis of the gain theorems; the as-found
    # a_pid_fuzzy_out_ storing NaN in the binary64 instance) are not a dependency of Properties_C13.v: build them too
    bad = ctx.scan_forbidden([vlib.COQ / "C13" / "Examples.v"])
    ok, outs, failed = ctx.coq_build(["C13/Examples.v"])
    if bad or not ok:
        ctx.tie_broken("C13/Examples.v (non-vacuity examples) no longer checks: %s %s"
                       % (bad, " ".join(outs.get("C13/Examples.v", "").split())[-300:]))
    env = {"ASAN_OPTIONS": "detect_leaks=0:abort_on_error=0:exitcode=23"}
    import os
    os.environ.update(env)

    corpus = load_corpus()
    cases = corpus + gen_cases(ctx)
    lines = [c_line(d) for d in cases]
    out_sub = par_run_c(c_sub, lines)
    out_lib = par_run_c(c_lib, lines)
    m_out = par_run_model(ctx, "c13cases", [coq_expr(d) for d in cases])
    # ---- tie
    nd, bad_kinds = 0, {}
    for i, d in enumerate(cases):
        if out_sub[i] != m_out[i]:
            nd += 1
            kk = d["k"] + ("/%s" % NAME.get(d.get("tag"), d.get("tag")) if d["k"] == "mf" else "")
            bad_kinds[kk] = bad_kinds.get(kk, 0) + 1
            if nd <= 3:
                j = vlib.first_diff(out_sub[i], m_out[i])
                ctx.tie_broken("correspondence C13 (bit-exact binary64, libm substituted): case #%d `%s`: output %s: C %s, model %s"
                               % (i, lines[i][:90], j, out_sub[i][j:j + 3] if j is not None else "", m_out[i][j:j + 3] if j is not None else ""))
    # ---- the property on the C outputs (real libm)
    def c_eval(dd):
        return [fcorr.fval(b) for b in fcorr.run_c(c_lib, [c_line(dd)])[0]]


    reported = set()

    def report(d, why, out_bits):
        if d["k"] == "mf":
            key = "a_mf_%s" % NAME.get(d["tag"], "dispatch")
        elif d["k"] == "fz":
            key = "a_pid_fuzzy/" + ("scratch" if "sanitizer" in why else "layout" if "layout" in why else "limits" if "limits" in why
                                    else "state" if "finite" in why else "gains")
        else:
            key = {"op": "a_fuzzy_operators", "wk": "a_pid_fuzzy_mf"}[d["k"]]
        if key in reported:
            return
        reported.add(key)
        if d["k"] == "fz":
            d = shrink_fz(d, lambda c: oracle(c, c_eval(c)) is not None)
            why = oracle(d, c_eval(d)) or why
        ctx.report(key, why, {"case": enc(d), "harness_line": c_line(d), "c_output": out_bits,
                              "how": "echo '<harness_line>' | build/C13/drv_libm   (real libm; drv_subst = substituted libm)"})

    kinds = {}
    nviol = 0
    for i, d in enumerate(cases):
        kk = d["k"] + ("/%s" % NAME.get(d.get("tag"), "other") if d["k"] == "mf" else "/over" if d["k"] == "fz" and d["nfuzz"] < d["nrule"] and d["split"] else "")
        kinds[kk] = kinds.get(kk, 0) + 1
        why = oracle(d, [fcorr.fval(b) for b in out_lib[i]])
        if why:
            nviol += 1
            report(d, why, out_lib[i][:40])
    # ---- strict probes (OPEN findings, KNOWN_FINDINGS.txt): finite arguments, well-ordered finite parameters whose span b - a
    # (tri, trap, lins, linz) or sum a + b (s, z, pi) exceeds the largest binary64 number.  Found while relating the float run
    # to the rounded-real run (C13/MfOverflow.v, theorem C13_f64_span_overflow_refuted); each family has its own key, and the
    # generated cases above never come near this range, so any other violation of a family is still reported under its own key.
    nprobe = 0
    for t, x, pp in SPAN_PROBES:
        d = {"k": "mf", "tag": t, "x": float(x), "p": [float(v) for v in pp]}
        o = fcorr.run_c(c_lib, [c_line(d)])[0]
        why = oracle(d, [fcorr.fval(b) for b in o])
        nprobe += 1
        key = "a_mf_%s/span-overflow" % NAME[t]
        if why and key not in reported:
            reported.add(key)
            ctx.report(key, why, {"case": enc(d), "harness_line": c_line(d), "c_output": o[:4],
                                  "how": "echo '<harness_line>' | build/C13/drv_libm"})
    ctx.count(evaluations=nprobe)
    ctx.cov["span_overflow_probes"] = nprobe
    # ---- tie broken and nothing found yet: search harder with the oracle alone (C only, cheap)
    if nd and not reported:
        ctx.log("tie broken on %s; searching for a failing input with the oracle" % bad_kinds)
        for rnd in range(6 if ctx.quick else 20):
            extra = gen_cases(ctx, tag="search%d" % rnd, scale=2.0)
            want = set(k.split("/")[0] for k in bad_kinds)
            extra = [d for d in extra if d["k"] in want or (d["k"] in ("fz", "wk") and "mf" in want)]
            xl = [c_line(d) for d in extra]
            xo = par_run_c(c_lib, xl)
            for d, o in zip(extra, xo):
                why = oracle(d, [fcorr.fval(b) for b in o])
                if why:
                    report(d, why, o[:40])
            ctx.count(evaluations=len(extra))
            if reported:
                break
    nontriv = len(set(lines))
    ctx.count(evaluations=len(cases), nontrivial=nontriv)
    ctx.cov["rule"] = ("corpus first, then generated from VERIF_SEED: per family, ordered parameter tuples (integer, real, "
                       "degenerate shoulders a=b / b=c / all equal, a few unordered) with x on every breakpoint, its two "
                       "neighbouring doubles, midpoints, far outside; operators on {0,1,.5,random,1e-9,1-1e-9}^2 incl. a+b=1; "
                       "table walks with truncated/non-integer/unknown tags; controller histories of 1..10 run/pos/inc/zero steps, "
                       "rule-base orders 1..9, 1..4 overlapping sets, 9 operator enumerators, NULL rule bases, errors aimed at "
                       "cores/breakpoints/outside all supports, tight nfuzz and (fz/over) deliberately too small nfuzz on "
                       "separate exact-size heap blocks; distinct = distinct harness lines")
    ctx.cov["case_kinds"] = kinds
    ctx.cov["corpus_cases"] = len(corpus)
    ctx.cov["correspondence_mismatches"] = nd
    ctx.cov["oracle_failures"] = nviol
    n_over = sum(1 for i, d in enumerate(cases) if d["k"] == "fz" and m_out[i] and m_out[i][-1] == "fff0000000000000")
    ctx.cov["scratch_overrun_cases_model_and_C_agree"] = n_over
    for d in (cases[len(corpus)::max(1, (len(cases) - len(corpus)) // 5)])[:5]:
        ctx.sample({"case": c_line(d)[:200], "model_expr": coq_expr(d)[:200]})
    __import__("vglue").glue(ctx, "C13")   # glue around the modelled core: C++ member wrappers + float / long double builds (differential tests, tools/vglue.py)
